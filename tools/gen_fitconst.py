"""Extra generator (C15): the capacity ladder `potential_caps` of battery.batt_cap_fn as data.

Reads the literal `potential_caps = np.array([...])` from the AST of $ACN_REPO and writes
coq/Gen/FitConst.v with the list over Z (exact) — Model/Convert.v injects it into Q / R.
Fails closed (a file that does not compile) when the statement is not a literal list of integers."""
import ast
import os

BATT = "acnportal/acnsim/models/battery.py"


def generate(repo):
    info = dict(file=BATT, qual="batt_cap_fn::potential_caps")
    try:
        with open(os.path.join(repo, BATT)) as f:
            tree = ast.parse(f.read())
        fn = [n for n in tree.body if isinstance(n, ast.FunctionDef) and n.name == "batt_cap_fn"][0]
        caps = None
        loop_ok = False
        for st in fn.body:
            if isinstance(st, ast.Assign) and len(st.targets) == 1 and isinstance(st.targets[0], ast.Name) \
                    and st.targets[0].id == "potential_caps":
                v = st.value
                if isinstance(v, ast.Call) and ast.unparse(v.func) in ("np.array", "numpy.array") and len(v.args) == 1:
                    v = v.args[0]
                caps = ast.literal_eval(v)
                info["line"] = st.lineno
            if isinstance(st, ast.For) and isinstance(st.target, ast.Name) and st.target.id == "cap" \
                    and ast.unparse(st.iter) == "potential_caps":
                loop_ok = True
        if caps is None or not loop_ok or not all(isinstance(c, int) and not isinstance(c, bool) for c in caps):
            raise ValueError("potential_caps is not a literal list of integers iterated by `for cap in potential_caps`")
        info["values"] = list(caps)
        text = ("From Coq Require Import ZArith List.\nImport ListNotations.\nOpen Scope Z_scope.\n"
                "(* %s :: batt_cap_fn :: potential_caps (line %d) *)\n"
                "Definition potential_caps_Z : list Z := [%s].\n" % (BATT, info["line"], "; ".join(
                    ("%d" % c) if c >= 0 else "(%d)" % c for c in caps)))
    except Exception as e:  # fail closed
        text = "(* UNTRANSLATABLE: %s *)\nDefinition untranslatable : True := 0.\n" % str(e).replace("*)", "* )")
        info["error"] = str(e)
    return [("FitConst.v", text, info)]
