"""Extra generator for C12: reads the *shape* of the constraint book-keeping code with `ast` and emits
coq/Gen/C12Shape.v — the constants the hand-written model (Model/Network.v) is parameterised by:

  * the test guarding register_evse and the exception it raises,
  * the default-name format and the renaming suffix used by add_constraint, the exception for an
    unregistered station, and the fact that this check precedes every assignment to `self.*`,
  * the exceptions of remove_constraint / update_constraint and the order of the two calls update makes,
  * which arithmetic / in-place operators class Current defines itself (decides whether `a += b` runs
    the class's operator or pandas' NDFrame._inplace_method).

Anything that does not have the expected shape is refused (fail closed): the generated file then does not
compile and the check reports the broken obligation.  Loops / pandas calls are NOT translated; they are
modelled by hand and tied by the correspondence run.  A fingerprint of every function is recorded."""
import ast
import os

import py2coq

NET = "acnportal/acnsim/network/charging_network.py"
CUR = "acnportal/acnsim/network/current.py"


class Refuse(Exception):
    pass


def _cls(tree, name):
    for n in tree.body:
        if isinstance(n, ast.ClassDef) and n.name == name:
            return n
    raise Refuse("class %s not found" % name)


def _fn(cls, name):
    for n in cls.body:
        if isinstance(n, ast.FunctionDef) and n.name == name:
            return n
    raise Refuse("%s.%s not found" % (cls.name, name))


def _body(fn):
    b = fn.body
    if b and isinstance(b[0], ast.Expr) and isinstance(getattr(b[0], "value", None), ast.Constant) \
            and isinstance(b[0].value.value, str):
        b = b[1:]
    return b


def _raised(node):
    """class name raised by a `raise X(...)` statement"""
    if not isinstance(node, ast.Raise) or node.exc is None:
        raise Refuse("expected a raise statement at line %d" % getattr(node, "lineno", 0))
    e = node.exc
    if isinstance(e, ast.Call):
        e = e.func
    if not isinstance(e, ast.Name):
        raise Refuse("unsupported raise at line %d" % node.lineno)
    return e.id


def _is_self_attr(n, attr):
    return isinstance(n, ast.Attribute) and isinstance(n.value, ast.Name) and n.value.id == "self" and n.attr == attr


def _writes_self(stmt):
    for n in ast.walk(stmt):
        if isinstance(n, (ast.Assign, ast.AugAssign, ast.AnnAssign)):
            targets = n.targets if isinstance(n, ast.Assign) else [n.target]
            for t in targets:
                for x in ast.walk(t):
                    if isinstance(x, ast.Attribute) and isinstance(x.value, ast.Name) and x.value.id == "self":
                        return True
        if isinstance(n, ast.Call) and isinstance(n.func, ast.Attribute) and isinstance(n.func.value, ast.Attribute) \
                and isinstance(n.func.value.value, ast.Name) and n.func.value.value.id == "self" \
                and n.func.attr in ("append", "remove", "pop", "insert", "extend", "clear"):
            return True
    return False


def _subscript_store(stmt, attr):
    """stmt is `self.<attr>[index] = <name>`"""
    return (isinstance(stmt, ast.Assign) and len(stmt.targets) == 1 and isinstance(stmt.targets[0], ast.Subscript)
            and _is_self_attr(stmt.targets[0].value, attr) and isinstance(stmt.targets[0].slice, ast.Name)
            and stmt.targets[0].slice.id == "index" and isinstance(stmt.value, ast.Name))


def _append_store(stmt, attr):
    """stmt is `self.<attr> = np.append(self.<attr>, <name>)`"""
    return (isinstance(stmt, ast.Assign) and len(stmt.targets) == 1 and _is_self_attr(stmt.targets[0], attr)
            and isinstance(stmt.value, ast.Call) and isinstance(stmt.value.func, ast.Attribute)
            and stmt.value.func.attr == "append" and len(stmt.value.args) == 2
            and _is_self_attr(stmt.value.args[0], attr) and isinstance(stmt.value.args[1], ast.Name))


def reregistration_shape(fn):
    """True  when a repeated station id overwrites voltage / angle at the index of the existing entry
             (`if evse.station_id in self._EVSEs: index = list(self._EVSEs.keys()).index(...); ...[index] = ...`
              else append),
       False when every registration appends (the code before 76013ed); anything else is refused."""
    b = _body(fn)[1:]
    if any(_append_store(st, "_voltages") for st in b) and any(_append_store(st, "_phase_angles") for st in b):
        return False
    for st in b:
        if isinstance(st, ast.If) and isinstance(st.test, ast.Compare) and isinstance(st.test.ops[0], ast.In) \
                and _is_self_attr(st.test.comparators[0], "_EVSEs"):
            idx_ok = any(isinstance(x, ast.Assign) and isinstance(x.targets[0], ast.Name) and x.targets[0].id == "index"
                         and isinstance(x.value, ast.Call) and isinstance(x.value.func, ast.Attribute)
                         and x.value.func.attr == "index" for x in st.body)
            over = idx_ok and any(_subscript_store(x, "_voltages") for x in st.body) \
                and any(_subscript_store(x, "_phase_angles") for x in st.body) \
                and not any(_append_store(x, a) for x in st.body for a in ("_voltages", "_phase_angles"))
            app = any(_append_store(x, "_voltages") for x in st.orelse) and any(_append_store(x, "_phase_angles") for x in st.orelse)
            if over and app:
                return True
    raise Refuse("register_evse: neither `append always` nor `overwrite at the index of an existing id, else append`")


def json_keeps_shape(cls):
    """True when _from_dict rebuilds constraint_matrix with an explicit reshape (rows = constraints, columns = stations),
    False when it is a bare np.array(list) — a matrix without rows then comes back with shape (0,)"""
    fn = _fn(cls, "_from_dict")
    found = None
    for n in ast.walk(fn):
        if isinstance(n, ast.Assign) and any(isinstance(t, ast.Attribute) and t.attr == "constraint_matrix" for t in n.targets):
            v = n.value
            if isinstance(v, ast.Call) and isinstance(v.func, ast.Attribute) and v.func.attr == "reshape":
                return True
            if isinstance(v, ast.Call):
                found = False
    if found is None:
        raise Refuse("_from_dict does not rebuild constraint_matrix from a call")
    return found


def register_shape(fn):
    b = _body(fn)
    first = b[0]
    if not (isinstance(first, ast.If) and isinstance(first.test, ast.Compare) and len(first.test.ops) == 1
            and isinstance(first.test.ops[0], ast.IsNot) and _is_self_attr(first.test.left, "constraint_matrix")
            and isinstance(first.test.comparators[0], ast.Constant) and first.test.comparators[0].value is None
            and not first.orelse and len(first.body) == 1):
        raise Refuse("register_evse does not start with `if self.constraint_matrix is not None: raise ...`")
    return _raised(first.body[0])


def add_shape(fn):
    b = _body(fn)
    prefix = suffix = exc = None
    check_at = first_write = None
    for i, st in enumerate(b):
        # if name is None: name = "<prefix>{0}".format(len(self.constraint_index))
        if isinstance(st, ast.If) and isinstance(st.test, ast.Compare) and isinstance(st.test.ops[0], ast.Is) \
                and isinstance(st.test.left, ast.Name) and st.test.left.id == "name" and prefix is None:
            a = st.body[0]
            if not (isinstance(a, ast.Assign) and isinstance(a.value, ast.Call) and isinstance(a.value.func, ast.Attribute)
                    and a.value.func.attr == "format" and isinstance(a.value.func.value, ast.Constant)):
                raise Refuse("default name is not `<str>.format(...)`")
            fmt = a.value.func.value.value
            arg = a.value.args[0] if a.value.args else None
            if not (fmt.endswith("{0}") and "{" not in fmt[:-3] and isinstance(arg, ast.Call)
                    and isinstance(arg.func, ast.Name) and arg.func.id == "len" and _is_self_attr(arg.args[0], "constraint_index")):
                raise Refuse("default name is not '<prefix>{0}'.format(len(self.constraint_index))")
            prefix = fmt[:-3]
        # if name in self.constraint_index: ...; name += "<suffix>"
        if isinstance(st, ast.If) and isinstance(st.test, ast.Compare) and isinstance(st.test.ops[0], ast.In) \
                and isinstance(st.test.left, ast.Name) and st.test.left.id == "name" \
                and _is_self_attr(st.test.comparators[0], "constraint_index"):
            for a in st.body:
                if isinstance(a, ast.AugAssign) and isinstance(a.op, ast.Add) and isinstance(a.value, ast.Constant):
                    suffix = a.value.value
        # for station_id in current.index: if station_id not in self._EVSEs: raise KeyError
        if isinstance(st, ast.For) and exc is None:
            inner = st.body[0]
            if not (isinstance(st.iter, ast.Attribute) and st.iter.attr == "index" and isinstance(inner, ast.If)
                    and isinstance(inner.test, ast.Compare) and isinstance(inner.test.ops[0], ast.NotIn)
                    and _is_self_attr(inner.test.comparators[0], "_EVSEs")):
                raise Refuse("add_constraint: station check has an unexpected shape")
            exc = _raised(inner.body[0])
            check_at = i
        if first_write is None and _writes_self(st):
            first_write = i
    if prefix is None or suffix is None or exc is None:
        raise Refuse("add_constraint: default name / renaming / station check not found")
    if first_write is not None and first_write < check_at:
        raise Refuse("add_constraint assigns to self.* (line %d) before the unknown-station check" % b[first_write].lineno)
    return prefix, suffix, exc


def missing_name_exc(fn, what):
    for st in _body(fn):
        if isinstance(st, ast.If) and isinstance(st.test, ast.Compare) and isinstance(st.test.ops[0], ast.NotIn) \
                and isinstance(st.test.left, ast.Name) and st.test.left.id == "name" \
                and _is_self_attr(st.test.comparators[0], "constraint_index"):
            return _raised(st.body[0])
    raise Refuse("%s: `if name not in self.constraint_index: raise ...` not found" % what)


def update_calls(fn):
    calls = []
    for st in _body(fn):
        if isinstance(st, ast.Expr) and isinstance(st.value, ast.Call) and isinstance(st.value.func, ast.Attribute) \
                and isinstance(st.value.func.value, ast.Name) and st.value.func.value.id == "self" \
                and st.value.func.attr in ("remove_constraint", "add_constraint"):
            calls.append(st.value.func.attr)
    if calls != ["remove_constraint", "add_constraint"]:
        raise Refuse("update_constraint is not remove_constraint followed by add_constraint: %r" % calls)
    return calls


def current_ops(cls):
    names = set()
    for n in cls.body:
        if isinstance(n, ast.FunctionDef):
            names.add(n.name)
        if isinstance(n, ast.Assign):
            for t in n.targets:
                if isinstance(t, ast.Name):
                    names.add(t.id)
    return names


def cstr(s):
    return '"%s"' % s.replace('"', '""')


def generate(repo):
    infos = []
    try:
        with open(os.path.join(repo, NET)) as f:
            net = ast.parse(f.read())
        with open(os.path.join(repo, CUR)) as f:
            cur = ast.parse(f.read())
        cn = _cls(net, "ChargingNetwork")
        cc = _cls(cur, "Current")
        fns = {q: _fn(cn, q) for q in ("register_evse", "constraints_as_df", "add_constraint", "remove_constraint",
                                       "update_constraint", "constraint_current")}
        for q, fn in fns.items():
            infos.append(dict(name="ChargingNetwork_" + q, file=NET, qual="ChargingNetwork." + q, line=fn.lineno,
                              end_line=fn.end_lineno, fingerprint=py2coq.fingerprint(fn), kind="shape"))
        for n in cc.body:
            if isinstance(n, ast.FunctionDef):
                infos.append(dict(name="Current_" + n.name, file=CUR, qual="Current." + n.name, line=n.lineno,
                                  end_line=n.end_lineno, fingerprint=py2coq.fingerprint(n), kind="shape"))
        reg_exc = register_shape(fns["register_evse"])
        rereg_over = reregistration_shape(fns["register_evse"])
        prefix, suffix, add_exc = add_shape(fns["add_constraint"])
        rem_exc = missing_name_exc(fns["remove_constraint"], "remove_constraint")
        upd_exc = missing_name_exc(fns["update_constraint"], "update_constraint")
        update_calls(fns["update_constraint"])
        ops = current_ops(cc)
        for need in ("__add__", "__radd__", "__sub__", "__mul__", "__rmul__"):
            if need not in ops:
                raise Refuse("class Current does not define %s" % need)
        own_inplace = "__iadd__" in ops and "__isub__" in ops
        keeps = json_keeps_shape(cn)
        fd = _fn(cn, "_from_dict")
        infos.append(dict(name="ChargingNetwork__from_dict", file=NET, qual="ChargingNetwork._from_dict", line=fd.lineno,
                          end_line=fd.end_lineno, fingerprint=py2coq.fingerprint(fd), kind="shape"))
        text = (
            "From Coq Require Import String Bool.\nLocal Open Scope string_scope.\n"
            "(* register_evse: `if self.constraint_matrix is not None: raise %s` is the first statement *)\n"
            "Definition exc_register : string := %s.\n"
            "(* a repeated station id overwrites voltage/angle at the existing index (else: appends a second entry) *)\n"
            "Definition reregistration_overwrites : bool := %s.\n"
            "(* add_constraint: name = '%s{0}'.format(len(self.constraint_index)); name += '%s' on collision;\n"
            "   unknown station -> %s, checked before any assignment to self.* *)\n"
            "Definition default_name_prefix : string := %s.\n"
            "Definition rename_suffix : string := %s.\n"
            "Definition exc_unknown_station : string := %s.\n"
            "Definition exc_remove_missing : string := %s.\n"
            "Definition exc_update_missing : string := %s.\n"
            "(* update_constraint: self.remove_constraint(name) then self.add_constraint(..., name=new_name) *)\n"
            "Definition update_is_remove_then_add : bool := true.\n"
            "(* class Current defines __iadd__ and __isub__ itself: %s *)\n"
            "Definition current_defines_inplace : bool := %s.\n"
            "(* _from_dict reshapes the reloaded constraint matrix to (constraints, stations) *)\n"
            "Definition json_keeps_matrix_shape : bool := %s.\n"
        ) % (reg_exc, cstr(reg_exc), "true" if rereg_over else "false", prefix, suffix, add_exc, cstr(prefix), cstr(suffix), cstr(add_exc),
             cstr(rem_exc), cstr(upd_exc), own_inplace, "true" if own_inplace else "false",
             "true" if keeps else "false")
    except (Refuse, OSError, SyntaxError, IndexError, AttributeError) as e:
        text = "(* UNTRANSLATABLE: %s *)\nDefinition untranslatable : True := 0.\n" % str(e).replace("*)", "* )")
        infos.append(dict(name="C12Shape_refused", file=NET, qual="-", line=0, end_line=0, fingerprint="", error=str(e)))
    return [("C12Shape.v", text, infos)]
