#!/usr/bin/env python3
"""py2coq — fail-closed translator from a small subset of Python (via `ast`) to Coq.

One Python function (or one addressed sub-expression of a function) becomes one Coq
`Definition`.  The same tree walk emits the definition over several numeric carriers
(`Q` executable, `R` for proofs, `Z` for integer kernels) by switching an ops table only.

Anything outside the supported subset raises `Untranslatable("file:line: why")`; nothing is
guessed.  See DESIGN.md §4.1 for the subset.
"""
import ast
import fractions
import hashlib
import os
import re


class Untranslatable(Exception):
    pass


# ---------------------------------------------------------------------------------------------
# ops tables
# ---------------------------------------------------------------------------------------------
def _q_lit(fr):
    n, d = fr.numerator, fr.denominator
    return "(%s # %d)" % (n if n >= 0 else "(%d)" % n, d)


def _r_lit(fr):
    n, d = fr.numerator, fr.denominator
    s = "%d" % n if n >= 0 else "(%d)" % n
    return s if d == 1 else "(%s / %d)" % (s, d)


def _z_lit(fr):
    if fr.denominator != 1:
        raise Untranslatable("non-integer literal in Z kernel")
    n = fr.numerator
    return "%d" % n if n >= 0 else "(%d)" % n


OPS = {
    "Q": dict(ty="Q", scope="Q_scope", lit=_q_lit, le="Qleb", lt="Qltb", eq="Qeqb",
              min="Qmin", max="Qmax", abs="Qabs", exp="qexp", isclose="Qisclose",
              div=lambda a, b: "(%s / %s)" % (a, b), floor=None),
    "R": dict(ty="R", scope="R_scope", lit=_r_lit, le="Rleb", lt="Rltb", eq="Reqb",
              min="Rmin", max="Rmax", abs="Rabs", exp="exp", isclose="Risclose",
              div=lambda a, b: "(%s / %s)" % (a, b), floor=None),
    "Z": dict(ty="Z", scope="Z_scope", lit=_z_lit, le="Z.leb", lt="Z.ltb", eq="Z.eqb",
              min="Z.min", max="Z.max", abs="Z.abs", exp=None, isclose=None,
              div=None, floor=None),
}


def coq_ident(s):
    s = re.sub(r"[^A-Za-z0-9_]", "_", s)
    if not re.match(r"[A-Za-z_]", s):
        s = "v_" + s
    return s


# ---------------------------------------------------------------------------------------------
# source access
# ---------------------------------------------------------------------------------------------
class Source:
    _cache = {}

    def __init__(self, repo, relpath):
        self.path = os.path.join(repo, relpath)
        self.rel = relpath
        key = self.path
        with open(self.path) as f:
            self.text = f.read()
        self.tree = ast.parse(self.text)

    def find(self, qual):
        """qual = 'Class.method' or 'function' or 'function.inner'."""
        node = self.tree
        for part in qual.split("."):
            found = None
            for ch in ast.walk(node) if node is self.tree and False else ast.iter_child_nodes(node):
                if isinstance(ch, (ast.FunctionDef, ast.ClassDef)) and ch.name == part:
                    found = ch
                    break
            if found is None:
                raise Untranslatable("%s: cannot find %s (part %s)" % (self.rel, qual, part))
            node = found
        return node


def resolve_path(node, path, where):
    """Follow an attribute/index path such as 'body[2].body[1].test' from `node`."""
    cur = node
    for m in re.finditer(r"([A-Za-z_]+)|\[(\d+)\]", path):
        try:
            if m.group(1):
                cur = getattr(cur, m.group(1))
            else:
                cur = cur[int(m.group(2))]
        except (AttributeError, IndexError, TypeError):
            raise Untranslatable("%s: path %s does not resolve" % (where, path))
    return cur


def fingerprint(node):
    """Normalised-AST fingerprint (ignores formatting, comments, docstrings)."""
    class Strip(ast.NodeTransformer):
        def visit_FunctionDef(self, n):
            self.generic_visit(n)
            if n.body and isinstance(n.body[0], ast.Expr) and isinstance(
                    getattr(n.body[0], "value", None), ast.Constant) and isinstance(
                    n.body[0].value.value, str):
                n.body = n.body[1:] or [ast.Pass()]
            return n
    import copy
    t = Strip().visit(copy.deepcopy(node))
    return hashlib.sha256(ast.dump(t, include_attributes=False).encode()).hexdigest()[:16]


# ---------------------------------------------------------------------------------------------
# translator proper
# ---------------------------------------------------------------------------------------------
class FnTranslator:
    """Translate one function (or one addressed expression) for one carrier."""

    def __init__(self, repo, spec, domain):
        self.repo = repo
        self.spec = spec
        self.domain = domain
        self.ops = OPS[domain]
        # two spellings of the same idea (both kept, each used by its own anchors):
        if spec.get("ops_override", {}).get(domain):
            # (C03/C14) e.g. {"Q": {"exp": "qexp_fast"}}: another spelling of an operator for one carrier
            self.ops = dict(self.ops, **spec["ops_override"][domain])
        if domain == "Q" and spec.get("q_exp"):
            # (C15) executable twin may use another rational exp (e.g. Base.QExpFast.qexpf); additive
            self.ops = dict(self.ops, exp=spec["q_exp"])
        self.src = Source(repo, spec["file"])
        self.fn = self.src.find(spec["qual"])
        self.where = "%s:%s" % (spec["file"], spec["qual"])
        self.types = dict(spec.get("types", {}))        # python expr text -> type
        self.inline_props = spec.get("inline_props", {})  # attr name -> qualname of property
        self.call_params = spec.get("call_params", {})  # call text prefix -> (param name, type)
        self.consts = spec.get("consts", {})            # python name -> literal value
        self.str_enums = spec.get("str_enums", {})      # python expr text -> {str: int}
        self.params = {}   # key (python text) -> (coq name, type)
        self.extra = {}    # call params
        self.fresh = {}
        self.written = []  # self attrs written (python text keys), in order of first write
        self.has_raise = False
        self.ret_type = None
        self.ret_type_hint = spec.get("ret", None)
        self.effects = spec.get("effects", [])
        self.has_effects = False
        self.depth = 0
        # additive extensions (sim.py anchors): see CONVENTIONS / notes/C01.md
        self.names = spec.get("names", {})                  # python text -> Coq parameter name
        self.drop_calls = spec.get("drop_calls", [])        # expression-statement calls that are dropped
        self.effect_ctors = spec.get("effect_ctors", [])    # constructor calls flattened inside effect arguments
        self.setitem_effects = spec.get("setitem_effects", [])  # `X[k] = v` recorded as effect "X[]=" [k; v]
        self.ret_coq = None                                 # Coq return type of a `stmt_range` tuple (C15)

    # -- helpers -----------------------------------------------------------------------------
    def err(self, node, why):
        raise Untranslatable("%s:%s: %s" % (self.spec["file"], getattr(node, "lineno", "?"), why))

    def txt(self, node):
        return ast.unparse(node)

    def type_of_key(self, key):
        return self.types.get(key, "num")

    def coqty(self, t):
        T = self.ops["ty"]
        return {"num": T, "bool": "bool", "numlist": "list %s" % T, "optnum": "option %s" % T,
                "unit": "unit", "Z": "Z", "optZ": "option Z", "nat": "nat", None: "unit"}[t]

    def param(self, key, ty=None):
        if key not in self.params:
            nm = self.names[key] if key in getattr(self, "names", {}) else coq_ident(key.replace("self.", "self_"))
            self.params[key] = (nm, ty or self.type_of_key(key))
        return self.params[key]

    # -- integer-typed ("Z") sub-expressions inside a Q/R kernel (additive; C15) -----------------
    def inj(self, a, t, node=None):
        """coerce an expression of type Z to the carrier ('num')"""
        if t == "num":
            return a
        if t == "Z":
            if self.domain == "Q":
                return "(inject_Z %s)" % a
            if self.domain == "R":
                return "(IZR %s)" % a
            return a
        self.err(node, "numeric expression expected, got %s" % t)

    def paramable(self, k):
        """names whose value before any assignment is a parameter of the generated function"""
        return k.startswith("self.") or k in getattr(self, "argnames", ()) or k in self.types

    def newname(self, base):
        base = coq_ident(base.replace("self.", "self_"))
        n = self.fresh.get(base, 0) + 1
        self.fresh[base] = n
        return "%s_%d" % (base, n)

    # -- expressions -------------------------------------------------------------------------
    def lookup(self, key, env, node):
        if key in env:
            return env[key]
        if key in self.consts:
            v = self.consts[key]
            return (self.ops["lit"](fractions.Fraction(str(v))), "num")
        if key.startswith("self.") or key in self.argnames or key in self.types:
            return self.param(key)
        self.err(node, "unbound name %s" % key)

    def lit(self, node):
        v = node.value
        if isinstance(v, bool):
            return ("true" if v else "false", "bool")
        if isinstance(v, int):
            return (self.ops["lit"](fractions.Fraction(v)), "num")
        if isinstance(v, float):
            # exact decimal value of the literal as written in the source
            seg = ast.get_source_segment(self.src.text, node)
            try:
                fr = fractions.Fraction(seg)
            except (ValueError, TypeError):
                self.err(node, "float literal %r" % seg)
            return (self.ops["lit"](fr), "num")
        self.err(node, "literal %r" % (v,))

    def expr(self, node, env):
        """returns (coq text, type)"""
        o = self.ops
        # `expr_params={"<python text>": (name, type)}`: the addressed sub-expression (e.g. a
        # subscript such as `self._queue[0][0]`, which is outside the subset) becomes a parameter
        ep = self.spec.get("expr_params")
        if ep and not isinstance(node, (ast.Constant, ast.Name)):
            key = self.txt(node)
            if key in ep:
                name, ty = ep[key]
                self.extra.setdefault("$ep:" + key, (name, ty))
                return (name, ty)
        if isinstance(node, ast.Constant):
            return self.lit(node)
        if not isinstance(node, (ast.Name, ast.Attribute)) and self.txt(node) in self.types:
            # an arbitrary sub-expression explicitly declared in `types` (e.g. `x in self._d`,
            # `self._queue[0][0]`) becomes a parameter of the declared type
            return self.param(self.txt(node))
        if isinstance(node, ast.Name):
            return self.lookup(node.id, env, node)
        if isinstance(node, ast.Attribute):
            key = self.txt(node)
            if key in env:
                return env[key]
            if isinstance(node.value, ast.Name) and node.value.id == "self" and node.attr in self.inline_props:
                return self.inline_property(node, env)
            if key in self.consts:
                return self.lookup(key, env, node)
            if key.startswith("self.") or key in self.types:
                return self.param(key)
            self.err(node, "attribute %s" % key)
        if isinstance(node, ast.Subscript):
            # (additive, C04 and C15 -- same implementation on both sides) a subscript read
            # (`self.pilot_signals.shape[1]`, `d["key"]`, `m[:, 0]`) is accepted only when bound in env
            # or when its exact source text is declared in `types`: it becomes a parameter of that type
            key = self.txt(node)
            if key in env:
                return env[key]
            if key in self.types:
                return self.param(key)
            self.err(node, "subscript %s (declare it in types to make it a parameter)" % key)
        if isinstance(node, ast.UnaryOp):
            a, t = self.expr(node.operand, env)
            if isinstance(node.op, ast.USub) and t == "Z" and self.domain != "Z":
                return ("(- %s)%%Z" % a, "Z")
            if isinstance(node.op, ast.USub) and t == "num":
                if isinstance(node.operand, ast.Constant):
                    seg = ast.get_source_segment(self.src.text, node.operand)
                    return (o["lit"](-fractions.Fraction(seg)), "num")
                return ("(- %s)" % a, "num")
            if isinstance(node.op, ast.Not) and t == "bool":
                return ("(negb %s)" % a, "bool")
            self.err(node, "unary op")
        if isinstance(node, ast.BinOp):
            a, ta = self.expr(node.left, env)
            b, tb = self.expr(node.right, env)
            if ta == "Z" and tb == "Z" and self.domain != "Z" and not isinstance(node.op, ast.Div):
                zop = {ast.Add: "+", ast.Sub: "-", ast.Mult: "*"}.get(type(node.op))
                if zop is None:
                    self.err(node, "binary op %s on integers" % type(node.op).__name__)
                return ("(%s %s %s)%%Z" % (a, zop, b), "Z")
            if ta in ("num", "Z") and tb in ("num", "Z") and "Z" in (ta, tb) and self.domain != "Z":
                a, b, ta, tb = self.inj(a, ta, node), self.inj(b, tb, node), "num", "num"
            if ta != "num" or tb != "num":
                self.err(node, "arithmetic on non-number")
            if isinstance(node.op, ast.Add):
                return ("(%s + %s)" % (a, b), "num")
            if isinstance(node.op, ast.Sub):
                return ("(%s - %s)" % (a, b), "num")
            if isinstance(node.op, ast.Mult):
                return ("(%s * %s)" % (a, b), "num")
            if isinstance(node.op, ast.Div):
                if o["div"] is None:
                    self.err(node, "true division in %s kernel" % self.domain)
                return (o["div"](a, b), "num")
            self.err(node, "binary op %s" % type(node.op).__name__)
        if isinstance(node, ast.Compare):
            return self.compare(node, env)
        if isinstance(node, ast.BoolOp):
            return self.boolop(node, env)
        if isinstance(node, ast.IfExp) and self._none_test(node.test) is not None:
            # (additive, C04) `A if x is not None else B` / `A if x is None else B` on a declared
            # optional: the branch guarded by `is not None` sees x unwrapped
            xnode, is_none = self._none_test(node.test)
            x, tx = self.expr(xnode, env)
            if not tx.startswith("opt"):
                self.err(node, "`is None` on a non-optional (%s)" % self.txt(xnode))
            inner = self.newname(self.txt(xnode))
            env2 = dict(env)
            env2[self.txt(xnode)] = (inner, "num")
            some_node, none_node = (node.orelse, node.body) if is_none else (node.body, node.orelse)
            a, ta = self.expr(some_node, env2)
            b, tb = self.expr(none_node, env)
            if ta != tb:
                self.err(node, "conditional expression types")
            return ("(match %s with None => %s | Some %s => %s end)" % (x, b, inner, a), ta)
        if isinstance(node, ast.IfExp):
            c, tc = self.expr(node.test, env)
            a, ta = self.expr(node.body, env)
            b, tb = self.expr(node.orelse, env)
            if tc != "bool" or ta != tb:
                self.err(node, "conditional expression types")
            return ("(if %s then %s else %s)" % (c, a, b), ta)
        if isinstance(node, ast.Call):
            return self.call(node, env)
        if isinstance(node, ast.Subscript) and self.txt(node) in self.types:
            # (additive, C09) a subscript whose exact source text is declared in `types`
            # (e.g. "self._queue[0][0]") becomes a parameter of that type
            return self.param(self.txt(node))
        self.err(node, "expression %s" % type(node).__name__)

    def inline_property(self, node, env):
        qual = self.inline_props[node.attr]
        fn = self.src.find(qual) if isinstance(qual, str) else Source(self.repo, qual[0]).find(qual[1])
        body = [s for s in fn.body if not (isinstance(s, ast.Expr) and isinstance(s.value, ast.Constant))]
        if len(body) != 1 or not isinstance(body[0], ast.Return):
            self.err(node, "property %s is not a single return" % node.attr)
        self.depth += 1
        if self.depth > 8:
            self.err(node, "property inlining too deep")
        # property bodies see only self; translate with an env restricted to self attrs
        env2 = {k: v for k, v in env.items() if k.startswith("self.")}
        r = self.expr(body[0].value, env2)
        self.depth -= 1
        return r

    def compare(self, node, env):
        o = self.ops
        parts = []
        left = node.left
        for op, right in zip(node.ops, node.comparators):
            if isinstance(op, (ast.Is, ast.IsNot)) and isinstance(right, ast.Constant) and right.value is None:
                a, ta = self.expr(left, env)
                if not ta.startswith("opt"):
                    self.err(node, "`is None` on a non-optional (%s)" % self.txt(left))
                if isinstance(op, ast.Is):
                    parts.append("(match %s with None => true | Some _ => false end)" % a)
                else:
                    parts.append("(match %s with None => false | Some _ => true end)" % a)
                left = right
                continue
            # string enum comparison
            lkey = self.txt(left)
            if lkey in self.str_enums and isinstance(right, ast.Constant) and isinstance(right.value, str):
                if right.value not in self.str_enums[lkey]:
                    self.err(node, "string %r not in enum for %s" % (right.value, lkey))
                a, _ = self.param(lkey, "Z")
                code = self.str_enums[lkey][right.value]
                if isinstance(op, ast.Eq):
                    parts.append("(Z.eqb %s %d)" % (a, code))
                elif isinstance(op, ast.NotEq):
                    parts.append("(negb (Z.eqb %s %d))" % (a, code))
                else:
                    self.err(node, "string comparison")
                left = right
                continue
            a, ta = self.expr(left, env)
            b, tb = self.expr(right, env)
            if ta == "Z" and tb == "Z" and self.domain != "Z":
                zc = {ast.LtE: "(Z.leb %s %s)" % (a, b), ast.Lt: "(Z.ltb %s %s)" % (a, b),
                      ast.GtE: "(Z.leb %s %s)" % (b, a), ast.Gt: "(Z.ltb %s %s)" % (b, a),
                      ast.Eq: "(Z.eqb %s %s)" % (a, b), ast.NotEq: "(negb (Z.eqb %s %s))" % (a, b)}.get(type(op))
                if zc is None:
                    self.err(node, "comparison operator")
                parts.append(zc)
                left = right
                continue
            if ta in ("num", "Z") and tb in ("num", "Z") and "Z" in (ta, tb) and self.domain != "Z":
                a, b, ta, tb = self.inj(a, ta, node), self.inj(b, tb, node), "num", "num"
            if ta != "num" or tb != "num":
                self.err(node, "comparison of non-numbers: %s" % self.txt(node))
            if isinstance(op, ast.LtE):
                parts.append("(%s %s %s)" % (o["le"], a, b))
            elif isinstance(op, ast.Lt):
                parts.append("(%s %s %s)" % (o["lt"], a, b))
            elif isinstance(op, ast.GtE):
                parts.append("(%s %s %s)" % (o["le"], b, a))
            elif isinstance(op, ast.Gt):
                parts.append("(%s %s %s)" % (o["lt"], b, a))
            elif isinstance(op, ast.Eq):
                parts.append("(%s %s %s)" % (o["eq"], a, b))
            elif isinstance(op, ast.NotEq):
                parts.append("(negb (%s %s %s))" % (o["eq"], a, b))
            else:
                self.err(node, "comparison operator")
            left = right
        r = parts[0]
        for p in parts[1:]:
            r = "(%s && %s)" % (r, p)
        return (r, "bool")

    def _none_test(self, node):
        """if node is `<x> is None` / `<x> is not None` return (x node, is_none)"""
        if (isinstance(node, ast.Compare) and len(node.ops) == 1
                and isinstance(node.ops[0], (ast.Is, ast.IsNot))
                and isinstance(node.comparators[0], ast.Constant)
                and node.comparators[0].value is None):
            return node.left, isinstance(node.ops[0], ast.Is)
        return None

    def boolop(self, node, env):
        is_or = isinstance(node.op, ast.Or)

        def go(values, env):
            first = values[0]
            nt = self._none_test(first)
            if nt is not None and len(values) > 1:
                xnode, is_none = nt
                x, tx = self.expr(xnode, env)
                if tx.startswith("opt") and (is_none == is_or):
                    # `x is None or REST`  /  `x is not None and REST` : REST sees x unwrapped
                    inner = self.newname(self.txt(xnode))
                    env2 = dict(env)
                    env2[self.txt(xnode)] = (inner, "num" if tx == "optnum" else "Z" if tx == "optZ" else "num")
                    # in Z-domain kernels 'num' is Z already
                    if tx == "optZ":
                        env2[self.txt(xnode)] = (inner, "num" if self.domain == "Z" else "Z")
                    rest = go(values[1:], env2)
                    return "(match %s with None => %s | Some %s => %s end)" % (
                        x, "true" if is_or else "false", inner, rest)
            a, ta = self.expr(first, env)
            if ta != "bool":
                self.err(node, "non-boolean operand of and/or: %s" % self.txt(first))
            if len(values) == 1:
                return a
            rest = go(values[1:], env)
            return "(%s %s %s)" % (a, "||" if is_or else "&&", rest)

        return (go(node.values, env), "bool")

    def call(self, node, env):
        o = self.ops
        f = self.txt(node.func)
        args = node.args

        def nums(arglist):
            out = []
            for a in arglist:
                s, t = self.expr(a, env)
                if t == "Z" and self.domain != "Z":
                    s, t = self.inj(s, t, node), "num"
                if t != "num":
                    self.err(node, "non-numeric argument to %s" % f)
                out.append(s)
            return out

        # int(x) / math.ceil(x): carrier -> Z (Q kernels only; Python int() truncates toward zero)
        if f in ("int", "math.ceil") and len(args) == 1 and not node.keywords and self.domain != "Z":
            x, tx = self.expr(args[0], env)
            if tx == "Z":
                return (x, "Z")
            if tx != "num" or self.domain != "Q":
                self.err(node, "%s on %s in %s kernel" % (f, tx, self.domain))
            return ("(%s %s)" % ("Qtrunc" if f == "int" else "Qceiling", x), "Z")
        if f == "np.clip" and len(args) == 3 and not node.keywords:
            x, lo, hi = nums(args)
            return ("(%s (%s %s %s) %s)" % (o["min"], o["max"], x, lo, hi), "num")

        if f in ("min", "max", "np.minimum", "np.maximum"):
            fn = o["min"] if f in ("min", "np.minimum") else o["max"]
            if len(args) == 1 and isinstance(args[0], (ast.List, ast.Tuple)):
                xs = nums(args[0].elts)
            else:
                xs = nums(args)
            if len(xs) < 2:
                self.err(node, "%s of fewer than two values" % f)
            r = xs[0]
            for x in xs[1:]:
                r = "(%s %s %s)" % (fn, r, x)
            return (r, "num")
        if f == "abs" or f == "np.abs":
            (x,) = nums(args)
            return ("(%s %s)" % (o["abs"], x), "num")
        if f in ("np.exp", "math.exp"):
            if o["exp"] is None:
                self.err(node, "exp in %s kernel" % self.domain)
            (x,) = nums(args)
            return ("(%s %s)" % (o["exp"], x), "num")
        if f == "float" and len(args) == 1 and isinstance(args[0], ast.Constant) and args[0].value == "inf":
            self.err(node, "float('inf')")
        if f == "float" and len(args) == 1 and not node.keywords and not isinstance(args[0], ast.Constant):
            # (additive, C07) float(<numeric expression>) is the identity on the carriers
            (x,) = nums(args)
            return (x, "num")
        if f == "np.clip":
            # (additive, C07) scalar np.clip(x, a_min, a_max) = minimum(maximum(x, a_min), a_max)
            kw = {k.arg: k.value for k in node.keywords}
            pos = list(args)
            names = ["a", "a_min", "a_max"]
            vals = {}
            for nm, a in zip(names, pos):
                vals[nm] = a
            for nm in names:
                if nm in kw:
                    vals[nm] = kw[nm]
            if set(vals) != set(names) or len(pos) + len(kw) != 3:
                self.err(node, "np.clip needs exactly a, a_min, a_max")
            x, lo, hi = nums([vals["a"], vals["a_min"], vals["a_max"]])
            return ("(%s (%s %s %s) %s)" % (o["min"], o["max"], x, lo, hi), "num")
        if f == "np.isclose":
            kw = {k.arg: k.value for k in node.keywords}
            if len(args) != 2:
                self.err(node, "isclose arity")
            atol = self.expr(kw["atol"], env)[0] if "atol" in kw else o["lit"](fractions.Fraction("1e-8"))
            rtol = self.expr(kw["rtol"], env)[0] if "rtol" in kw else o["lit"](fractions.Fraction("1e-5"))
            a, ta = self.expr(args[0], env)
            b, tb = self.expr(args[1], env)
            if ta == "num" and tb == "num":
                return ("(%s %s %s %s %s)" % (o["isclose"], a, b, atol, rtol), "bool")
            if ta == "num" and tb == "numlist":
                v = self.newname("r")
                return ("(map (fun %s => %s %s %s %s %s) %s)" % (v, o["isclose"], a, v, atol, rtol, b), "boollist")
            self.err(node, "isclose argument types")
        if f == "np.any":
            a, ta = self.expr(args[0], env)
            if ta != "boollist":
                self.err(node, "np.any of non-list")
            return ("(existsb (fun b => b) %s)" % a, "bool")
        # calls whose result is an extra parameter (noise draws, collaborator results)
        for prefix, (pname, pty) in self.call_params.items():
            if f == prefix:
                n = sum(1 for k in self.extra if k.startswith(pname))
                name = pname if n == 0 else "%s%d" % (pname, n + 1)
                # every syntactic call site gets its own parameter
                key = "%s@%d:%d" % (pname, node.lineno, node.col_offset)
                if key not in self.extra:
                    self.extra[key] = (name, pty)
                return (self.extra[key][0], pty)
        self.err(node, "call to %s" % f)

    # -- statements --------------------------------------------------------------------------
    def has_exit(self, stmts):
        for s in stmts:
            for n in ast.walk(s):
                if isinstance(n, (ast.Return, ast.Raise)):
                    return True
        return False

    def _is_setitem_effect(self, tgt):
        return isinstance(tgt, ast.Subscript) and self.txt(tgt.value) in getattr(self, "setitem_effects", [])

    def _is_effect_stmt(self, n):
        if isinstance(n, ast.Call) and self.txt(n.func) in self.effects:
            return True
        return isinstance(n, ast.Assign) and len(n.targets) == 1 and self._is_setitem_effect(n.targets[0])

    def assigned(self, stmts):
        out = []
        for s in stmts:
            for n in ast.walk(s):
                tgt = None
                if isinstance(n, ast.Assign):
                    if len(n.targets) != 1:
                        self.err(n, "multiple assignment targets")
                    tgt = n.targets[0]
                elif isinstance(n, ast.AugAssign):
                    tgt = n.target
                if tgt is not None and self._is_setitem_effect(tgt):
                    tgt = None
                if tgt is not None:
                    k = self.txt(tgt)
                    if k not in out:
                        out.append(k)
        return out

    def record(self, env, rv):
        fields = ["%s_ret := %s" % (self.name, rv)]
        for k in self.written:
            v = env[k][0] if k in env else self.param(k)[0]
            fields.append("%s_%s := %s" % (self.name, coq_ident(k.replace("self.", "")), v))
        if self.has_effects:
            fields.append("%s_effects := %s" % (self.name, env.get("$effects", ("[]", None))[0]))
        return "{| " + "; ".join(fields) + " |}"

    def default_ret(self):
        return {"num": self.ops["lit"](fractions.Fraction(0)), "bool": "false", "unit": "tt",
                None: "tt"}.get(self.ret_type_hint, "tt")

    def finish(self, env, ret):
        """build the function result from the return value and the final self attrs"""
        rv, rt = ret
        if self.ret_type is None:
            self.ret_type = rt
        elif self.ret_type != rt:
            raise Untranslatable("%s: inconsistent return types %s / %s" % (self.where, self.ret_type, rt))
        if not self.needs_record:
            return rv if not self.has_raise else "(Ok %s)" % rv
        rec = self.record(env, rv)
        return "(OkS %s)" % rec if self.has_raise else rec

    def block(self, stmts, env, rest):
        """translate stmts followed by continuation rest(env) -> coq text
        (the signature is overridden by subclasses -- tools/stochnet_gen.py, tools/dump_tariffs.py --
        so internal state such as the `if x is None` retry mode lives in self._if_mode, not in arguments)"""
        if not stmts:
            return rest(env)
        s, tail = stmts[0], stmts[1:]
        nxt = lambda e: self.block(tail, e, rest)
        if isinstance(s, ast.Expr):
            if isinstance(s.value, ast.Constant):
                return nxt(env)  # docstring
            if isinstance(s.value, ast.Call) and self.txt(s.value.func) in ("warnings.warn", "print"):
                return nxt(env)
            if isinstance(s.value, ast.Call) and self.txt(s.value.func) in self.drop_calls:
                return nxt(env)
            if isinstance(s.value, ast.Call) and self.txt(s.value.func) in self.effects:
                args = []
                ename = self.txt(s.value.func)
                for a in s.value.args:
                    if isinstance(a, ast.Call) and self.txt(a.func) in self.effect_ctors and not a.keywords:
                        # f(Ctor(a, b)) is recorded as effect "f:Ctor" [a; b]
                        ename += ":" + self.txt(a.func)
                        sub = a.args
                    else:
                        sub = [a]
                    for b in sub:
                        v, t = self.expr(b, env)
                        if t != "num":
                            self.err(s, "effect argument of type %s" % t)
                        args.append(v)
                cur = env.get("$effects", ("[]", None))[0]
                name = self.newname("effects")
                env2 = dict(env)
                env2["$effects"] = (name, "effects")
                return "let %s := (List.app %s [(\"%s\", [%s])]) in\n%s" % (
                    name, cur, ename, "; ".join(args), nxt(env2))
            self.err(s, "expression statement %s" % self.txt(s)[:40])
        if isinstance(s, ast.Pass):
            return nxt(env)
        if isinstance(s, ast.FunctionDef) and self.spec.get("skip_nested_defs"):
            # (C15) nested helper; translated by its own anchor, calls to it must be call_params
            return nxt(env)
        if isinstance(s, ast.Assign) and len(s.targets) == 1 and self._is_setitem_effect(s.targets[0]):
            tgt = s.targets[0]
            args = []
            for b in (tgt.slice, s.value):
                v, t = self.expr(b, env)
                if t != "num":
                    self.err(s, "effect argument of type %s" % t)
                args.append(v)
            cur = env.get("$effects", ("[]", None))[0]
            name = self.newname("effects")
            env2 = dict(env)
            env2["$effects"] = (name, "effects")
            return "let %s := (List.app %s [(\"%s[]=\", [%s])]) in\n%s" % (
                name, cur, self.txt(tgt.value), "; ".join(args), nxt(env2))
        if isinstance(s, (ast.Assign, ast.AugAssign)):
            if isinstance(s, ast.Assign):
                if len(s.targets) != 1:
                    self.err(s, "multiple targets")
                tgt, val = s.targets[0], s.value
                tkey = self.txt(tgt)
                tty = self.types.get(tkey)
                if isinstance(val, ast.Constant) and val.value is None:
                    if not (tty or "").startswith("opt"):
                        self.err(s, "None assigned to non-optional %s" % tkey)
                    v, t = "None", tty
                else:
                    v, t = self.expr(val, env)
                    if (tty or "").startswith("opt") and not t.startswith("opt"):
                        v, t = "(Some %s)" % v, tty
            else:
                tgt = s.target
                cur = ast.BinOp(left=tgt, op=s.op, right=s.value)
                ast.copy_location(cur, s)
                ast.fix_missing_locations(cur)
                v, t = self.expr(cur, env)
            if not isinstance(tgt, (ast.Name, ast.Attribute)):
                self.err(s, "assignment target")
            key = self.txt(tgt)
            if isinstance(tgt, ast.Attribute) and not key.startswith("self."):
                self.err(s, "assignment to %s" % key)
            name = self.newname(key)
            env2 = dict(env)
            env2[key] = (name, t)
            return "let %s := %s in\n%s" % (name, v, nxt(env2))
        if isinstance(s, ast.Return):
            if s.value is None:
                return self.finish(env, ("tt", "unit"))
            if self.spec.get("ret") == "optnum":
                # `ret="optnum"`: the function returns a number or None
                if isinstance(s.value, ast.Constant) and s.value.value is None:
                    return self.finish(env, ("None", "optnum"))
                v, t = self.expr(s.value, env)
                if t != "num":
                    self.err(s, "optnum return of type %s" % t)
                return self.finish(env, ("(Some %s)" % v, "optnum"))
            return self.finish(env, self.expr(s.value, env))
        if isinstance(s, ast.Raise):
            exc = s.exc
            name = self.txt(exc.func) if isinstance(exc, ast.Call) else self.txt(exc)
            if self.needs_record:
                return '(ErrS "%s" %s)' % (name, self.record(env, self.default_ret()))
            return '(Err "%s")' % name
        if isinstance(s, ast.If):
            # `if x is None: A else: B` / `if x is not None: A else: B` on an optional x -- two
            # independent implementations are kept, each with the output format its users rely on:
            #  * spec `narrow_if=True` (opt-in, C01/sim.py): always a `match`, the not-None branch
            #    sees x unwrapped;
            #  * otherwise (automatic, C03/C14 Battery.reset): first the plain translation (x stays
            #    an option in both branches); only if that is refused, retry with x unwrapped in
            #    the not-None branch (`match x with None => A | Some x' => B end`).
            nt = self._none_test(s.test)
            narrow_if = bool(self.spec.get("narrow_if"))
            # self._if_mode[id(s)]: absent = not tried yet, None = plain attempt, True = unwrapped attempt
            if_mode = self.__dict__.setdefault("_if_mode", {})
            unwrap = if_mode.get(id(s), False)
            if nt is not None and not narrow_if and unwrap is False:
                snap = (dict(self.params), dict(self.extra), dict(self.fresh))
                try:
                    if_mode[id(s)] = None
                    try:
                        return self.block(stmts, env, rest)
                    except Untranslatable:
                        self.params, self.extra, self.fresh = snap
                        if_mode[id(s)] = True
                        return self.block(stmts, env, rest)
                finally:
                    del if_mode[id(s)]
            c, tc = self.expr(s.test, env)
            if tc != "bool":
                self.err(s, "non-boolean if test: %s" % self.txt(s.test))
            narrow = None
            cond = lambda a, b: "(if %s then\n%s\nelse\n%s)" % (c, a, b)
            if nt is not None and narrow_if:
                xnode, is_none = nt
                xs, tx = self.expr(xnode, env)
                if tx.startswith("opt"):
                    inner = self.newname(self.txt(xnode))
                    narrow = ("else" if is_none else "body", self.txt(xnode), (inner, "num"))
                    if is_none:
                        cond = lambda a, b: "(match %s with None =>\n%s\n| Some %s =>\n%s end)" % (xs, a, inner, b)
                    else:
                        cond = lambda a, b: "(match %s with None =>\n%s\n| Some %s =>\n%s end)" % (xs, b, inner, a)
            elif nt is not None and unwrap is True:
                xnode, is_none = nt
                xs, tx = self.expr(xnode, env)
                if not tx.startswith("opt"):
                    self.err(s, "`is None` on a non-optional (%s)" % self.txt(xnode))
                inner = self.newname(self.txt(xnode))
                narrow = ("else" if is_none else "body", self.txt(xnode), (inner, "num"))
                if is_none:
                    cond = lambda a, b: "(match %s with None =>\n%s\n| Some %s =>\n%s\nend)" % (xs, a, inner, b)
                else:
                    cond = lambda a, b: "(match %s with Some %s =>\n%s\n| None =>\n%s\nend)" % (xs, inner, a, b)

            #  * (C15, automatic) `if x is not None and REST:` -- a conjunction, which neither of the two
            #    mechanisms above matches: the test stays a plain `if` (boolop() already lets REST see x
            #    unwrapped) and the body reads x as `match x with Some v_ => v_ | None => 0 end` (the
            #    default is unreachable under the test).  A *pure* `if x is not None:` is left to the
            #    mechanisms above (plain first, then a real `match`).
            if nt is None and isinstance(s.test, ast.BoolOp) and isinstance(s.test.op, ast.And):
                nt1 = self._none_test(s.test.values[0])
                if nt1 is not None and not nt1[1]:
                    xk = self.txt(nt1[0])
                    xv, xt = self.expr(nt1[0], env)
                    if xt in ("optnum", "optZ"):
                        it = "num" if (xt == "optnum" or self.domain == "Z") else "Z"
                        zero = "0%Z" if it == "Z" else self.ops["lit"](fractions.Fraction(0))
                        narrow = ("body", xk, ("(match %s with Some v_ => v_ | None => %s end)" % (xv, zero), it))

            def branch_envs(e):
                # (env of the body, env of the else branch): copies of the *current* env (so a
                # freshly initialised "$effects" is seen) with x unwrapped in the not-None branch
                eb = ee = e
                if narrow is not None:
                    en = dict(e)
                    en[narrow[1]] = narrow[2]
                    if narrow[0] == "else":
                        ee = en
                    else:
                        eb = en
                return eb, ee
            if self.has_exit(s.body) or self.has_exit(s.orelse):
                env_body, env_else = branch_envs(env)
                a = self.block(s.body, env_body, nxt)
                b = self.block(s.orelse, env_else, nxt)
                return cond(a, b)
            W = self.assigned(s.body + s.orelse)
            # branch-local temporaries (assigned on one branch only, undefined before) are not
            # merged; a later use of one is an unbound name and fails closed
            Wb, We = self.assigned(s.body), self.assigned(s.orelse)
            W = [k for k in W if k in env or self.paramable(k) or (k in Wb and k in We)]
            if self.has_effects and any(self._is_effect_stmt(n)
                                        for st in s.body + s.orelse for n in ast.walk(st)):
                W = W + ["$effects"]
                if "$effects" not in env:
                    env = dict(env)
                    env["$effects"] = ("[]", "effects")
            if not W:
                return nxt(env)

            def tup(e):
                vals = []
                for k in W:
                    if k in e:
                        vals.append(e[k][0])
                    elif self.paramable(k):
                        vals.append(self.param(k)[0])
                    else:
                        self.err(s, "variable %s assigned on one branch only and not defined before" % k)
                return vals[0] if len(vals) == 1 else "(" + ", ".join(vals) + ")"
            types = {}

            def tup_t(e):
                for k in W:
                    if k in e:
                        types.setdefault(k, e[k][1])
                return tup(e)
            env_body, env_else = branch_envs(env)
            a = self.block(s.body, env_body, tup_t)
            b = self.block(s.orelse, env_else, tup_t)
            env2 = dict(env)
            names = []
            for k in W:
                n = self.newname(key := k)
                names.append(n)
                env2[k] = (n, types.get(k, self.type_of_key(k)))
            pat = names[0] if len(names) == 1 else "'(" + ", ".join(names) + ")"
            return "let %s := %s in\n%s" % (pat, cond(a, b), nxt(env2))
        self.err(s, "statement %s" % type(s).__name__)

    # -- entry points ------------------------------------------------------------------------
    def translate(self):
        spec = self.spec
        self.name = spec["name"]
        fn = self.fn
        if not isinstance(fn, ast.FunctionDef):
            raise Untranslatable("%s is not a function" % self.where)
        a = fn.args
        if a.vararg or a.kwarg or a.kwonlyargs:
            raise Untranslatable("%s: star-args" % self.where)
        argn = [x.arg for x in a.args]
        self.argnames = [x for x in argn if x not in ("self", "cls")]
        env = {}
        # defaults become let-bound constants when the anchor says so
        defaults = dict(zip(argn[len(argn) - len(a.defaults):], a.defaults))
        inline_defaults = spec.get("inline_defaults", [])
        for k in inline_defaults:
            if k not in defaults:
                raise Untranslatable("%s: no default for %s" % (self.where, k))
            env[k] = self.expr(defaults[k], {})
        # `drop_args=[...]`: arguments that are only used through declared attributes
        # (`other.precedence`) or not at all in an addressed expression get no binder of their own
        arg_params = [k for k in self.argnames if k not in inline_defaults and k not in spec.get("drop_args", [])]
        # only_used_args (C04) / prune_args (C01) / prune_params (feasible.py and C15, implemented twice with
        # the same meaning): only the arguments actually read become parameters
        if not spec.get("only_used_args") and not spec.get("prune_args") and not spec.get("prune_params"):
            for k in arg_params:
                self.param(k)
        if "expr_path" in spec:
            node = resolve_path(fn, spec["expr_path"], self.where)
            if not isinstance(node, ast.expr):
                raise Untranslatable("%s: %s is not an expression" % (self.where, spec["expr_path"]))
            self.needs_record = False
            body, rt = self.expr(node, env)
            self.ret_type = rt
        elif "stmt_range" in spec:
            # (additive, C15) a contiguous run of statements lst[i:j] (lst addressed by stmt_path,
            # default the function body) as a function returning the tuple of the named `outputs`.
            # Three `stmt_path` variants coexist, told apart by their companion key: `stmt_range`+`outputs`
            # (here), `result` (C04, next branch), neither (C01: path ends in [a:b], last branch).
            lst = resolve_path(fn, spec.get("stmt_path", "body"), self.where)
            i, j = spec["stmt_range"]
            if not isinstance(lst, list) or not (0 <= i < j <= len(lst)):
                raise Untranslatable("%s: stmt_range %s does not resolve" % (self.where, (i, j)))
            stmts = lst[i:j]
            if any(isinstance(n, (ast.Raise, ast.Return, ast.Continue, ast.Break)) for st in stmts for n in ast.walk(st)):
                raise Untranslatable("%s: control transfer inside stmt_range" % self.where)
            self.needs_record = False
            outs = spec["outputs"]

            def fin(e):
                vals, tys = [], []
                for k in outs:
                    if k in e:
                        v = e[k]
                    elif self.paramable(k):
                        v = self.param(k)
                    else:
                        raise Untranslatable("%s: output %s is not assigned in the range" % (self.where, k))
                    vals.append(v[0])
                    tys.append(self.coqty(v[1]))
                self.ret_coq = tys[0] if len(tys) == 1 else "(" + " * ".join(tys) + ")"
                return vals[0] if len(vals) == 1 else "(" + ", ".join(vals) + ")"
            body = self.block(stmts, env, fin)
            self.ret_type = "tuple"
        elif "stmt_path" in spec and "result" in spec:
            # (additive, C04) translate one statement (or a statement list) addressed by path and
            # return the final value of the local variable named by spec["result"]
            node = resolve_path(fn, spec["stmt_path"], self.where)
            stmts = node if isinstance(node, list) else [node]
            if not stmts or not all(isinstance(x, ast.stmt) for x in stmts):
                raise Untranslatable("%s: %s is not a statement" % (self.where, spec["stmt_path"]))
            if self.has_exit(stmts):
                raise Untranslatable("%s: %s contains return/raise" % (self.where, spec["stmt_path"]))
            self.needs_record = False
            resvar = spec["result"]

            def fin(e):
                if resvar not in e:
                    raise Untranslatable("%s: %s does not define %s" % (self.where, spec["stmt_path"], resvar))
                self.ret_type = e[resvar][1]
                return e[resvar][0]
            body = self.block(stmts, env, fin)
        else:
            stmts = fn.body
            if "stmt_path" in spec:
                # translate a contiguous slice of statements addressed by path, e.g. "body[2].body[3:5]"
                m = re.match(r"^(.*)\[(\d+):(\d+)\]$", spec["stmt_path"])
                if not m:
                    raise Untranslatable("%s: stmt_path %s must end in [a:b]" % (self.where, spec["stmt_path"]))
                lst = resolve_path(fn, m.group(1), self.where)
                if not isinstance(lst, list) or int(m.group(3)) > len(lst):
                    raise Untranslatable("%s: stmt_path %s does not resolve" % (self.where, spec["stmt_path"]))
                stmts = lst[int(m.group(2)):int(m.group(3))]
                if not stmts or not all(isinstance(x, ast.stmt) for x in stmts):
                    raise Untranslatable("%s: stmt_path %s is not a statement list" % (self.where, spec["stmt_path"]))
            self.has_raise = any(isinstance(n, ast.Raise) for s in stmts for n in ast.walk(s))
            self.written = [k for k in self.assigned(stmts) if k.startswith("self.")]
            if self.ret_type_hint is None:
                rets = [n for st in stmts for n in ast.walk(st) if isinstance(n, ast.Return) and n.value is not None]
                if not rets:
                    self.ret_type_hint = "unit"
                elif all(isinstance(r.value, (ast.Compare, ast.BoolOp)) or
                         (isinstance(r.value, ast.Constant) and isinstance(r.value.value, bool)) for r in rets):
                    self.ret_type_hint = "bool"
                else:
                    self.ret_type_hint = "num"
            self.has_effects = any(self._is_effect_stmt(n)
                                   for st in stmts for n in ast.walk(st))
            self.needs_record = bool(self.written) or self.has_effects
            body = self.block(stmts, env, lambda e: self.finish(e, ("tt", "unit")))
        # parameter list: self attrs (sorted), declared-type names (sorted), args, extras
        selfp = sorted(k for k in self.params if k.startswith("self."))
        otherp = sorted(k for k in self.params if not k.startswith("self.") and k not in arg_params)
        order = selfp + otherp + [k for k in arg_params if k in self.params]
        binders = ["(%s : %s)" % (self.params[k][0], self.coqty(self.params[k][1])) for k in order]
        for key in sorted(self.extra, key=lambda k: self.extra[k][0]):
            binders.append("(%s : %s)" % (self.extra[key][0], self.coqty(self.extra[key][1])))
        T = self.ret_coq if self.ret_type == "tuple" else self.coqty(self.ret_type)
        out = []
        if self.needs_record:
            rec = "%s_out" % self.name
            flds = ["%s_ret : %s" % (self.name, T)]
            for k in self.written:
                flds.append("%s_%s : %s" % (self.name, coq_ident(k.replace("self.", "")),
                                            self.coqty(self.type_of_key(k))))
            if self.has_effects:
                flds.append("%s_effects : list (string * list %s)" % (self.name, self.ops["ty"]))
            out.append("Record %s := { %s }." % (rec, "; ".join(flds)))
            T = rec
        if self.has_raise:
            T = ("resS %s" if self.needs_record else "res %s") % T
        out.append("Definition %s %s : %s :=\n%s." % (self.name, " ".join(binders), T, body))
        info = dict(name=self.name, file=spec["file"], qual=spec["qual"],
                    line=fn.lineno, end_line=fn.end_lineno, fingerprint=fingerprint(fn),
                    params=[self.params[k][0] for k in order] +
                           [self.extra[k][0] for k in sorted(self.extra, key=lambda k: self.extra[k][0])])
        return "\n".join(out), info


HEADERS = {
    "Q": "From Coq Require Import ZArith QArith Qminmax Qabs List Bool String.\n"
         "From ACN Require Import Base.Num.\nImport ListNotations.\nOpen Scope string_scope.\nOpen Scope Q_scope.\n",
    "R": "From Coq Require Import ZArith Reals List Bool String.\n"
         "From ACN Require Import Base.Num Base.NumR.\nImport ListNotations.\nOpen Scope string_scope.\nOpen Scope R_scope.\n",
    "Z": "From Coq Require Import ZArith List Bool String.\n"
         "From ACN Require Import Base.Num.\nImport ListNotations.\nOpen Scope string_scope.\nOpen Scope Z_scope.\n",
}


def translate_group(repo, specs, domain):
    """Translate a list of anchor specs for one carrier.  Returns (coq text, infos)."""
    texts, infos = [], []
    for spec in specs:
        t = FnTranslator(repo, spec, domain)
        text, info = t.translate()
        texts.append("(* %s :: %s  (lines %d-%d) *)\n%s\n" % (
            spec["file"], spec["qual"] + (" @ " + spec["expr_path"] if "expr_path" in spec else ""),
            info["line"], info["end_line"], text))
        infos.append(info)
    # per-anchor extra imports, two spellings (both kept, each used by its own anchors):
    extra = []
    for spec in specs:      # (C03/C14) imports={"Q": "From ACN Require Import Base.QExp."}
        imp = spec.get("imports", {}).get(domain)
        if imp and imp.rstrip("\n") not in extra:
            extra.append(imp.rstrip("\n"))
    if domain == "Q":       # (C15) q_coq_require="Qround" / q_require="Base.QExpFast" for the Q file
        for r in sorted({sp["q_coq_require"] for sp in specs if sp.get("q_coq_require")}):
            extra.append("From Coq Require Import %s." % r)
        for r in sorted({sp["q_require"] for sp in specs if sp.get("q_require")}):
            extra.append("From ACN Require Import %s." % r)
    return HEADERS[domain] + "".join(e + "\n" for e in extra) + "\n" + "\n".join(texts), infos


# ---------------------------------------------------------------------------------------------
# constants
# ---------------------------------------------------------------------------------------------
def class_constant(repo, relpath, cls, attr):
    """value of a class-level `attr = <literal>` assignment"""
    src = Source(repo, relpath)
    c = src.find(cls)
    for s in c.body:
        if isinstance(s, ast.Assign) and len(s.targets) == 1 and isinstance(s.targets[0], ast.Name) \
                and s.targets[0].id == attr:
            try:
                return ast.literal_eval(s.value)
            except ValueError:
                raise Untranslatable("%s:%s.%s is not a literal" % (relpath, cls, attr))
    raise Untranslatable("%s: no constant %s.%s" % (relpath, cls, attr))


def default_arg(repo, relpath, qual, arg):
    src = Source(repo, relpath)
    fn = src.find(qual)
    a = fn.args
    argn = [x.arg for x in a.args]
    defaults = dict(zip(argn[len(argn) - len(a.defaults):], a.defaults))
    if arg not in defaults:
        raise Untranslatable("%s:%s has no default for %s" % (relpath, qual, arg))
    try:
        return ast.literal_eval(defaults[arg])
    except ValueError:
        raise Untranslatable("%s:%s default of %s is not a literal" % (relpath, qual, arg))
