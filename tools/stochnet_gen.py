"""Extra generator for C19: control skeletons of StochasticNetwork.plugin / unplug /
post_charging_update, regenerated from stochastic_network.py on every run -> coq/Gen/StochNet_Z.v.

The three methods manipulate dictionaries and objects, which py2coq does not translate.  What IS
translated is their *control skeleton*: the if/elif tree with its guards, the counter updates and —
as data — the ordered list of state-changing calls each path performs ("effects as data",
DESIGN.md section 4.1).  Two additive conventions on top of py2coq.FnTranslator (implemented here in
a subclass; tools/py2coq.py is not modified):

  opaque={"<python expression text>": (name, type)}
      that expression (a dictionary membership test, an attribute of a looked-up object, ...) becomes
      a parameter of the generated function; the hand-written model supplies its value.
  effect_stmts={"<python statement text>": (tag, [argument expression texts])}
      that statement (a dict store / del / popitem, a method call with a None argument) is appended
      to the effects list as (tag, [translated args]).
  body_path="body[1].body[1].body"
      translate that statement list (a loop body) as if it were the function body.

Anything else in those methods that is not in the supported subset makes the generator emit a file
that does not compile (fail closed): Proofs/StochNetGen.v then breaks and the check reports it.
Model/StochNetGen.v interprets the effects; Proofs/StochNetGen.v proves that the interpretation of
the generated skeletons IS Model/StochNet.v (for all states and arguments)."""
import ast
import copy
import py2coq

SN = "acnportal/contrib/acnsim/network/stochastic_network.py"
CN = "acnportal/acnsim/network/charging_network.py"

SPECS = [
    # if len(available_spots) > 0: choice / update_station_id / super().plugin  else: None / enqueue
    dict(name="SN_plugin", file=SN, qual="StochasticNetwork.plugin", kind="skel",
         types={"station_id": "optZ", "ev.session_id": "num"},
         call_params={"self.available_evses": ("available_spots", "numlist"),
                      "len": ("n_available", "num"),
                      "random.choice": ("chosen_spot", "num")},
         effects=["ev.update_station_id", "super().plugin", "self.waiting_queue.move_to_end"],
         effect_stmts={"ev.update_station_id(None)": ("ev.update_station_id(None)", []),
                       "self.waiting_queue[ev.session_id] = ev": ("waiting_queue.setitem", ["ev.session_id"])}),
    # the whole if/elif tree of unplug
    dict(name="SN_unplug", file=SN, qual="StochasticNetwork.unplug", kind="skel",
         types={"next_ev": "num", "self._EVSEs[station_id].ev": "optZ"},
         opaque={"session_id in self.waiting_queue": ("in_queue", "bool"),
                 "station_id in self._EVSEs": ("station_known", "bool"),
                 "session_id is None": ("session_is_none", "bool"),
                 "self._EVSEs[station_id].ev.session_id": ("occupant_session", "num")},
         call_params={"len": ("queue_len", "num")},
         effects=["self._EVSEs[station_id].unplug", "next_ev.update_station_id", "super().plugin"],
         effect_stmts={"del self.waiting_queue[session_id]": ("waiting_queue.del", ["session_id"]),
                       "_, next_ev = self.waiting_queue.popitem(last=False)": ("waiting_queue.popitem(last=False)", [])}),
    # post_charging_update: the three guards and the loop body
    dict(name="SN_post_enabled", file=SN, qual="StochasticNetwork.post_charging_update", kind="expr",
         types={"self.early_departure": "bool"}, expr_path="body[1].test"),
    dict(name="SN_post_selected", file=SN, qual="StochasticNetwork.post_charging_update", kind="expr",
         types={"evse.ev": "optZ", "evse.ev.fully_charged": "bool"},
         expr_path="body[1].body[0].value.generators[0].ifs[0]"),
    dict(name="SN_post_body", file=SN, qual="StochasticNetwork.post_charging_update", kind="skel",
         body_path="body[1].body[1].body",
         types={"ev.station_id": "num", "ev.session_id": "num"},
         call_params={"len": ("queue_len", "num")},
         effects=["self.unplug"]),
    # available_evses: the filter of the comprehension
    dict(name="SN_available_filter", file=SN, qual="StochasticNetwork.available_evses", kind="expr",
         types={"evse.ev": "optZ"}, expr_path="body[1].value.generators[0].ifs[0]"),
    # ChargingNetwork.plugin (reached through super().plugin)
    dict(name="CN_plugin", file=CN, qual="ChargingNetwork.plugin", kind="skel",
         types={"station_id": "optZ"},
         opaque={"ev.station_id in self._EVSEs": ("station_known", "bool")},
         effects=["self._EVSEs[ev.station_id].plugin"]),
]


class Skel(py2coq.FnTranslator):
    def __init__(self, repo, spec, domain):
        super().__init__(repo, spec, domain)
        self.opaque = spec.get("opaque", {})
        self.effect_stmts = spec.get("effect_stmts", {})
        if "body_path" in spec:
            stmts = py2coq.resolve_path(self.fn, spec["body_path"], self.where)
            if not isinstance(stmts, list) or not all(isinstance(s, ast.stmt) for s in stmts):
                raise py2coq.Untranslatable("%s: %s is not a statement list" % (self.where, spec["body_path"]))
            fn = copy.copy(self.fn)
            fn.body = stmts
            self.fn = fn

    def expr(self, node, env):
        key = self.txt(node)
        if key in self.opaque:
            name, ty = self.opaque[key]
            self.params[key] = (name, ty)
            return (name, ty)
        return super().expr(node, env)

    def _is_skel_effect_stmt(self, s):
        return isinstance(s, ast.stmt) and self.txt(s) in self.effect_stmts

    def _is_effect_stmt(self, n):
        # the base translator's notion (calls listed in spec["effects"]) or ours
        return self._is_skel_effect_stmt(n) or super()._is_effect_stmt(n)

    def assigned(self, stmts):
        out = []

        def visit(s):
            if self._is_skel_effect_stmt(s):
                return
            tgt = None
            if isinstance(s, ast.Assign):
                if len(s.targets) != 1:
                    self.err(s, "multiple assignment targets")
                tgt = s.targets[0]
            elif isinstance(s, ast.AugAssign):
                tgt = s.target
            if tgt is not None:
                k = self.txt(tgt)
                if k not in out:
                    out.append(k)
            for ch in ast.iter_child_nodes(s):
                if isinstance(ch, ast.stmt):
                    visit(ch)
        for s in stmts:
            visit(s)
        return out

    def block(self, stmts, env, rest):
        if stmts and self._is_skel_effect_stmt(stmts[0]):
            s, tail = stmts[0], stmts[1:]
            tag, argtexts = self.effect_stmts[self.txt(s)]
            args = []
            for a in argtexts:
                v, t = self.expr(ast.parse(a, mode="eval").body, env)
                if t != "num":
                    self.err(s, "effect argument of type %s" % t)
                args.append(v)
            cur = env.get("$effects", ("[]", None))[0]
            name = self.newname("effects")
            env2 = dict(env)
            env2["$effects"] = (name, "effects")
            return "let %s := (List.app %s [(\"%s\", [%s])]) in\n%s" % (
                name, cur, tag, "; ".join(args), self.block(tail, env2, rest))
        if stmts and isinstance(stmts[0], ast.If) and self.has_effects and "$effects" not in env:
            # make sure effects emitted by effect_stmts inside a non-exiting `if` are merged
            if any(self._is_skel_effect_stmt(n) for st in stmts[0].body + stmts[0].orelse for n in ast.walk(st)):
                env = dict(env)
                env["$effects"] = ("[]", "effects")
        return super().block(stmts, env, rest)

    def translate(self):
        # statements listed in effect_stmts count as effects for the `has_effects` decision
        text, info = super().translate()
        return text, info


def _translate(repo, spec):
    t = Skel(repo, spec, "Z")
    # the base class decides has_effects by looking for calls in self.effects; the non-exiting-if
    # merge logic of the base class looks for the same calls, so every `if` body that contains an
    # effect statement must also contain such a call or be handled in Skel.block (above).
    text, info = t.translate()
    if "expr_path" in spec:
        where = spec["qual"] + " @ " + spec["expr_path"]
    elif "body_path" in spec:
        where = spec["qual"] + " @ " + spec["body_path"]
    else:
        where = spec["qual"]
    return "(* %s :: %s  (lines %d-%d) *)\n%s\n" % (spec["file"], where, info["line"], info["end_line"], text), info


def generate(repo):
    texts, infos = [], []
    try:
        for spec in SPECS:
            text, info = _translate(repo, spec)
            texts.append(text)
            infos.append(info)
        body = py2coq.HEADERS["Z"] + "\n" + "\n".join(texts)
    except py2coq.Untranslatable as e:
        body = "(* UNTRANSLATABLE: %s *)\nDefinition untranslatable : True := 0.\n" % str(e).replace("*)", "* )")
        infos = [dict(name="UNTRANSLATABLE", error=str(e), file=SN, qual="StochasticNetwork")]
    return [("StochNet_Z.v", body, infos)]


if __name__ == "__main__":
    import os
    for fname, text, info in generate(os.environ.get("ACN_REPO", "/repo")):
        print(text)
