"""Extra generator for C01/C05: constants of the Event subclasses -> coq/Gen/SimParams.v.

For each of PluginEvent / UnplugEvent / RecomputeEvent the `__init__` body is searched for the
assignments `self.precedence = <int literal>` and `self.event_type = "<str literal>"`; the event
type is also emitted as its code under the enumeration used to translate `_process_event`
(tools/anchors.d/sim.py::EVENT_TYPES), -1 if the string is not one the simulator dispatches on.
Anything else (non-literal, float precedence, missing assignment) is refused (fail closed).
"""
import ast
import importlib.util
import os

import py2coq

EVT = "acnportal/acnsim/events/event.py"
CLASSES = ["PluginEvent", "UnplugEvent", "RecomputeEvent"]


def _event_types():
    p = os.path.join(os.path.dirname(os.path.abspath(__file__)), "anchors.d", "sim.py")
    spec = importlib.util.spec_from_file_location("anchors_d_sim_for_params", p)
    m = importlib.util.module_from_spec(spec)
    spec.loader.exec_module(m)
    return m.EVENT_TYPES


def init_constant(src, cls, attr):
    c = src.find(cls)
    init = None
    for s in c.body:
        if isinstance(s, ast.FunctionDef) and s.name == "__init__":
            init = s
    if init is None:
        raise py2coq.Untranslatable("%s: %s has no __init__" % (EVT, cls))
    found = []
    for n in ast.walk(init):
        if isinstance(n, ast.Assign) and len(n.targets) == 1 and ast.unparse(n.targets[0]) == "self." + attr:
            found.append(n)
    if len(found) != 1:
        raise py2coq.Untranslatable("%s: %s.__init__ assigns self.%s %d times" % (EVT, cls, attr, len(found)))
    if found[0] not in init.body:
        raise py2coq.Untranslatable("%s: %s.__init__ assigns self.%s conditionally" % (EVT, cls, attr))
    try:
        return ast.literal_eval(found[0].value), found[0].lineno
    except ValueError:
        raise py2coq.Untranslatable("%s: %s.%s is not a literal" % (EVT, cls, attr))


def generate(repo):
    enum = _event_types()
    lines = ["From Coq Require Import ZArith String.", "Open Scope string_scope.", "Open Scope Z_scope.", ""]
    info = []
    try:
        src = py2coq.Source(repo, EVT)
        for cls in CLASSES:
            prec, l1 = init_constant(src, cls, "precedence")
            if isinstance(prec, bool) or not isinstance(prec, int):
                raise py2coq.Untranslatable("%s: %s.precedence = %r is not an integer literal" % (EVT, cls, prec))
            ety, l2 = init_constant(src, cls, "event_type")
            if not isinstance(ety, str):
                raise py2coq.Untranslatable("%s: %s.event_type is not a string literal" % (EVT, cls))
            lines.append("(* %s :: %s.__init__ (lines %d, %d) *)" % (EVT, cls, l2, l1))
            lines.append("Definition %s_precedence : Z := %s." % (cls, "%d" % prec if prec >= 0 else "(%d)" % prec))
            lines.append('Definition %s_event_type : string := "%s".' % (cls, ety.replace('"', '""')))
            lines.append("Definition %s_event_type_code : Z := %s." % (cls, "%d" % enum[ety] if ety in enum else "(-1)"))
            lines.append("")
            info.append(dict(name=cls, file=EVT, qual=cls + ".__init__", line=min(l1, l2), end_line=max(l1, l2),
                             fingerprint=py2coq.fingerprint(src.find(cls)), precedence=prec, event_type=ety))
        text = "\n".join(lines)
    except py2coq.Untranslatable as e:
        text = "(* UNTRANSLATABLE: %s *)\nDefinition untranslatable : True := 0.\n" % str(e).replace("*)", "* )")
        info = [dict(name="SimParams", error=str(e))]
    return [("SimParams.v", text, info)]
