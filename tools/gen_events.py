"""Extra generator for C11: the precedence / event_type constants that the three event classes
assign in their constructors (`self.precedence = 10` ...) -> coq/Gen/EventParams.v.
Fail closed: anything but one integer-valued literal assignment per class yields a file that
does not compile."""
import ast
import fractions
import py2coq

EVPY = "acnportal/acnsim/events/event.py"
CLASSES = [("PluginEvent", "plugin"), ("UnplugEvent", "unplug"), ("RecomputeEvent", "recompute")]


def _init_constant(src, cls, attr):
    fn = src.find(cls + ".__init__")
    found = []
    for n in ast.walk(fn):
        if isinstance(n, (ast.Assign, ast.AugAssign, ast.AnnAssign)):
            tgts = n.targets if isinstance(n, ast.Assign) else [n.target]
            for t in tgts:
                if isinstance(t, ast.Attribute) and isinstance(t.value, ast.Name) and t.value.id == "self" \
                        and t.attr == attr:
                    found.append(n)
    if len(found) != 1 or not isinstance(found[0], ast.Assign) or len(found[0].targets) != 1:
        raise py2coq.Untranslatable("%s:%s.__init__ does not assign self.%s exactly once" % (EVPY, cls, attr))
    try:
        return ast.literal_eval(found[0].value), fn
    except ValueError:
        raise py2coq.Untranslatable("%s:%s.__init__: self.%s is not a literal" % (EVPY, cls, attr))


BASEPY = "acnportal/acnsim/base.py"


def _defines(src, cls, name):
    c = src.find(cls)
    return any(isinstance(n, ast.FunctionDef) and n.name == name for n in c.body) or \
        any(isinstance(n, ast.Assign) and any(isinstance(t, ast.Name) and t.id == name for t in n.targets) for n in c.body)


def _check_comparison_protocol(repo, src):
    """Model/Events.v's `item_lt` hand-models Python's tuple comparison of (timestamp, event) under two facts
    about the event classes: `==` on events is object identity (no class defines __eq__), and `<` on events is
    Event.__lt__ (no subclass overrides it).  Refuse to generate when either fact no longer holds."""
    base = py2coq.Source(repo, BASEPY)
    if _defines(base, "BaseSimObj", "__eq__") or _defines(base, "BaseSimObj", "__lt__"):
        raise py2coq.Untranslatable("%s: BaseSimObj defines a comparison method; the tuple-comparison model "
                                    "(identity ==, Event.__lt__) is no longer justified" % BASEPY)
    for cls in ["Event", "EVEvent", "PluginEvent", "UnplugEvent", "RecomputeEvent"]:
        if _defines(src, cls, "__eq__"):
            raise py2coq.Untranslatable("%s: %s defines __eq__; events are modelled as compared by identity" % (EVPY, cls))
        if cls != "Event" and _defines(src, cls, "__lt__"):
            raise py2coq.Untranslatable("%s: %s overrides __lt__; only Event.__lt__ is translated" % (EVPY, cls))


def generate(repo):
    try:
        src = py2coq.Source(repo, EVPY)
        _check_comparison_protocol(repo, src)
        lines = ["From Coq Require Import ZArith String.", "Open Scope string_scope.", "Open Scope Z_scope.", "",
                 "(* checked on this run: no event class defines __eq__ (events compare == by identity) and no subclass",
                 "   of Event overrides __lt__ — the two facts behind Model/Events.v item_lt *)", ""]
        info = []
        for cls, short in CLASSES:
            prec, fn = _init_constant(src, cls, "precedence")
            if isinstance(prec, bool) or not isinstance(prec, (int, float)):
                raise py2coq.Untranslatable("%s:%s precedence %r is not a number" % (EVPY, cls, prec))
            fr = fractions.Fraction(prec) if prec == prec and abs(prec) != float("inf") else None
            if fr is None or fr.denominator != 1:
                raise py2coq.Untranslatable("%s:%s precedence %r is not integer-valued" % (EVPY, cls, prec))
            ety, _ = _init_constant(src, cls, "event_type")
            if not isinstance(ety, str):
                raise py2coq.Untranslatable("%s:%s event_type %r is not a string" % (EVPY, cls, ety))
            n = fr.numerator
            lines.append("(* %s :: %s.__init__ (lines %d-%d) *)" % (EVPY, cls, fn.lineno, fn.end_lineno))
            lines.append("Definition prec_%s : Z := %s." % (short, "%d" % n if n >= 0 else "(%d)" % n))
            lines.append('Definition type_%s : string := "%s".' % (short, ety.replace('"', '""')))
            info.append(dict(name="prec_%s" % short, file=EVPY, qual=cls + ".__init__", line=fn.lineno,
                             end_line=fn.end_lineno, fingerprint=py2coq.fingerprint(fn), value=n))
        return [("EventParams.v", "\n".join(lines) + "\n", info)]
    except py2coq.Untranslatable as e:
        text = "(* UNTRANSLATABLE: %s *)\nDefinition untranslatable : True := 0.\n" % str(e).replace("*)", "* )")
        return [("EventParams.v", text, [dict(name="EventParams", file=EVPY, error=str(e))])]
