#!/usr/bin/env python3
"""Regenerate coq/Gen/*.v from /repo's current working tree.  Files are rewritten only when
their content changes, so `make` stays incremental.  Exits 2 with UNTRANSLATABLE on refusal."""
import json, os, sys
sys.path.insert(0, os.path.dirname(os.path.abspath(__file__)))
import py2coq
import anchors

ROOT = os.path.dirname(os.path.dirname(os.path.abspath(__file__)))
REPO = os.environ.get("ACN_REPO", "/repo")
GEN = os.path.join(ROOT, "coq", "Gen")


def write_if_changed(path, text):
    old = None
    if os.path.exists(path):
        with open(path) as f:
            old = f.read()
    if old != text:
        with open(path, "w") as f:
            f.write(text)
        return True
    return False


def main(only=None):
    os.makedirs(GEN, exist_ok=True)
    infos = {}
    changed = []
    errors = []
    for group, g in anchors.GROUPS.items():
        if only and group not in only:
            continue
        for dom in g["domains"]:
            fname = "%s_%s.v" % (group, dom)
            try:
                text, info = py2coq.translate_group(REPO, g["anchors"], dom)
            except py2coq.Untranslatable as e:
                errors.append("%s: %s" % (fname, e))
                # leave a file that cannot compile, so dependent proofs fail closed
                text = "(* UNTRANSLATABLE: %s *)\nDefinition untranslatable : True := 0.\n" % str(e).replace("*)", "* )")
                info = []
            text = "(* GENERATED from %s by tools/py2coq.py — do not edit *)\n" % REPO + text
            if write_if_changed(os.path.join(GEN, fname), text):
                changed.append(fname)
            infos["%s_%s" % (group, dom)] = info
    # extra generators (constants, data) are plugged in here
    for mod in getattr(anchors, "EXTRA_GENERATORS", []):
        m = __import__(mod)
        for fname, text, info in m.generate(REPO):
            text = "(* GENERATED from %s by tools/%s.py — do not edit *)\n" % (REPO, mod) + text
            if write_if_changed(os.path.join(GEN, fname), text):
                changed.append(fname)
            infos[fname[:-2]] = info
    write_if_changed(os.path.join(GEN, "anchors.json"), json.dumps(infos, indent=1, sort_keys=True))
    return changed, errors


if __name__ == "__main__":
    ch, errs = main(sys.argv[1:] or None)
    for c in ch:
        print("regenerated", c)
    for e in errs:
        print("UNTRANSLATABLE", e)
    sys.exit(2 if errs else 0)
