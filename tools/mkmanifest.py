#!/usr/bin/env python3
"""Rebuild MANIFEST.json from tools/manifest_src.py (one entry per property)."""
import json, os, sys
ROOT = os.path.dirname(os.path.dirname(os.path.abspath(__file__)))
sys.path.insert(0, os.path.join(ROOT, "tools"))
import manifest_src as M

props = [json.loads(l) for l in open(os.path.join(ROOT, "properties.jsonl"))]
ids = [p["id"] for p in props]
checks, na = [], []
for pid in ids:
    if pid in M.CHECKS:
        c = M.CHECKS[pid]
        checks.append(dict(
            property_id=pid,
            quick_cmd="./check %s --tier quick" % pid,
            thorough_cmd="./check %s --tier thorough" % pid,
            evidence_file="/verif/evidence/%s.json" % pid,
            replay_cmd_template="./check %s --replay {path}" % pid,
            engine="coq-model+correspondence",
            level_claimed=dict(category="proof", text=c["text"], design_ref=c.get("design_ref", "DESIGN.md section 7, %s" % pid)),
            level_note=c["note"],
            technique=c.get("technique", "Coq theorems about a regenerated/hand-written Gallina model + model-vs-code correspondence by vm_compute"),
        ))
    else:
        na.append(dict(property_id=pid, reason=M.NOT_APPLICABLE.get(pid, "check not built yet in this session; see DESIGN.md section 7 for the planned theorems")))
man = dict(
    version=1,
    setup_cmd="./setup.sh",
    hooks=dict(guard="ACNPORTAL_VERIF", enable="no hooks are needed: checks import /repo directly (PYTHONPATH=/repo) and observe through public override points",
               baseline_off_cmd="cd /repo && /venv/bin/python -m pytest -ra -q -p no:cacheprovider --timeout=900 --continue-on-collection-errors",
               source_commits=[], add_only=True),
    engines=[dict(name="coq-model+correspondence", path="/verif/check", serves_properties=[c["property_id"] for c in checks],
                  kind_free_text="Coq 8.16.1 proofs over Gallina models regenerated from /repo by tools/py2coq.py (or hand-written), tied to the code by a differential correspondence check evaluated with vm_compute")],
    checks=checks,
    notes=M.NOTES,
    not_applicable=na,
)
json.dump(man, open(os.path.join(ROOT, "MANIFEST.json"), "w"), indent=1)
print("checks:", [c["property_id"] for c in checks])
