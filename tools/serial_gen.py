#!/usr/bin/env python3
"""C09 data generator (EXTRA_GENERATORS): reads the serialisation code of acnportal.acnsim with `ast`
and writes coq/Gen/Serial.v:

  * per class C (Simulator, EventQueue, events, ChargingNetwork, EVSEs, EV, batteries)
      state_C    : every instance attribute assigned anywhere in C or its bases (`self.X = ...`)
      dumped_C   : [(key, [self attributes the dumped value is computed from])] of C._to_dict
      restored_C : [(attribute, [attribute_dict keys its loaded value is computed from])] of C._from_dict
                   (constructor arguments are followed through __init__ / super().__init__)
  * run_reads            : Simulator attributes read by run() and the Simulator methods it calls
  * process_event_branches : Simulator._process_event as data: event_type string -> list of effects
  * event_type_precedence  : event_type string -> precedence, from the event constructors
  * the refs each class serialises through `_to_registry` (ref_keys_C)

Everything is a syntactic dataflow over the function bodies (sequential, branches merged,
constant attribute-name lists unrolled).  Constructs it does not understand raise Untranslatable
(fail closed).  No acnportal code is imported or executed."""
import ast
import os

from py2coq import Untranslatable, fingerprint

FILES = {
    "base": "acnportal/acnsim/base.py",
    "simulator": "acnportal/acnsim/simulator.py",
    "event_queue": "acnportal/acnsim/events/event_queue.py",
    "event": "acnportal/acnsim/events/event.py",
    "network": "acnportal/acnsim/network/charging_network.py",
    "evse": "acnportal/acnsim/models/evse.py",
    "ev": "acnportal/acnsim/models/ev.py",
    "battery": "acnportal/acnsim/models/battery.py",
    # a subclass WITHOUT its own _to_dict/_from_dict (inherits ChargingNetwork's): reported separately
    "stochastic": "acnportal/contrib/acnsim/network/stochastic_network.py",
}
SUBCLASSES_WITHOUT_SERIALISER = ["StochasticNetwork"]
CLASSES = ["Simulator", "EventQueue", "Event", "EVEvent", "PluginEvent", "UnplugEvent", "RecomputeEvent",
           "ChargingNetwork", "BaseEVSE", "EVSE", "DeadbandEVSE", "FiniteRatesEVSE", "EV", "Battery",
           "Linear2StageBattery"]
IGNORED_LOCALS = {"context_dict", "loaded_dict", "cls", "self"}
INF_PRECEDENCE = 1000000   # float("inf") of the base Event, as an integer larger than every real precedence


class Table:
    def __init__(self, repo):
        self.classes = {}
        for key, rel in FILES.items():
            with open(os.path.join(repo, rel)) as f:
                tree = ast.parse(f.read())
            for n in tree.body:
                if isinstance(n, ast.ClassDef):
                    bases = [b.id for b in n.bases if isinstance(b, ast.Name)]
                    self.classes[n.name] = dict(node=n, bases=bases, file=rel)

    def mro(self, c):
        out = []
        while c in self.classes:
            out.append(c)
            bs = [b for b in self.classes[c]["bases"] if b in self.classes]
            c = bs[0] if bs else None
        return out

    def method(self, c, name, start=0):
        """(defining class, FunctionDef) of the first class in mro(c)[start:] defining `name`"""
        for k in self.mro(c)[start:]:
            for n in self.classes[k]["node"].body:
                if isinstance(n, ast.FunctionDef) and n.name == name:
                    return k, n
        return None, None

    def members(self, c):
        """name -> ('method'|'property', FunctionDef) over the mro (nearest wins)"""
        out = {}
        for k in reversed(self.mro(c)):
            for n in self.classes[k]["node"].body:
                if isinstance(n, ast.FunctionDef):
                    is_prop = any((isinstance(d, ast.Name) and d.id == "property") for d in n.decorator_list)
                    is_setter = any(isinstance(d, ast.Attribute) and d.attr == "setter" for d in n.decorator_list)
                    if is_setter:
                        continue
                    out[n.name] = ("property" if is_prop else "method", n)
        return out

    def state_attrs(self, c):
        out = []
        for k in reversed(self.mro(c)):
            for n in ast.walk(self.classes[k]["node"]):
                if isinstance(n, ast.Attribute) and isinstance(n.ctx, ast.Store) and \
                        isinstance(n.value, ast.Name) and n.value.id == "self" and n.attr not in out:
                    out.append(n.attr)
        return out


def self_reads(tab, c, node, seen=None):
    """self attributes read in `node`; properties are replaced by what their body reads; methods ignored"""
    mem = tab.members(c)
    out = []
    seen = seen if seen is not None else set()
    for n in ast.walk(node):
        if isinstance(n, ast.Attribute) and isinstance(n.value, ast.Name) and n.value.id == "self" \
                and isinstance(n.ctx, ast.Load):
            if n.attr in mem:
                kind, fn = mem[n.attr]
                if kind == "property" and n.attr not in seen:
                    seen.add(n.attr)
                    for a in self_reads(tab, c, fn, seen):
                        if a not in out:
                            out.append(a)
            elif n.attr not in out:
                out.append(n.attr)
        # getattr(self, "<const>")
        if isinstance(n, ast.Call) and isinstance(n.func, ast.Name) and n.func.id == "getattr" and len(n.args) == 2 \
                and isinstance(n.args[0], ast.Name) and n.args[0].id == "self" and isinstance(n.args[1], ast.Constant):
            if n.args[1].value not in out:
                out.append(n.args[1].value)
    return out


def key_reads(node):
    """attribute_dict["K"] keys read in node"""
    out = []
    for n in ast.walk(node):
        if isinstance(n, ast.Subscript) and isinstance(n.value, ast.Name) and n.value.id == "attribute_dict" \
                and isinstance(n.slice, ast.Constant) and isinstance(n.slice.value, str):
            if n.slice.value not in out:
                out.append(n.slice.value)
    return out


class Subst(ast.NodeTransformer):
    """replace a loop variable by a string constant"""
    def __init__(self, name, value):
        self.name, self.value = name, value

    def visit_Name(self, n):
        if n.id == self.name and isinstance(n.ctx, ast.Load):
            return ast.copy_location(ast.Constant(self.value), n)
        return n


class Flow:
    """Sequential dependency tracker.  `direct(expr)` gives the sources an expression mentions;
    locals carry the union of the sources they were computed from."""

    def __init__(self, tab, cls, mode, where):
        self.tab, self.cls, self.mode, self.where = tab, cls, mode, where
        self.const_lists = {}
        self.out = {}          # recorded name -> list of sources (insertion ordered)
        self.ctor_args = None  # param -> sources  (mode "key")
        self.super_dump = False
        self.refs = []         # self attributes whose objects are dumped through a nested _to_registry, in call order

    def direct(self, node, env):
        if self.mode == "self":
            src = list(self_reads(self.tab, self.cls, node))
        elif self.mode == "key":
            src = list(key_reads(node))
        else:  # "param": names of constructor parameters
            src = []
        for n in ast.walk(node):
            if isinstance(n, ast.Name) and isinstance(n.ctx, ast.Load) and n.id in env:
                for s in env[n.id]:
                    if s not in src:
                        src.append(s)
        return src

    def record(self, name, src):
        cur = self.out.setdefault(name, [])
        for s in src:
            if s not in cur:
                cur.append(s)

    def bind(self, tgt, src, env, strong=True):
        if isinstance(tgt, ast.Name):
            if tgt.id in IGNORED_LOCALS:
                return
            if strong:
                env[tgt.id] = list(src)
            else:
                env[tgt.id] = list(dict.fromkeys(env.get(tgt.id, []) + list(src)))
        elif isinstance(tgt, (ast.Tuple, ast.List)):
            for t in tgt.elts:
                self.bind(t, src, env, strong)
        elif isinstance(tgt, ast.Subscript):
            base = tgt.value
            if isinstance(base, ast.Name) and base.id == "attribute_dict" and self.mode == "self":
                if not (isinstance(tgt.slice, ast.Constant) and isinstance(tgt.slice.value, str)):
                    raise Untranslatable("%s:%d: attribute_dict key is not a constant" % (self.where, tgt.lineno))
                self.record(tgt.slice.value, src)
            elif isinstance(base, ast.Name):
                self.bind(base, src + self.direct(tgt.slice, env), env, strong=False)
            else:
                raise Untranslatable("%s:%d: assignment target %s" % (self.where, tgt.lineno, ast.unparse(tgt)))
        elif isinstance(tgt, ast.Attribute):
            if isinstance(tgt.value, ast.Name) and tgt.value.id == "out_obj" and self.mode == "key":
                self.record(tgt.attr, src)
            elif isinstance(tgt.value, ast.Name) and tgt.value.id == "self" and self.mode == "param":
                self.record(tgt.attr, src)
            elif isinstance(tgt.value, ast.Name) and tgt.value.id == "self":
                pass
            else:
                raise Untranslatable("%s:%d: assignment target %s" % (self.where, tgt.lineno, ast.unparse(tgt)))
        else:
            raise Untranslatable("%s:%d: assignment target %s" % (self.where, tgt.lineno, ast.unparse(tgt)))

    def merge(self, envs):
        out = {}
        for e in envs:
            for k, v in e.items():
                out[k] = list(dict.fromkeys(out.get(k, []) + v))
        return out

    def call_stmt(self, call, env, ctrl):
        f = call.func
        # L.append(v)
        if isinstance(f, ast.Attribute) and f.attr in ("append", "add", "extend", "update") and isinstance(f.value, ast.Name):
            src = ctrl[:]
            for a in call.args:
                src += self.direct(a, env)
            self.bind(f.value, src, env, strong=False)
            return
        # setattr(out_obj, "<const>", v)
        if isinstance(f, ast.Name) and f.id == "setattr" and self.mode == "key" and len(call.args) == 3 \
                and isinstance(call.args[0], ast.Name) and call.args[0].id == "out_obj":
            if not isinstance(call.args[1], ast.Constant):
                raise Untranslatable("%s:%d: setattr with a non-constant name" % (self.where, call.lineno))
            self.record(call.args[1].value, ctrl + self.direct(call.args[2], env))
            return
        # cls._from_dict_helper(out_obj, attribute_dict, ...)
        if isinstance(f, ast.Attribute) and f.attr == "_from_dict_helper" and self.mode == "key":
            _, fn = self.tab.method(self.cls, "_from_dict_helper")
            if fn is None:
                raise Untranslatable("%s: no _from_dict_helper" % self.where)
            self.block(fn.body, env, ctrl)
            return
        if isinstance(f, ast.Attribute) and f.attr == "__init__" and self.mode == "param":
            self.super_init(call, env, ctrl)
            return
        if self.mode == "key" and isinstance(f, ast.Name) and f.id == "cls":
            self.ctor(call, env, ctrl)
            return
        # other expression statements have no effect on the tracked data (warnings.warn, delattr, ...)

    def ctor(self, call, env, ctrl):
        _, init = self.tab.method(self.cls, "__init__")
        params = [a.arg for a in init.args.args][1:]
        args = {}
        for i, a in enumerate(call.args):
            if i >= len(params):
                raise Untranslatable("%s:%d: too many constructor arguments" % (self.where, call.lineno))
            args[params[i]] = ctrl + self.direct(a, env)
        for kw in call.keywords:
            if kw.arg is None:
                raise Untranslatable("%s:%d: **kwargs in constructor call" % (self.where, call.lineno))
            args[kw.arg] = ctrl + self.direct(kw.value, env)
        init_map = init_attr_params(self.tab, self.cls)
        for attr, ps in init_map.items():
            src = []
            for p in ps:
                src += args.get(p, [])
            self.record(attr, src)

    def super_init(self, call, env, ctrl):
        # super().__init__(args): attributes set by the base constructor depend on our params
        idx = self.tab.mro(self.cls).index(self.init_owner)
        owner, init = self.tab.method(self.cls, "__init__", start=idx + 1)
        if init is None:
            return
        params = [a.arg for a in init.args.args][1:]
        args = {}
        for i, a in enumerate(call.args):
            args[params[i]] = ctrl + self.direct(a, env)
        for kw in call.keywords:
            args[kw.arg] = ctrl + self.direct(kw.value, env)
        sub = Flow(self.tab, self.cls, "param", self.where)
        sub.init_owner = owner
        env2 = {p: [p] for p in params}
        sub.block(init.body, env2, [])
        for attr, ps in sub.out.items():
            src = []
            for p in ps:
                src += args.get(p, [])
            self.record(attr, src)

    def stmt(self, s, env, ctrl):
        if isinstance(s, (ast.Assign, ast.AnnAssign)):
            targets = s.targets if isinstance(s, ast.Assign) else [s.target]
            val = s.value
            if val is None:
                return
            # nn_attr_lst = ["a", "b", ...]
            if len(targets) == 1 and isinstance(targets[0], ast.Name) and isinstance(val, ast.List) and val.elts \
                    and all(isinstance(e, ast.Constant) and isinstance(e.value, str) for e in val.elts):
                self.const_lists[targets[0].id] = [e.value for e in val.elts]
            # attribute_dict, context_dict = super()._to_dict(context_dict)
            if isinstance(val, ast.Call) and isinstance(val.func, ast.Attribute) and val.func.attr == "_to_dict" \
                    and isinstance(val.func.value, ast.Call) and ast.unparse(val.func.value.func) == "super":
                self.super_dump = True
                return
            # attribute_dict = {"k": v, ...}
            if len(targets) == 1 and isinstance(targets[0], ast.Name) and targets[0].id == "attribute_dict" \
                    and self.mode == "self":
                if not isinstance(val, ast.Dict):
                    raise Untranslatable("%s:%d: attribute_dict is not built from a dict literal" % (self.where, s.lineno))
                for k, v in zip(val.keys, val.values):
                    if not (isinstance(k, ast.Constant) and isinstance(k.value, str)):
                        raise Untranslatable("%s:%d: attribute_dict key is not a constant" % (self.where, s.lineno))
                    self.record(k.value, ctrl + self.direct(v, env))
                return
            if self.mode == "key" and isinstance(val, ast.Call) and isinstance(val.func, ast.Name) and val.func.id == "cls":
                self.ctor(val, env, ctrl)
                return
            if self.mode == "key" and isinstance(val, ast.Call) and isinstance(val.func, ast.Attribute) \
                    and val.func.attr == "_from_dict_helper":
                self.call_stmt(val, env, ctrl)
                return
            if self.mode == "self" and isinstance(val, ast.Call) and isinstance(val.func, ast.Attribute) \
                    and val.func.attr == "_to_registry":
                for a in self.direct(val.func.value, env):
                    if a not in self.refs:
                        self.refs.append(a)
            for t in targets:
                if isinstance(t, (ast.Tuple, ast.List)) and isinstance(val, (ast.Tuple, ast.List)) and len(t.elts) == len(val.elts):
                    for tt, vv in zip(t.elts, val.elts):
                        self.bind(tt, ctrl + self.direct(vv, env), env)
                else:
                    self.bind(t, ctrl + self.direct(val, env), env)
            return
        if isinstance(s, ast.AugAssign):
            self.bind(s.target, ctrl + self.direct(s.value, env), env, strong=False)
            return
        if isinstance(s, ast.Expr):
            if isinstance(s.value, ast.Call):
                self.call_stmt(s.value, env, ctrl)
            return
        if isinstance(s, ast.For):
            it = s.iter
            consts = None
            if isinstance(it, ast.Name) and it.id in self.const_lists:
                consts = self.const_lists[it.id]
            elif isinstance(it, ast.List) and it.elts and all(isinstance(e, ast.Constant) and isinstance(e.value, str) for e in it.elts):
                consts = [e.value for e in it.elts]
            if consts is not None and isinstance(s.target, ast.Name):
                for c in consts:
                    body = [ast.fix_missing_locations(Subst(s.target.id, c).visit(ast.parse(ast.unparse(b)).body[0])) for b in s.body]
                    self.block(body, env, ctrl)
                return
            src = ctrl + self.direct(it, env)
            self.bind(s.target, src, env)
            for _ in range(2):            # loop-carried dependencies
                self.block(s.body, env, src)
            return
        if isinstance(s, ast.If):
            c = ctrl + self.direct(s.test, env)
            e1, e2 = dict(env), dict(env)
            self.block(s.body, e1, c)
            self.block(s.orelse, e2, c)
            m = self.merge([e1, e2])
            env.clear()
            env.update(m)
            return
        if isinstance(s, ast.Try):
            envs = []
            e0 = dict(env)
            self.block(s.body, e0, ctrl)
            e_else = dict(e0)
            self.block(s.orelse, e_else, ctrl)
            envs.append(e_else)
            for h in s.handlers:
                eh = self.merge([env, e0])
                self.block(h.body, eh, ctrl)
                envs.append(eh)
            m = self.merge(envs)
            self.block(s.finalbody, m, ctrl)
            env.clear()
            env.update(m)
            return
        if isinstance(s, ast.Return):
            # `return cls._from_dict_helper(out_obj, attribute_dict, ...)`
            if isinstance(s.value, ast.Call):
                self.call_stmt(s.value, env, ctrl)
            return
        if isinstance(s, (ast.Pass, ast.Raise)):
            return
        raise Untranslatable("%s:%d: statement %s" % (self.where, s.lineno, type(s).__name__))

    def block(self, stmts, env, ctrl):
        for s in stmts:
            self.stmt(s, env, ctrl)


def init_attr_params(tab, cls):
    """attribute -> constructor parameters its initial value depends on (through super().__init__)"""
    owner, init = tab.method(cls, "__init__")
    if init is None:
        return {}
    fl = Flow(tab, cls, "param", "%s.__init__" % owner)
    fl.init_owner = owner
    params = [a.arg for a in init.args.args][1:]
    env = {p: [p] for p in params}
    fl.block(init.body, env, [])
    return fl.out


def dumped(tab, cls, start=0):
    owner, fn = tab.method(cls, "_to_dict", start=start)
    if fn is None or owner == "BaseSimObj":
        raise Untranslatable("%s has no _to_dict" % cls)
    fl = Flow(tab, cls, "self", "%s._to_dict" % owner)
    fl.block(fn.body, {}, [])
    out, refs = {}, []
    if fl.super_dump:
        idx = tab.mro(cls).index(owner)
        o2, _, r2 = dumped(tab, cls, start=idx + 1)
        out.update(o2)
        refs += r2
    for k, v in fl.out.items():
        out[k] = list(dict.fromkeys(out.get(k, []) + v))
    refs += [r for r in fl.refs if r not in refs]
    return out, (owner, fn), refs


def restored(tab, cls):
    owner, fn = tab.method(cls, "_from_dict")
    if fn is None or owner == "BaseSimObj":
        raise Untranslatable("%s has no _from_dict" % cls)
    fl = Flow(tab, cls, "key", "%s._from_dict" % owner)
    fl.block(fn.body, {}, [])
    return fl.out, (owner, fn)


# ---------------------------------------------------------------------------------------------
# Simulator.run reads, _process_event branches, event precedences
# ---------------------------------------------------------------------------------------------
def run_reads(tab):
    mem = tab.members("Simulator")
    seen, out = set(), []

    def visit(fn):
        for n in ast.walk(fn):
            if isinstance(n, ast.Attribute) and isinstance(n.value, ast.Name) and n.value.id == "self" \
                    and isinstance(n.ctx, ast.Load):
                if n.attr in mem:
                    if n.attr not in seen:
                        seen.add(n.attr)
                        visit(mem[n.attr][1])
                elif n.attr not in out:
                    out.append(n.attr)
    seen.add("run")
    visit(mem["run"][1])
    return out, sorted(seen)


EFFECT_PATTERNS = [
    ("self.network.plugin(event.ev)", "PE_plugin"),
    ("self.network.unplug(event.ev.station_id, event.ev.session_id)", "PE_unplug"),
    ("self.ev_history[event.ev.session_id] = event.ev", "PE_record_ev"),
    ("self.event_queue.add_event(UnplugEvent(event.ev.departure, event.ev))", "PE_push_unplug"),
    ("self._resolve = True", "PE_set_resolve true"),
    ("self._resolve = False", "PE_set_resolve false"),
    ("self._last_schedule_update = event.timestamp", "PE_set_last_update_ts"),
]


def process_event_branches(tab):
    _, fn = tab.method("Simulator", "_process_event")
    body = [s for s in fn.body if not (isinstance(s, ast.Expr) and isinstance(s.value, ast.Constant))]
    if len(body) != 1 or not isinstance(body[0], ast.If):
        raise Untranslatable("Simulator._process_event is not a single if/elif chain")
    branches = []
    node = body[0]
    while True:
        t = node.test
        if not (isinstance(t, ast.Compare) and len(t.ops) == 1 and isinstance(t.ops[0], ast.Eq)
                and ast.unparse(t.left) == "event.event_type" and isinstance(t.comparators[0], ast.Constant)
                and isinstance(t.comparators[0].value, str)):
            raise Untranslatable("Simulator._process_event:%d: test %s" % (node.lineno, ast.unparse(t)))
        effs = []
        for s in node.body:
            txt = ast.unparse(s)
            if txt.startswith("self._print(") or isinstance(s, ast.Pass):
                continue
            for pat, eff in EFFECT_PATTERNS:
                if txt == pat:
                    effs.append(eff)
                    break
            else:
                raise Untranslatable("Simulator._process_event:%d: statement %s" % (s.lineno, txt))
        branches.append((t.comparators[0].value, effs))
        if len(node.orelse) == 1 and isinstance(node.orelse[0], ast.If):
            node = node.orelse[0]
        elif not node.orelse:
            break
        else:
            raise Untranslatable("Simulator._process_event: final else branch")
    return branches, fn


CONTROL_ATTRS = ("_iteration", "_resolve", "_last_schedule_update", "event_queue", "event_history", "scheduler")


def opaque_ok(stmt):
    """an opaque statement of the loop body must not touch what the loop model tracks explicitly"""
    for n in ast.walk(stmt):
        if isinstance(n, ast.Attribute) and isinstance(n.value, ast.Name) and n.value.id == "self":
            if isinstance(n.ctx, ast.Store) and n.attr in CONTROL_ATTRS:
                return False
        if isinstance(n, ast.Call):
            f = ast.unparse(n.func)
            if f.startswith("self.event_queue.") and f.split(".")[-1] not in ("empty", "get_last_timestamp"):
                return False
            if f.startswith("self.scheduler.") or f in ("self._process_event", "self.event_history.append"):
                return False
        if isinstance(n, (ast.Return, ast.Raise, ast.Break, ast.Continue)):
            return False
    return True


def run_loop_program(tab):
    """the body of the `while` of Simulator.run as a flat program: (guarded by the recompute test?, statement)"""
    _, fn = tab.method("Simulator", "run")
    loops = [s for s in fn.body if isinstance(s, ast.While)]
    if len(loops) != 1 or loops[0].orelse:
        raise Untranslatable("Simulator.run: expected exactly one while loop")
    prog = []
    seen_if = False

    def classify(st, guarded):
        txt = ast.unparse(st)
        if txt == "current_events = self.event_queue.get_current_events(self._iteration)":
            return "RS_pop"
        if txt == "for e in current_events:\n    self.event_history.append(e)\n    self._process_event(e)":
            return "RS_process"
        if txt == "new_schedule = self.scheduler.run()":
            return "RS_call"
        if txt == "self._last_schedule_update = self._iteration":
            return "RS_set_last_iter"
        if txt in ("self._resolve = False", "self._resolve = True"):
            return "RS_set_resolve %s" % ("false" if txt.endswith("False") else "true")
        if txt == "self._iteration = self._iteration + 1":
            return "RS_inc_iter"
        if not opaque_ok(st):
            raise Untranslatable("Simulator.run:%d: statement %s" % (st.lineno, txt.split("\n")[0]))
        return "RS_rest %s" % cstr(txt)
    for st in loops[0].body:
        if isinstance(st, ast.If) and any(isinstance(n, ast.Call) and ast.unparse(n.func) == "self.scheduler.run"
                                          for n in ast.walk(st)):
            if seen_if or st.orelse:
                raise Untranslatable("Simulator.run:%d: second scheduler call / else branch" % st.lineno)
            seen_if = True
            prog.append("(false, RS_test_due)")
            for b in st.body:
                prog.append("(true, %s)" % classify(b, True))
        else:
            prog.append("(false, %s)" % classify(st, False))
    if not seen_if:
        raise Untranslatable("Simulator.run: no `if ...: self.scheduler.run()` in the loop")
    return prog, loops[0]


def event_constants(tab):
    """event_type string and precedence set by each event class constructor (nearest assignment wins)"""
    out = []
    for c in ["Event", "EVEvent", "PluginEvent", "UnplugEvent", "RecomputeEvent"]:
        vals = {}
        for k in reversed(tab.mro(c)):
            for n in tab.classes[k]["node"].body:
                if isinstance(n, ast.FunctionDef) and n.name == "__init__":
                    for s in n.body:
                        if isinstance(s, ast.Assign) and len(s.targets) == 1 and isinstance(s.targets[0], ast.Attribute) \
                                and ast.unparse(s.targets[0]) in ("self.event_type", "self.precedence"):
                            vals[s.targets[0].attr] = s.value
        et, pr = vals.get("event_type"), vals.get("precedence")
        if not (isinstance(et, ast.Constant) and isinstance(et.value, str)):
            raise Untranslatable("%s: event_type is not a string constant" % c)
        if isinstance(pr, ast.Constant) and isinstance(pr.value, int) and not isinstance(pr.value, bool):
            p = pr.value
        elif ast.unparse(pr) in ("float('inf')", 'float("inf")'):
            p = INF_PRECEDENCE
        else:
            raise Untranslatable("%s: precedence %s is not an integer constant" % (c, ast.unparse(pr)))
        if abs(p) >= INF_PRECEDENCE and ast.unparse(pr) not in ("float('inf')", 'float("inf")'):
            raise Untranslatable("%s: precedence too large for the integer encoding" % c)
        out.append((c, et.value, p))
    return out


# ---------------------------------------------------------------------------------------------
def cstr(s):
    return '"%s"' % s.replace('"', '""')


def clist(xs):
    return "[" + "; ".join(xs) + "]"


def generate(repo):
    """fail closed: on a construct the extractor does not understand, Gen/Serial.v is replaced by a
    file that cannot compile, so every dependent proof is reported as a broken obligation"""
    try:
        return _generate(repo)
    except Untranslatable as e:
        msg = str(e).replace("*)", "* )")
        return [("Serial.v", "(* UNTRANSLATABLE: %s *)\nDefinition untranslatable : True := 0.\n" % msg,
                 [dict(name="UNTRANSLATABLE", file=FILES["simulator"], qual=msg)])]


def _generate(repo):
    tab = Table(repo)
    lines = ["From Coq Require Import ZArith List String.", "From ACN Require Import Base.ResumeBase.",
             "Import ListNotations.", "Open Scope string_scope.", ""]
    info = []
    table = []
    for c in CLASSES:
        if c not in tab.classes:
            raise Untranslatable("class %s not found" % c)
        st = tab.state_attrs(c)
        du, (downer, dfn), rk = dumped(tab, c)
        re_, (rowner, rfn) = restored(tab, c)
        lines.append("(* %s  (%s; _to_dict of %s, _from_dict of %s) *)" % (c, tab.classes[c]["file"], downer, rowner))
        lines.append("Definition state_%s : list string := %s." % (c, clist(cstr(a) for a in st)))
        lines.append("Definition dumped_%s : list (string * list string) := %s." % (
            c, clist("(%s, %s)" % (cstr(k), clist(cstr(x) for x in v)) for k, v in du.items())))
        lines.append("Definition restored_%s : list (string * list string) := %s." % (
            c, clist("(%s, %s)" % (cstr(k), clist(cstr(x) for x in v)) for k, v in re_.items())))
        lines.append("Definition ref_keys_%s : list string := %s." % (c, clist(cstr(a) for a in rk)))
        lines.append("")
        table.append("(%s, (state_%s, dumped_%s, restored_%s))" % (cstr(c), c, c, c))
        info.append(dict(name="serial_" + c, file=tab.classes[c]["file"], qual=c + "._to_dict/_from_dict",
                         line=dfn.lineno, end_line=rfn.end_lineno,
                         fingerprint=fingerprint(dfn) + fingerprint(rfn)))
    for c in SUBCLASSES_WITHOUT_SERIALISER:
        if c not in tab.classes:
            raise Untranslatable("class %s not found" % c)
        st = tab.state_attrs(c)
        du, (downer, dfn), rk = dumped(tab, c)
        re_, (rowner, rfn) = restored(tab, c)
        lines.append("(* %s  (%s): no _to_dict/_from_dict of its own; it uses %s._to_dict and %s._from_dict. *)" % (
            c, tab.classes[c]["file"], downer, rowner))
        lines.append("Definition state_%s : list string := %s." % (c, clist(cstr(a) for a in st)))
        lines.append("Definition dumped_%s : list (string * list string) := %s." % (
            c, clist("(%s, %s)" % (cstr(k), clist(cstr(x) for x in v)) for k, v in du.items())))
        lines.append("Definition restored_%s : list (string * list string) := %s." % (
            c, clist("(%s, %s)" % (cstr(k), clist(cstr(x) for x in v)) for k, v in re_.items())))
        lines.append("")
        info.append(dict(name="serial_" + c, file=tab.classes[c]["file"], qual=c,
                         line=tab.classes[c]["node"].lineno, end_line=tab.classes[c]["node"].end_lineno,
                         fingerprint=fingerprint(tab.classes[c]["node"])))
    lines.append("Definition serial_classes : list (string * (list string * list (string * list string) * list (string * list string))) :=\n  %s." % clist(table))
    lines.append("")
    rr, methods = run_reads(tab)
    lines.append("(* Simulator attributes read by run() and the Simulator methods/properties it uses: %s *)" % ", ".join(methods))
    lines.append("Definition run_reads : list string := %s." % clist(cstr(a) for a in rr))
    lines.append("")
    br, pfn = process_event_branches(tab)
    lines.append("(* Simulator._process_event as data *)")
    lines.append("Definition process_event_branches : list (string * list pe_effect) :=\n  %s." % clist(
        "(%s, %s)" % (cstr(t), clist(effs)) for t, effs in br))
    info.append(dict(name="process_event_branches", file=FILES["simulator"], qual="Simulator._process_event",
                     line=pfn.lineno, end_line=pfn.end_lineno, fingerprint=fingerprint(pfn)))
    lines.append("")
    prog, loop = run_loop_program(tab)
    lines.append("(* the body of the while loop of Simulator.run, statement by statement; true = inside the")
    lines.append("   `if <recompute condition>:` block (the condition itself is Gen/ResumeZ_Z.Run_recompute) *)")
    lines.append("Definition run_loop_prog : list (bool * run_stmt) :=\n  %s." % clist(prog).replace("; (", ";\n   ("))
    info.append(dict(name="run_loop_prog", file=FILES["simulator"], qual="Simulator.run",
                     line=loop.lineno, end_line=loop.end_lineno, fingerprint=fingerprint(loop)))
    lines.append("")
    ec = event_constants(tab)
    lines.append("(* event constructors: class, event_type, precedence (float('inf') is written %d) *)" % INF_PRECEDENCE)
    lines.append("Definition event_classes : list (string * (string * Z)) := %s." % clist(
        "(%s, (%s, (%d)%%Z))" % (cstr(c), cstr(t), p) for c, t, p in ec))
    lines.append("Definition inf_precedence : Z := (%d)%%Z." % INF_PRECEDENCE)
    lines.append("")
    return [("Serial.v", "\n".join(lines) + "\n", info)]


if __name__ == "__main__":
    import sys
    for fname, text, _ in generate(sys.argv[1] if len(sys.argv) > 1 else os.environ.get("ACN_REPO", "/repo")):
        print(text)
