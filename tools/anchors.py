"""Whitelist of code anchors that are translated into coq/Gen/*.v on every run.

Anchor groups live in tools/anchors.d/*.py; each file defines GROUPS = {group: dict(domains=[...],
anchors=[spec, ...])} and optionally EXTRA_GENERATORS = ["module_name", ...] (modules in tools/
exposing generate(repo) -> [(filename, coq_text, info_dict)]).  Each group becomes one Coq file
per carrier: coq/Gen/<group>_<carrier>.v.
"""
import glob, os, importlib.util

GROUPS = {}
EXTRA_GENERATORS = []
for _p in sorted(glob.glob(os.path.join(os.path.dirname(os.path.abspath(__file__)), "anchors.d", "*.py"))):
    _spec = importlib.util.spec_from_file_location("anchors_d_" + os.path.basename(_p)[:-3], _p)
    _m = importlib.util.module_from_spec(_spec)
    _spec.loader.exec_module(_m)
    for _k, _v in getattr(_m, "GROUPS", {}).items():
        if _k in GROUPS:
            raise RuntimeError("duplicate anchor group %s" % _k)
        GROUPS[_k] = _v
    EXTRA_GENERATORS += getattr(_m, "EXTRA_GENERATORS", [])
