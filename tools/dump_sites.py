"""Extra generator for C16: EXECUTE the three predefined site factories of $ACN_REPO
(caltech_acn, jpl_acn, office001_acn; basic_evse False/True; several transformer capacities)
and dump what they built — station phase angles, voltages, constraint matrix, limits — to
coq/Gen/Sites.v (translation by evaluation, regenerated on every run).

Besides the raw dump, each record carries the *interpretation* of the constraint rows that the
property talks about, derived here from the constraint names and from ground truth written down
from the site documentation (which stations hang behind which transformer, which capacity
parameter rates which transformer).  Model/Sites.v::check_site then verifies that the dumped
numbers really have that structure; nothing here is trusted beyond the row classification.
"""
import fractions
import math
import os
import re
import sys
import warnings


def q(x):
    fr = fractions.Fraction(float(x))
    n, d = fr.numerator, fr.denominator
    return "(%s # %d)" % (n if n >= 0 else "(%d)" % n, d)


def lst(items):
    return "[" + "; ".join(items) + "]"


# capacity parameters used for the dumps: (label, kwargs)
CONFIGS = {
    "caltech": [dict(transformer_cap=150), dict(transformer_cap=75), dict(transformer_cap=40.3)],
    "jpl": [dict(first_transformer_cap=45, third_fourth_transformer_cap=150),
            dict(first_transformer_cap=30, third_fourth_transformer_cap=112.5),
            dict(first_transformer_cap=75.3, third_fourth_transformer_cap=200)],
    "office001": [dict(transformer_cap=50), dict(transformer_cap=25), dict(transformer_cap=100.1)],
}
KIND = {"caltech": 0, "jpl": 1, "office001": 2}
# the factories' `voltage` argument (voltage at the EVSEs) must not influence the transformer limits,
# which are rated at the nominal 120 V line-to-neutral
VOLTAGES = [200, 120, 240]
# public names exported by acnportal.acnsim.network.sites: factory of each site and its aliases
FACTORY = {"caltech": "caltech_acn", "jpl": "jpl_acn", "office001": "office001_acn"}
ALIASES = {"caltech": ["CaltechACN"]}
NOT_A_PREDEFINED_SITE = ["simple_acn"]      # generic single-phase builder, outside C16


def unknown_constructors():
    """public callables of the sites package that this dumper does not know (a new alias must be added here)"""
    from acnportal.acnsim.network import sites
    known = set(FACTORY.values()) | {a for v in ALIASES.values() for a in v} | set(NOT_A_PREDEFINED_SITE)
    return sorted(n for n in dir(sites) if not n.startswith("_") and callable(getattr(sites, n))
                  and not isinstance(getattr(sites, n), type) and n not in known)


def variants(site):
    """[(basic_evse, kwargs)]: every EVSE type x capacity setting at the default voltage, plus
    non-default `voltage` arguments spread over EVSE types and capacity settings"""
    caps = CONFIGS[site]
    out = [(basic, dict(kw)) for basic in (False, True) for kw in caps]
    for i, v in enumerate(VOLTAGES):
        out.append((False, dict(caps[i % 3], voltage=v)))
        out.append((True, dict(caps[(i + 1) % 3], voltage=v)))
    # degenerate-but-legal capacities: 0 kW (e.g. the first point of np.linspace(0, cap, n)) keeps the
    # transformer's rows with a 0 A limit; a huge capacity on one transformer must not loosen the other
    if site == "jpl":
        out.append((False, dict(first_transformer_cap=0, third_fourth_transformer_cap=150)))
        out.append((True, dict(first_transformer_cap=45, third_fourth_transformer_cap=0.0)))
        out.append((False, dict(first_transformer_cap=45, third_fourth_transformer_cap=1e9)))
        # two independent parameters taking the SAME value (int/float spellings included)
        out.append((False, dict(first_transformer_cap=45, third_fourth_transformer_cap=45)))
        out.append((True, dict(first_transformer_cap=150.0, third_fourth_transformer_cap=150)))
    if site == "office001":
        out.append((False, dict(transformer_cap=0)))
        out.append((True, dict(transformer_cap=120, voltage=120)))
    if site == "caltech":
        out.append((True, dict(transformer_cap=208, voltage=208)))
    # every public constructor alias of the site (documented backward-compatible names) builds the same
    # site for the same arguments
    for alias in ALIASES.get(site, []):
        out.append((False, dict(caps[1], _alias=alias)))
        out.append((True, dict(caps[2], _alias=alias, voltage=VOLTAGES[0])))
    return out


def site_name(site, idx):
    return "site_%s_%d" % (site, idx)


def jpl_calls_use_default_secondary_voltage(repo):
    """AST check of jpl_acn: every call of _delta_wye_transformer passes (name, currents, cap) only, so the
    secondary voltage is the literal default of the helper (which the SiteLim anchor inlines)"""
    import ast
    with open(os.path.join(repo, "acnportal/acnsim/network/sites/jpl_acn.py")) as f:
        tree = ast.parse(f.read())
    calls = [n for n in ast.walk(tree) if isinstance(n, ast.Call) and isinstance(n.func, ast.Name)
             and n.func.id == "_delta_wye_transformer"]
    return bool(calls) and all(len(c.args) == 3 and not c.keywords for c in calls)


# ground truth written down from the site documentation (station lists of the Caltech pods, JPL
# sub-panels and their ratings); the factories are checked against it, it is not derived from them
CALTECH_CC = ["CA-322", "CA-493", "CA-496", "CA-320", "CA-495", "CA-321", "CA-323", "CA-494"]
CALTECH_AV = ["CA-324", "CA-325", "CA-326", "CA-327", "CA-489", "CA-490", "CA-491", "CA-492"]
POD_TRUTH = {"CC Pod": (80, lambda s: s in CALTECH_CC), "AV Pod": (80, lambda s: s in CALTECH_AV)}
PANEL_TRUTH = {
    "First Floor SP1": (100, lambda s: s in ("AG-1F11", "AG-1F12", "AG-1F13", "AG-1F14")),
    "First Floor SP2": (100, lambda s: s in ("AG-1F01", "AG-1F02", "AG-1F03", "AG-1F04", "AG-1F05", "AG-1F06")),
    "Third Floor Panel": (225, lambda s: s.startswith("AG-3F")),
    "Fourth Floor Panel": (225, lambda s: s.startswith("AG-4F")),
}


def truth(site, ids, kwargs):
    """[(capacity kW, station indices)] per transformer, [(rating A, indices)] per pod, per sub-panel"""
    trs, pods, panels = [], [], []
    if site in ("caltech", "office001"):
        trs.append((kwargs["transformer_cap"], list(range(len(ids)))))
    else:
        trs.append(transformer_truth(site, "First Floor", ids, kwargs))
        trs.append(transformer_truth(site, "Third/Fourth", ids, kwargs))
        for k in ("First Floor SP1", "First Floor SP2", "Third Floor Panel", "Fourth Floor Panel"):
            r, f = PANEL_TRUTH[k]
            panels.append((r, [i for i, x in enumerate(ids) if f(x)]))
    if site == "caltech":
        for k in ("CC Pod", "AV Pod"):
            r, f = POD_TRUTH[k]
            pods.append((r, [i for i, x in enumerate(ids) if f(x)]))
    return trs, pods, panels


def transformer_truth(site, prefix, ids, kwargs):
    """ground truth from the site documentation: (capacity in kW, stations behind the transformer)"""
    if site in ("caltech", "office001"):
        return kwargs["transformer_cap"], list(range(len(ids)))
    if prefix.startswith("First Floor"):
        return kwargs["first_transformer_cap"], [i for i, s in enumerate(ids) if s.startswith("AG-1F")]
    if prefix.startswith("Third/Fourth"):
        return kwargs["third_fourth_transformer_cap"], [i for i, s in enumerate(ids)
                                                        if s.startswith("AG-3F") or s.startswith("AG-4F")]
    return None, []


def build(site, basic, kwargs):
    import warnings
    from acnportal.acnsim.network import sites
    kwargs = dict(kwargs)
    fn = getattr(sites, kwargs.pop("_alias", None) or FACTORY[site])
    with warnings.catch_warnings():
        warnings.simplefilter("ignore")
        return fn(basic_evse=basic, **kwargs)


def classify(site, names, ids, kwargs):
    """row classification by constraint name"""
    tr, prim, panels, pods, unknown = {}, {}, {}, [], []
    for j, nm in enumerate(names):
        m = re.match(r"^(.*?)\s*Secondary ([ABC])$", nm)
        if m:
            tr.setdefault(m.group(1), {})[m.group(2)] = j
            continue
        m = re.match(r"^(.*?)\s*Primary ([ABC])$", nm)
        if m:
            prim.setdefault(m.group(1), {})[m.group(2)] = j
            continue
        m = re.match(r"^(.*) I_([abc])$", nm)
        if m:
            panels.setdefault(m.group(1), {})[m.group(2).upper()] = j
            continue
        if nm in POD_TRUTH and site == "caltech":
            r, f = POD_TRUTH[nm]
            pods.append((j, r, [i for i, x in enumerate(ids) if f(x)]))
            continue
        unknown.append(j)
    trs, prims, pans = [], [], []
    keys = list(tr)
    for k in keys:
        d = tr[k]
        if set(d) != set("ABC"):
            unknown.extend(d.values())
            continue
        cap, members = transformer_truth(site, k, ids, kwargs)
        if cap is None:
            unknown.extend(d.values())
            continue
        trs.append((d["A"], d["B"], d["C"], cap, members))
    for k, d in prim.items():
        if set(d) != set("ABC") or k not in keys:
            unknown.extend(d.values())
            continue
        prims.append((d["A"], d["B"], d["C"], keys.index(k)))
    for k, d in panels.items():
        if set(d) != set("ABC") or k not in PANEL_TRUTH or site != "jpl":
            unknown.extend(d.values())
            continue
        r, f = PANEL_TRUTH[k]
        pans.append((d["A"], d["B"], d["C"], r, [i for i, x in enumerate(ids) if f(x)]))
    # every documented transformer / pod / sub-panel must be present as a constraint: a missing one is
    # reported as an unclassifiable row (index 9000+), which check_site refuses
    want_tr, want_pods, want_panels = truth(site, ids, kwargs)
    if len(trs) != len(want_tr):
        unknown.append(9000)
    if len(pods) != len(want_pods):
        unknown.append(9001)
    if len(pans) != len(want_panels):
        unknown.append(9002)
    return trs, prims, pans, pods, sorted(unknown)


def dump_one(site, basic, kwargs, idx):
    net = build(site, basic, kwargs)
    kwargs = {k: v for k, v in kwargs.items() if k not in ("voltage", "_alias")}
    ids = list(net.station_ids)
    A = net.constraint_matrix
    rows = [] if A is None else [[float(x) for x in r] for r in A]
    limits = [float(x) for x in net.magnitudes]
    phases = [float(x) for x in net._phase_angles]
    volts = [float(x) for x in net._voltages]
    names = list(net.constraint_index)
    trs, prims, pans, pods, unknown = classify(site, names, ids, kwargs)
    name = site_name(site, idx)
    cis = [(math.cos(math.radians(p)), math.sin(math.radians(p))) for p in phases]
    text = "Definition %s : site := {|\n" % name
    text += "  s_kind := %d%%nat;\n" % KIND[site]
    text += "  s_phases := %s;\n" % lst(q(p) for p in phases)
    text += "  s_cis := %s;\n" % lst("(%s, %s)" % (q(c), q(s)) for c, s in cis)
    text += "  s_voltages := %s;\n" % lst(q(v) for v in volts)
    text += "  s_rows := %s;\n" % lst("\n    " + lst(q(c) for c in r) for r in rows)
    text += "  s_limits := %s;\n" % lst(q(x) for x in limits)
    text += "  s_vt := %s; s_rt := %s;\n" % (q(net.violation_tolerance), q(net.relative_tolerance))
    text += "  s_transformers := %s;\n" % lst(
        "{| t_a := %d; t_b := %d; t_c := %d; t_cap := %s; t_members := %s |}" % (
            a, b, c, q(cap), lst("%d" % i for i in mem)) for a, b, c, cap, mem in trs)
    text += "  s_primaries := %s;\n" % lst("((%d, %d, %d), %d)" % p for p in prims)
    text += "  s_panels := %s;\n" % lst("((%d, %d, %d), %s, %s)" % (a, b, c, q(r), lst("%d" % i for i in mem))
                                        for a, b, c, r, mem in pans)
    text += "  s_pods := %s;\n" % lst("(%d, %s, %s)" % (j, q(r), lst("%d" % i for i in mem)) for j, r, mem in pods)
    text += "  s_unknown := %s\n|}.\n" % lst("%d" % p for p in unknown)
    info = dict(name=name, stations=len(ids), constraints=len(names), station_ids=ids, constraint_names=names,
                params=kwargs, basic_evse=basic)
    return name, text, info


HEADER = """From Coq Require Import ZArith QArith List.
Import ListNotations.
Open Scope nat_scope.

(* one delta-wye transformer: rows of the three secondary line currents, rated capacity [kW],
   and the stations that hang behind it according to the site documentation *)
Record transformer := { t_a : nat; t_b : nat; t_c : nat; t_cap : Q; t_members : list nat }.

Record site := {
  s_kind : nat;                         (* 0 caltech_acn, 1 jpl_acn, 2 office001_acn *)
  s_phases : list Q;                    (* network._phase_angles [deg] *)
  s_cis : list (Q * Q);                 (* (cos, sin) of deg2rad(phase), doubles computed by the dumper *)
  s_voltages : list Q;                  (* network._voltages *)
  s_rows : list (list Q);               (* network.constraint_matrix *)
  s_limits : list Q;                    (* network.magnitudes *)
  s_vt : Q; s_rt : Q;                   (* network tolerances *)
  s_transformers : list transformer;
  s_primaries : list ((nat * nat * nat) * nat);   (* primary rows A,B,C and the transformer they belong to *)
  s_panels : list ((nat * nat * nat) * Q * list nat);   (* sub-panel line-current rows A,B,C, rating [A] per phase, stations *)
  s_pods : list (nat * Q * list nat);   (* pod row, rating [A], stations of the pod *)
  s_unknown : list nat                  (* rows the dumper could not classify *)
}.

"""


def generate(repo):
    warnings.filterwarnings("ignore")
    if "acnportal" not in sys.modules and repo not in sys.path:
        sys.path.insert(0, repo)
    out = HEADER
    infos, names, groups = [], [], {}
    import io
    import contextlib
    for site in ("caltech", "jpl", "office001"):
        for idx, (basic, kwargs) in enumerate(variants(site)):
            try:
                with contextlib.redirect_stdout(io.StringIO()):
                    name, text, info = dump_one(site, basic, kwargs, idx)
                info["params"] = kwargs
            except Exception as e:  # noqa  -- fail closed: the generated file does not compile
                name = site_name(site, idx)
                text = "Definition %s : site := factory_raised_%s.\n" % (name, type(e).__name__)
                info = dict(name=name, error="%s: %s" % (type(e).__name__, e))
            out += "(* %s(basic_evse=%s, %s) *)\n" % (site, basic, ", ".join("%s=%r" % kv for kv in kwargs.items()))
            out += text + "\n"
            names.append(name)
            groups.setdefault(site, []).append(name)
            infos.append(info)
    for site, ns in groups.items():
        out += "Definition sites_%s : list site := %s.\n" % (site, lst(ns))
    out += "Definition all_sites : list site := sites_caltech ++ sites_jpl ++ sites_office001.\n"
    try:
        unk = unknown_constructors()
        out += ("(* public site constructors this dumper does not know (must be empty) *)\n"
                "Definition unknown_site_constructors : nat := %d%s.\n" % (len(unk), "".join(" (* %s *)" % u for u in unk)))
    except Exception as e:  # noqa
        out += "Definition unknown_site_constructors : nat := listing_failed_%s.\n" % type(e).__name__
    try:
        ok = jpl_calls_use_default_secondary_voltage(repo)
        out += ("(* AST check of jpl_acn: every _delta_wye_transformer call passes (name, currents, cap) only *)\n"
                "Definition jpl_calls_use_default_secondary_voltage : bool := %s.\n" % ("true" if ok else "false"))
    except Exception as e:  # noqa
        out += "Definition jpl_calls_use_default_secondary_voltage : bool := ast_check_failed_%s.\n" % type(e).__name__
    return [("Sites.v", out, infos)]


if __name__ == "__main__":
    repo = os.environ.get("ACN_REPO", "/repo")
    for fname, text, info in generate(repo):
        sys.stdout.write(text[:3000])
