#!/bin/bash
# Run every registered check once on the unchanged tree (quick tier unless $1 = thorough); summary at the end.
cd "$(dirname "$0")/.."
tier=${1:-quick}
fail=0
for p in $(python3 -c "import json;print(' '.join(c['property_id'] for c in json.load(open('MANIFEST.json'))['checks']))"); do
  out=$(./check $p --tier $tier 2>&1); rc=$?
  echo "$out" | grep -v "^KNOWN-FINDING\|^note:" | tail -1
  echo "$out" | grep "^KNOWN-FINDING" | cut -c1-160
  if [ $rc -ne 0 ] || echo "$out" | grep -q "^VIOLATION"; then fail=1; echo "   !!! $p rc=$rc"; fi
done
exit $fail
