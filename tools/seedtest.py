#!/usr/bin/env python3
"""Confirm and run seeded changes.

  tools/seedtest.py confirm <dir>      # dir has patch.diff, demo.py, meta.json: checks test suite + demo with/without
  tools/seedtest.py run [<pid> ...]    # for every /verif/seeded/<pid>*/ : apply patch to a scratch worktree,
                                       # run ./check <pid> with ACN_REPO=<worktree>, revert, report caught/missed
The scratch worktree is /tmp/seedrepo (git worktree of /repo HEAD); /repo itself is never touched.
"""
import json, os, re, subprocess, sys, glob, time

ROOT = os.path.dirname(os.path.dirname(os.path.abspath(__file__)))
WT = os.environ.get("SEED_WT", "/tmp/seedrepo")


def sh(cmd, **kw):
    return subprocess.run(cmd, shell=True, stdout=subprocess.PIPE, stderr=subprocess.STDOUT, text=True, **kw)


def apply_patch(patch):
    """git apply, falling back to patch(1) with fuzz when the tree has moved on since the seed was written"""
    r = sh("git -C %s apply %s" % (WT, patch))
    if r.returncode == 0:
        return r
    r2 = sh("cd %s && patch -p1 --fuzz=3 --no-backup-if-mismatch < %s" % (WT, patch))
    if r2.returncode != 0:
        sh("git -C %s checkout -- . && git -C %s clean -fdq" % (WT, WT))
    return r2


def ensure_wt():
    if not os.path.isdir(WT):
        r = sh("git -C /repo worktree add -q --detach %s HEAD" % WT)
        if r.returncode:
            raise SystemExit(r.stdout)
    sh("git -C %s checkout -q --detach $(git -C /repo rev-parse HEAD) && git -C %s checkout -- . && git -C %s clean -fdq" % (WT, WT, WT))


def tests(wt):
    r = sh("cd %s && PYTHONPATH=%s PYTHONHASHSEED=0 /venv/bin/python -m pytest -q -p no:cacheprovider --timeout=900 --continue-on-collection-errors 2>&1 | tail -1" % (wt, wt))
    return r.stdout.strip()


def demo(wt, path):
    r = sh("cd /tmp && PYTHONPATH=%s PYTHONHASHSEED=0 /venv/bin/python -W ignore %s 2>&1" % (wt, path), timeout=900)
    return r.returncode, r.stdout.strip()[-600:]


def confirm(d):
    ensure_wt()
    patch = os.path.join(d, "patch.diff")
    out = {}
    rc0, o0 = demo(WT, os.path.join(d, "demo.py"))
    out["demo_without"] = (rc0, o0[-200:])
    r = apply_patch(patch)
    if r.returncode:
        out["apply"] = r.stdout
        print(json.dumps(out, indent=1))
        return False
    try:
        out["tests_with"] = tests(WT)
        rc1, o1 = demo(WT, os.path.join(d, "demo.py"))
        out["demo_with"] = (rc1, o1[-300:])
    finally:
        sh("git -C %s checkout -- . && git -C %s clean -fdq" % (WT, WT))
    ok = rc0 == 0 and rc1 != 0 and out["tests_with"].startswith("386 passed") and "12 errors" in out["tests_with"]
    out["confirmed"] = ok
    print(json.dumps(out, indent=1))
    return ok


def run(pids):
    ensure_wt()
    results = []
    dirs = sorted(glob.glob(os.path.join(ROOT, "seeded", "*")))
    for d in dirs:
        meta = json.load(open(os.path.join(d, "meta.json")))
        pid = meta["property"]
        if pids and pid not in pids and os.path.basename(d) not in pids:
            continue
        r = apply_patch(os.path.join(d, "patch.diff"))
        if r.returncode:
            results.append((os.path.basename(d), pid, "APPLY-FAILED", r.stdout[-200:]))
            continue
        t0 = time.time()
        try:
            c = sh("cd %s && ACN_REPO=%s ./check %s" % (ROOT, WT, pid), timeout=3000)
        finally:
            sh("git -C %s checkout -- . && git -C %s clean -fdq" % (WT, WT))
        viol = [l for l in c.stdout.split("\n") if l.startswith("VIOLATION")]
        status = "CAUGHT" if (c.returncode == 1 and viol) else "MISSED"
        results.append((os.path.basename(d), pid, status, (viol[0] if viol else c.stdout[-300:]), round(time.time() - t0)))
        print(results[-1], flush=True)
    # restore Gen for the real repo
    sh("cd %s && python3 tools/gen.py" % ROOT)
    return results


if __name__ == "__main__":
    if sys.argv[1] == "confirm":
        sys.exit(0 if confirm(sys.argv[2]) else 1)
    elif sys.argv[1] == "run":
        res = run(sys.argv[2:])
        print("\n".join(str(r) for r in res))
