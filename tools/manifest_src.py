import glob, json, os
NOTES = "All checks: ./check <ID> [--tier quick|thorough]. Every run regenerates coq/Gen/*.v from /repo's working tree, rebuilds the dependent proofs with make (full .vo), re-prints assumptions of every property theorem, and runs the model-vs-implementation correspondence on freshly generated cases (seed = VERIF_SEED). Fix commits applied to /repo are listed in known_findings.json."
NOT_APPLICABLE = {}
CHECKS = {}
_d = os.path.join(os.path.dirname(os.path.abspath(__file__)), "manifest.d")
for _p in sorted(glob.glob(os.path.join(_d, "C*.json"))):
    CHECKS[os.path.basename(_p)[:-5]] = json.load(open(_p))
if os.path.exists(os.path.join(_d, "not_applicable.json")):
    NOT_APPLICABLE = json.load(open(os.path.join(_d, "not_applicable.json")))
