NOTES = ("All checks: ./check <ID> [--tier quick|thorough]. Every run regenerates coq/Gen/*.v from /repo's working tree, "
         "rebuilds the dependent proofs with make (full .vo), re-prints assumptions of every property theorem, and runs the "
         "model-vs-implementation correspondence on freshly generated cases (seed = VERIF_SEED). Fix commits applied to /repo are "
         "listed in known_findings.json.")
NOT_APPLICABLE = {}
CHECKS = {
 "C13": dict(
   text="Theorems over all reals about the EVSE acceptance predicates, set_pilot and plugin as regenerated from evse.py on every run "
        "(accept-iff per class, advertised values accepted, rejection leaves pilot/EV untouched, occupied plugin refused); "
        "a differential run of the executable twin against the real classes at every decision boundary ties the model to the code.",
   note="Trusted: Coq kernel, py2coq translator, harness. R theorems depend on the stdlib real-number axioms (sig_forall_dec, functional_extensionality_dep, classic as printed). "
        "FiniteRatesEVSE constructor normalisation (set/sorted), max/min over the list, network info cache and Interface accessors are hand-modelled and tied by correspondence only. IEEE rounding not modelled."),
}
