#!/usr/bin/env python3
"""Extra generator for C17 (and the shape fingerprints of C20).

generate(repo) ->
  * Tariffs.v    — every JSON file of acnportal/signals/tariffs/tariff_schedules as Coq data
                   (`raw_<name> : list raw_schedule`, `bundled : list (string * list raw_schedule)`),
                   JSON-tree level: the constructor's interpretation (mask strings, sorting, wrap-around
                   split) is done by Model/Tariff.v, not here.
  * TariffK_Z.v  — integer kernels translated from tou_tariff.py / interface.py (validity predicate of
                   `_get_tariff_schedule`, wrap-around test of `__init__`, per-period instant of `get_tariffs`,
                   `price_start` of Interface.get_prices / get_demand_charge)
  * TariffK_Q.v  — rational kernels (target_hour and breakpoint test of `get_tariff`, the scalar shape of
                   analysis.energy_cost / demand_charge)
  * ClientShape.v — fingerprints only (no Coq content besides a comment) of the acndata functions that are
                   modelled by hand in Model/Client.v.

The kernels need a few constructs py2coq does not have (tuple literals and tuple comparison, indexing a mask,
`Decimal(x)`, `timedelta(minutes=x)`); they are added in a subclass here so that tools/py2coq.py is untouched.
Everything outside the subset still raises Untranslatable (fail closed: the file then does not compile).
"""
import ast
import fractions
import glob
import json
import os
import re

import py2coq
from py2coq import Untranslatable

TOU = "acnportal/signals/tariffs/tou_tariff.py"
IFACE = "acnportal/acnsim/interface.py"
ANALYSIS = "acnportal/acnsim/analysis/__init__.py"
SCHED_DIR = "acnportal/signals/tariffs/tariff_schedules"
CLIENT = "acnportal/acndata/data_client.py"
UTILS = "acnportal/acndata/utils.py"

US_PER_MIN = 60 * 1000 * 1000


class TariffTranslator(py2coq.FnTranslator):
    """py2coq + : tuple literals of numbers (type zlist), Python tuple comparison on zlist,
    mask[i] on a declared boollist, r[0] / r[1] on a declared pair, Decimal(x) = x (exact),
    timedelta(minutes=x) = 60_000_000 * x microseconds (integer kernels only)."""

    def coqty(self, t):
        T = self.ops["ty"]
        extra = {"zlist": "list Z", "boollist": "list bool", "pair": "(%s * %s)" % (T, T)}
        if t in extra:
            return extra[t]
        return super().coqty(t)

    def expr(self, node, env):
        if isinstance(node, ast.Tuple):
            if self.domain != "Z":
                self.err(node, "tuple literal outside an integer kernel")
            items = []
            for e in node.elts:
                s, t = self.expr(e, env)
                if t != "num":
                    self.err(node, "tuple of non-numbers")
                items.append(s)
            return ("[" + "; ".join(items) + "]", "zlist")
        if isinstance(node, ast.List) and node.elts and all(
                isinstance(e, ast.Constant) and isinstance(e.value, bool) for e in node.elts):
            return ("[" + "; ".join("true" if e.value else "false" for e in node.elts) + "]", "boollist")
        if isinstance(node, ast.BinOp) and isinstance(node.op, (ast.Mult, ast.Add)) and isinstance(
                node.left, (ast.List, ast.BinOp)):
            # [True] * 5 + [False] * 2
            try:
                a, ta = self.expr(node.left, env)
            except Untranslatable:
                ta = None
            if ta == "boollist":
                if isinstance(node.op, ast.Mult):
                    if not (isinstance(node.right, ast.Constant) and isinstance(node.right.value, int)
                            and not isinstance(node.right.value, bool) and 0 <= node.right.value <= 64):
                        self.err(node, "list repetition count")
                    return ("(List.concat (List.repeat %s %d))" % (a, node.right.value), "boollist")
                b, tb = self.expr(node.right, env)
                if tb != "boollist":
                    self.err(node, "list + non-list")
                return ("(%s ++ %s)%%list" % (a, b), "boollist")
        if isinstance(node, ast.Subscript):
            v, tv = self.expr(node.value, env)
            if tv == "boollist":
                i, ti = self.expr(node.slice, env)
                if ti != "num" or self.domain != "Z":
                    self.err(node, "mask index")
                return ("(nth_bool %s %s)" % (v, i), "bool")
            if tv == "pair" and isinstance(node.slice, ast.Constant) and node.slice.value in (0, 1):
                return ("(%s %s)" % ("fst" if node.slice.value == 0 else "snd", v), "num")
            self.err(node, "subscript on %s" % tv)
        return super().expr(node, env)

    def compare(self, node, env):
        first, t0 = self.expr(node.left, env)
        if t0 != "zlist":
            return super().compare(node, env)
        parts, left = [], first
        for op, right in zip(node.ops, node.comparators):
            b, tb = self.expr(right, env)
            if tb != "zlist":
                self.err(node, "tuple compared with a non-tuple")
            if isinstance(op, ast.LtE):
                parts.append("(lex_leb %s %s)" % (left, b))
            elif isinstance(op, ast.Lt):
                parts.append("(lex_ltb %s %s)" % (left, b))
            elif isinstance(op, ast.GtE):
                parts.append("(lex_leb %s %s)" % (b, left))
            elif isinstance(op, ast.Gt):
                parts.append("(lex_ltb %s %s)" % (b, left))
            else:
                self.err(node, "tuple comparison operator")
            left = b
        r = parts[0]
        for p in parts[1:]:
            r = "(%s && %s)" % (r, p)
        return (r, "bool")

    def call(self, node, env):
        f = self.txt(node.func)
        if f == "Decimal" and len(node.args) == 1 and not node.keywords:
            s, t = self.expr(node.args[0], env)
            if t != "num":
                self.err(node, "Decimal of a non-number")
            return (s, "num")
        if f == "timedelta":
            if self.domain not in ("Z", "Q") or node.args or len(node.keywords) != 1 or node.keywords[0].arg != "minutes":
                self.err(node, "timedelta(...) other than timedelta(minutes=<number>)")
            s, t = self.expr(node.keywords[0].value, env)
            if t != "num":
                self.err(node, "timedelta of a non-number")
            # microseconds; in the rational kernels the product is exact (the model floors it, see Model/Tariff.v)
            return ("(%s * %s)" % (self.ops["lit"](fractions.Fraction(US_PER_MIN)), s), "num")
        return super().call(node, env)


DT = {"date_time.month": "num", "date_time.day": "num", "date_time.hour": "num",
      "date_time.minute": "num", "date_time.second": "num"}

Z_ANCHORS = [
    # s.dow_mask[date_time.weekday()] and s.start <= (date_time.month, date_time.day) <= s.end
    dict(name="Tariff_valid", file=TOU, qual="TimeOfUseTariff._get_tariff_schedule",
         expr_path="body[1].value.generators[0].ifs[0]",
         types=dict(DT, **{"s.dow_mask": "boollist", "s.start": "zlist", "s.end": "zlist"}),
         call_params={"date_time.weekday": ("weekday", "num")}),
    # s.end < s.start   (the wrap-around test of the constructor)
    dict(name="Tariff_wraps", file=TOU, qual="TimeOfUseTariff.__init__",
         expr_path="body[5].body[0].test", types={"s.start": "zlist", "s.end": "zlist"}),
    # s_copy.start = (1, 1) ; s.end = (12, 31)
    dict(name="Tariff_wrap_copy_start", file=TOU, qual="TimeOfUseTariff.__init__", expr_path="body[5].body[0].body[1].value"),
    dict(name="Tariff_wrap_orig_end", file=TOU, qual="TimeOfUseTariff.__init__", expr_path="body[5].body[0].body[3].value"),
    # the three weekday masks of TariffSchedule.__init__
    dict(name="Tariff_mask_weekdays", file=TOU, qual="TariffSchedule.__init__", expr_path="body[3].body[0].value"),
    dict(name="Tariff_mask_weekends", file=TOU, qual="TariffSchedule.__init__", expr_path="body[3].orelse[0].body[0].value"),
    dict(name="Tariff_mask_all", file=TOU, qual="TariffSchedule.__init__",
         expr_path="body[3].orelse[0].orelse[0].body[0].value"),
    # start + t * timedelta(minutes=period)   (instants in microseconds)
    dict(name="Tariff_step_time", file=TOU, qual="TimeOfUseTariff.get_tariffs",
         expr_path="body[1].value.elt.args[0]", types={"t": "num"}),
    # price_start = self._simulator.start + timedelta(minutes=self.period) * start
    dict(name="Iface_price_start", file=IFACE, qual="Interface.get_prices",
         expr_path="body[1].body[1].value", inline_props={"period": "Interface.period"}),
    dict(name="Iface_demand_start", file=IFACE, qual="Interface.get_demand_charge",
         expr_path="body[1].body[1].value", inline_props={"period": "Interface.period"}),
]

Q_ANCHORS = [
    # the same instant expressions over the rationals (fractional simulation periods such as 2.5 minutes)
    dict(name="Tariff_step_time_q", file=TOU, qual="TimeOfUseTariff.get_tariffs",
         expr_path="body[1].value.elt.args[0]", types={"t": "num"}),
    dict(name="Iface_price_start_q", file=IFACE, qual="Interface.get_prices",
         expr_path="body[1].body[1].value", inline_props={"period": "Interface.period"}),
    dict(name="Iface_demand_start_q", file=IFACE, qual="Interface.get_demand_charge",
         expr_path="body[1].body[1].value", inline_props={"period": "Interface.period"}),
    # Decimal(hour) + Decimal(minute) / 60 + Decimal(second) / 3600
    dict(name="Tariff_target_hour", file=TOU, qual="TimeOfUseTariff.get_tariff",
         expr_path="body[2].value", types=DT),
    # target_hour >= r[0]
    dict(name="Tariff_bp_test", file=TOU, qual="TimeOfUseTariff.get_tariff",
         expr_path="body[3].body[0].test", types={"r": "pair", "target_hour": "num"}),
    # np.array(energy_costs).dot(agg) * (sim.period / 60)
    dict(name="Analysis_energy_cost", file=ANALYSIS, qual="energy_cost", expr_path="body[4].value",
         types={"sim.period": "num"}, call_params={"np.array(energy_costs).dot": ("dot", "num")}),
    # dc * np.max(agg)
    dict(name="Analysis_demand_charge", file=ANALYSIS, qual="demand_charge", expr_path="body[4].value",
         types={"dc": "num"}, call_params={"np.max": ("peak", "num")}),
]

SHAPES = [  # hand-modelled code whose normalised-AST fingerprint is recorded in the evidence
    (TOU, "TariffSchedule.__init__"), (TOU, "TimeOfUseTariff.__init__"),
    (TOU, "TimeOfUseTariff._get_tariff_schedule"), (TOU, "TimeOfUseTariff.get_tariff"),
    (TOU, "TimeOfUseTariff.get_tariffs"), (TOU, "TimeOfUseTariff.get_demand_charge"),
    (IFACE, "Interface.get_prices"), (IFACE, "Interface.get_demand_charge"),
    (ANALYSIS, "energy_cost"), (ANALYSIS, "demand_charge"), (ANALYSIS, "aggregate_power"),
]
CLIENT_SHAPES = [
    (CLIENT, "DataClient.get_sessions"), (CLIENT, "DataClient.get_sessions_by_time"),
    (UTILS, "http_date"), (UTILS, "parse_http_date"), (UTILS, "parse_dates"),
]


def translate_group(repo, specs, domain):
    texts, infos = [], []
    for spec in specs:
        t = TariffTranslator(repo, spec, domain)
        text, info = t.translate()
        texts.append("(* %s :: %s @ %s  (function lines %d-%d) *)\n%s\n" % (
            spec["file"], spec["qual"], spec.get("expr_path", ""), info["line"], info["end_line"], text))
        infos.append(info)
    hdr = py2coq.HEADERS[domain].replace("From ACN Require Import Base.Num.",
                                         "From ACN Require Import Base.Num Base.Lex.")
    return hdr + "\n" + "\n".join(texts), infos


# ------------------------------------------------------------------------------------------------
# data
# ------------------------------------------------------------------------------------------------
def qlit(x, what):
    if isinstance(x, bool) or not isinstance(x, (int, float)):
        raise Untranslatable("%s: %r is not a JSON number" % (what, x))
    fr = fractions.Fraction(x)
    n, d = fr.numerator, fr.denominator
    return "(%s # %d)" % (n if n >= 0 else "(%d)" % n, d)


def coq_str(s, what):
    if not isinstance(s, str) or not all(32 <= ord(c) < 127 for c in s):
        raise Untranslatable("%s: %r is not a printable ASCII string" % (what, s))
    return '"%s"' % s.replace('"', '""')


def zlist(s, what):
    if not isinstance(s, str):
        raise Untranslatable("%s: %r is not a string" % (what, s))
    parts = s.split("-")
    out = []
    for p in parts:
        # int() accepts surrounding blanks, '+', '_' … : only plain digits are taken here (fail closed)
        if not re.fullmatch(r"[0-9]{1,9}", p):
            raise Untranslatable("%s: component %r of %r is not a plain non-negative integer" % (what, p, s))
        out.append(str(int(p)))
    return "[" + "; ".join(out) + "]%Z"


def schedule_coq(doc, what):
    for k in ("id", "effective_start", "effective_end", "dow_mask", "times", "tariffs", "demand_charge"):
        if k not in doc:
            raise Untranslatable("%s: missing key %s" % (what, k))
    if not isinstance(doc["times"], list) or not isinstance(doc["tariffs"], list):
        raise Untranslatable("%s: times/tariffs are not arrays" % what)
    return ("{| rs_id := %s; rs_start := %s; rs_end := %s; rs_mask := %s;\n     rs_times := [%s];\n"
            "     rs_tariffs := [%s];\n     rs_demand := %s |}") % (
        coq_str(doc["id"], what + ".id"), zlist(doc["effective_start"], what + ".effective_start"),
        zlist(doc["effective_end"], what + ".effective_end"), coq_str(doc["dow_mask"], what + ".dow_mask"),
        "; ".join(qlit(x, what + ".times") for x in doc["times"]),
        "; ".join(qlit(float(x) if isinstance(x, (int, float)) and not isinstance(x, bool) else x, what + ".tariffs")
                  for x in doc["tariffs"]),
        qlit(doc["demand_charge"], what + ".demand_charge"))


def raw_list_coq(schedules, what):
    return "[\n  " + ";\n  ".join(schedule_coq(s, "%s[%d]" % (what, i)) for i, s in enumerate(schedules)) + "\n]"


DATA_HEADER = ("From Coq Require Import ZArith QArith List String.\nFrom ACN Require Import Base.TariffRaw.\n"
               "Import ListNotations.\nOpen Scope string_scope.\n\n")


def tariffs_v(repo):
    d = os.path.join(repo, SCHED_DIR)
    files = sorted(glob.glob(os.path.join(d, "*.json")))
    if not files:
        raise Untranslatable("%s: no tariff files" % SCHED_DIR)
    out, names, info = [DATA_HEADER], [], []
    for p in files:
        name = os.path.basename(p)[:-5]
        with open(p) as f:
            doc = json.load(f)
        if not isinstance(doc, dict) or not isinstance(doc.get("schedule"), list):
            raise Untranslatable("%s: no schedule array" % name)
        ident = "raw_" + py2coq.coq_ident(name)
        out.append("(* %s/%s.json : %s, effective %s *)\nDefinition %s : list raw_schedule := %s.\n" % (
            SCHED_DIR, name, str(doc.get("name")).replace("*)", "* )"), str(doc.get("effective")).replace("*)", "* )"),
            ident, raw_list_coq(doc["schedule"], name)))
        names.append((name, ident))
        info.append(dict(name=ident, file="%s/%s.json" % (SCHED_DIR, name), qual="schedule",
                         line=1, end_line=len(open(p).read().split("\n")),
                         fingerprint=__import__("hashlib").sha256(json.dumps(doc, sort_keys=True).encode()).hexdigest()[:16]))
    out.append("Definition bundled : list (string * list raw_schedule) := [\n  " +
               ";\n  ".join('(%s, %s)' % (coq_str(n, n), i) for n, i in names) + "\n].\n")
    return "\n".join(out), info


def shape_info(repo, shapes):
    info = []
    for rel, qual in shapes:
        src = py2coq.Source(repo, rel)
        fn = src.find(qual)
        info.append(dict(name="shape:" + qual, file=rel, qual=qual, line=fn.lineno, end_line=fn.end_lineno,
                         fingerprint=py2coq.fingerprint(fn)))
    return info


# ------------------------------------------------------------------------------------------------
# constants of the ACN-Data client (C20): literals pulled out of the AST, fail closed on any other shape
# ------------------------------------------------------------------------------------------------
def _const_str(node, what):
    if isinstance(node, ast.Constant) and isinstance(node.value, str):
        return node.value
    raise Untranslatable("%s: expected a string literal, found %s" % (what, ast.dump(node)[:60]))


def _format_prefix(call, what):
    """'<prefix>{0}'.format(x) -> prefix"""
    if not (isinstance(call, ast.Call) and isinstance(call.func, ast.Attribute) and call.func.attr == "format"
            and len(call.args) == 1 and not call.keywords):
        raise Untranslatable("%s: expected '<text>{0}'.format(x)" % what)
    fmt = _const_str(call.func.value, what)
    if not fmt.endswith("{0}") or "{" in fmt[:-3] or "}" in fmt[:-3]:
        raise Untranslatable("%s: format string %r is not '<text>{0}'" % (what, fmt))
    return fmt[:-3], ast.unparse(call.args[0])


def client_constants(repo):
    src = py2coq.Source(repo, CLIENT)
    fn = src.find("DataClient.get_sessions")
    body = [st for st in fn.body if not (isinstance(st, ast.Expr) and isinstance(st.value, ast.Constant))]
    where = CLIENT + ":get_sessions"
    # if site not in {...}: raise ValueError(...)
    st = body[0]
    if not (isinstance(st, ast.If) and isinstance(st.test, ast.Compare) and len(st.test.ops) == 1
            and isinstance(st.test.ops[0], ast.NotIn) and ast.unparse(st.test.left) == "site"
            and isinstance(st.test.comparators[0], (ast.Set, ast.List, ast.Tuple))
            and len(st.body) == 1 and isinstance(st.body[0], ast.Raise)):
        raise Untranslatable(where + ": first statement is not `if site not in {...}: raise`")
    sites = [_const_str(e, where + " site set") for e in st.test.comparators[0].elts]
    exc = st.body[0].exc
    exc_name = ast.unparse(exc.func) if isinstance(exc, ast.Call) else ast.unparse(exc)
    consts = dict(limit=None, limit_ts=None, endpoint=None, ts_suffix=None, args=[], qmark=None, sep=None, maxres=None)
    for st in body[1:]:
        if isinstance(st, ast.Assign) and ast.unparse(st.targets[0]) == "limit":
            consts["limit"] = st.value.value if isinstance(st.value, ast.Constant) and isinstance(st.value.value, int) else None
        elif isinstance(st, ast.Assign) and ast.unparse(st.targets[0]) == "endpoint":
            v = st.value
            if isinstance(v, ast.BinOp) and isinstance(v.op, ast.Add) and ast.unparse(v.right) == "site":
                consts["endpoint"] = _const_str(v.left, where + " endpoint")
        elif isinstance(st, ast.If) and ast.unparse(st.test) == "timeseries":
            for s2 in st.body:
                if isinstance(s2, ast.AugAssign) and ast.unparse(s2.target) == "endpoint" and isinstance(s2.op, ast.Add):
                    consts["ts_suffix"] = _const_str(s2.value, where + " ts suffix")
                elif isinstance(s2, ast.Assign) and ast.unparse(s2.targets[0]) == "limit" and isinstance(s2.value, ast.Constant):
                    consts["limit_ts"] = s2.value.value
                else:
                    raise Untranslatable(where + ": unexpected statement under `if timeseries`")
            if st.orelse:
                raise Untranslatable(where + ": `if timeseries` has an else branch")
        elif isinstance(st, ast.If) and isinstance(st.test, ast.Compare) and isinstance(st.test.ops[0], ast.IsNot) \
                and len(st.body) == 1 and not st.orelse and ast.unparse(st.body[0]).startswith("args.append("):
            pre, arg = _format_prefix(st.body[0].value.args[0], where + " args.append")
            if arg != ast.unparse(st.test.left):
                raise Untranslatable(where + ": %s formatted under a test on %s" % (arg, ast.unparse(st.test.left)))
            consts["args"].append((arg, pre))
        elif isinstance(st, ast.Expr) and ast.unparse(st).startswith("args.append("):
            pre, arg = _format_prefix(st.value.args[0], where + " args.append")
            if arg != "limit":
                raise Untranslatable(where + ": unconditional argument %s" % arg)
            consts["maxres"] = pre
        elif isinstance(st, ast.Assign) and ast.unparse(st.targets[0]) == "query_string":
            txt = ast.unparse(st.value)
            m = re.fullmatch(r"'(.*)' \+ '(.*)'\.join\(args\) if len\(args\) > 0 else ''", txt)
            if not m:
                raise Untranslatable(where + ": query_string = %s" % txt)
            consts["qmark"], consts["sep"] = m.group(1), m.group(2)
    if [a for a, _ in consts["args"]] != ["cond", "project", "sort"] or None in (
            consts["limit"], consts["limit_ts"], consts["endpoint"], consts["ts_suffix"], consts["qmark"], consts["sep"],
            consts["maxres"]):
        raise Untranslatable(where + ": could not identify every query constant (%r)" % consts)
    # format strings of utils.py
    usrc = py2coq.Source(repo, UTILS)
    # http_date:  utc = dt.astimezone(pytz.utc)
    #             return utc.strftime(<A>) + <"%04d"> % utc.year + utc.strftime(<B>)
    f = usrc.find("http_date")
    hb = [st for st in f.body if not (isinstance(st, ast.Expr) and isinstance(st.value, ast.Constant))]
    whereh = UTILS + ":http_date"
    if not (len(hb) == 2 and isinstance(hb[0], ast.Assign) and ast.unparse(hb[0]) == "utc = dt.astimezone(pytz.utc)"
            and isinstance(hb[1], ast.Return)):
        raise Untranslatable(whereh + ": body is not `utc = dt.astimezone(pytz.utc); return <three-part text>`")
    r = hb[1].value
    ok = (isinstance(r, ast.BinOp) and isinstance(r.op, ast.Add) and isinstance(r.left, ast.BinOp)
          and isinstance(r.left.op, ast.Add) and isinstance(r.left.right, ast.BinOp) and isinstance(r.left.right.op, ast.Mod))
    if ok:
        a, yfmt, b = r.left.left, r.left.right, r.right
        ok = all(isinstance(c, ast.Call) and ast.unparse(c.func) == "utc.strftime" and len(c.args) == 1 and not c.keywords
                 for c in (a, b)) and ast.unparse(yfmt.right) == "utc.year"
    if not ok:
        raise Untranslatable(whereh + ": return value is not utc.strftime(A) + FMT % utc.year + utc.strftime(B)")
    fmts = dict(pre=_const_str(a.args[0], whereh + " first format"), year=_const_str(yfmt.left, whereh + " year format"),
                suf=_const_str(b.args[0], whereh + " second format"))
    f = usrc.find("parse_http_date")
    found = [n for n in ast.walk(f) if isinstance(n, ast.Call) and isinstance(n.func, ast.Attribute) and n.func.attr == "strptime"]
    if len(found) != 1:
        raise Untranslatable("%s:parse_http_date: expected exactly one strptime call" % UTILS)
    fmts["parse"] = _const_str(found[0].args[-1], "%s:parse_http_date format" % UTILS)
    lines = ["From Coq Require Import ZArith List String.\nImport ListNotations.\nOpen Scope string_scope.\n",
             "(* literals of DataClient.get_sessions and of utils.http_date / parse_http_date *)",
             "Definition K_valid_sites : list string := [%s]." % "; ".join(coq_str(x, "site") for x in sites),
             "Definition K_site_error : string := %s." % coq_str(exc_name, "exception"),
             "Definition K_endpoint : string := %s." % coq_str(consts["endpoint"], "endpoint"),
             "Definition K_ts_suffix : string := %s." % coq_str(consts["ts_suffix"], "suffix"),
             "Definition K_limit : string := %s." % coq_str(str(consts["limit"]), "limit"),
             "Definition K_limit_ts : string := %s." % coq_str(str(consts["limit_ts"]), "limit"),
             "Definition K_arg_cond : string := %s." % coq_str(consts["args"][0][1], "arg"),
             "Definition K_arg_project : string := %s." % coq_str(consts["args"][1][1], "arg"),
             "Definition K_arg_sort : string := %s." % coq_str(consts["args"][2][1], "arg"),
             "Definition K_arg_max_results : string := %s." % coq_str(consts["maxres"], "arg"),
             "Definition K_query_mark : string := %s." % coq_str(consts["qmark"], "qmark"),
             "Definition K_arg_sep : string := %s." % coq_str(consts["sep"], "sep"),
             "(* http_date = utc.strftime(K_strftime_prefix) + K_year_format % utc.year + utc.strftime(K_strftime_suffix) *)",
             "Definition K_strftime_prefix : string := %s." % coq_str(fmts["pre"], "format"),
             "Definition K_year_format : string := %s." % coq_str(fmts["year"], "format"),
             "Definition K_strftime_suffix : string := %s." % coq_str(fmts["suf"], "format"),
             "Definition K_strptime_format : string := %s." % coq_str(fmts["parse"], "format"), ""]
    return "\n".join(lines)


def broken(e):
    return "(* UNTRANSLATABLE: %s *)\nDefinition untranslatable : True := 0.\n" % str(e).replace("*)", "* )")


def generate(repo):
    res = []
    try:
        text, info = tariffs_v(repo)
        info = info + shape_info(repo, SHAPES)
    except (Untranslatable, OSError, ValueError) as e:
        text, info = broken(e), [dict(name="Tariffs", error=str(e))]
    res.append(("Tariffs.v", text, info))
    for dom, specs in (("Z", Z_ANCHORS), ("Q", Q_ANCHORS)):
        try:
            text, info = translate_group(repo, specs, dom)
        except (Untranslatable, OSError, SyntaxError) as e:
            text, info = broken(e), [dict(name="TariffK_" + dom, error=str(e))]
        res.append(("TariffK_%s.v" % dom, text, info))
    try:
        info = shape_info(repo, CLIENT_SHAPES)
        text = ("(* hand-modelled acndata functions (Model/Client.v); fingerprints are in anchors.json *)\n"
                + client_constants(repo))
    except (Untranslatable, OSError, SyntaxError, AttributeError, IndexError) as e:
        text, info = broken(e), [dict(name="ClientShape", error=str(e))]
    res.append(("ClientShape.v", text, info))
    return res


if __name__ == "__main__":
    import sys
    for fname, text, info in generate(os.environ.get("ACN_REPO", "/repo")):
        print("=" * 20, fname)
        print(text)
