"""Anchors for EVSE / battery / EV kernels (C02, C03, C13, C14)."""
EVSE = "acnportal/acnsim/models/evse.py"
BATT = "acnportal/acnsim/models/battery.py"
EVPY = "acnportal/acnsim/models/ev.py"

NOISE = {"np.random.normal": ("noise", "num")}

GROUPS = {
    # ------------------------------------------------------------------ EVSE acceptance predicates
    "Evse": dict(domains=["Q", "R"], anchors=[
        dict(name="EVSE_valid_rate", file=EVSE, qual="EVSE._valid_rate", inline_defaults=["atol"],
             inline_props={"min_rate": "EVSE.min_rate", "max_rate": "EVSE.max_rate"}),
        dict(name="DeadbandEVSE_valid_rate", file=EVSE, qual="DeadbandEVSE._valid_rate",
             inline_defaults=["atol"], inline_props={"max_rate": "DeadbandEVSE.max_rate"}),
        dict(name="FiniteRatesEVSE_valid_rate", file=EVSE, qual="FiniteRatesEVSE._valid_rate",
             inline_defaults=["atol"], types={"self.allowable_rates": "numlist"}),
        # set_pilot: validity is an input (wired to the class's _valid_rate by the model); the call
        # to the connected EV is an effect
        dict(name="BaseEVSE_set_pilot", file=EVSE, qual="BaseEVSE.set_pilot",
             types={"self._ev": "optZ"}, call_params={"self._valid_rate": ("valid", "bool")},
             effects=["self._ev.charge"]),
    ]),
    "EvseZ": dict(domains=["Z"], anchors=[
        dict(name="BaseEVSE_plugin", file=EVSE, qual="BaseEVSE.plugin", types={"self._ev": "optZ"},
             inline_props={"ev": "BaseEVSE.ev"}),
        dict(name="BaseEVSE_unplug", file=EVSE, qual="BaseEVSE.unplug", types={"self._ev": "optZ"}),
    ]),
    # ------------------------------------------------------------------ battery / EV kernels
    "Battery": dict(domains=["Q", "R"], anchors=[
        dict(name="Battery_charge", file=BATT, qual="Battery.charge"),
        # Q twin: exp is Base.QExp.qexp_fast (= Num.qexp, proved; 10x faster under vm_compute)
        dict(name="L2_charge", file=BATT, qual="Linear2StageBattery._charge",
             inline_props={"_soc": "Battery._soc"}, call_params=NOISE,
             ops_override={"Q": {"exp": "qexp_fast"}}, imports={"Q": "From ACN Require Import Base.QExp."}),
        dict(name="L2_charge_stepwise", file=BATT, qual="Linear2StageBattery._charge_stepwise",
             inline_props={"_soc": "Battery._soc"}, call_params=NOISE),
        dict(name="EV_charge", file=EVPY, qual="EV.charge",
             call_params={"self._battery.charge": ("charge_rate_in", "num")}),
        dict(name="EV_remaining_demand", file=EVPY, qual="EV.remaining_demand",
             inline_props={"requested_energy": "EV.requested_energy", "energy_delivered": "EV.energy_delivered"}),
        dict(name="EV_fully_charged", file=EVPY, qual="EV.fully_charged",
             inline_props={"remaining_demand": "EV.remaining_demand", "requested_energy": "EV.requested_energy",
                           "energy_delivered": "EV.energy_delivered"}),
    ]),
}
