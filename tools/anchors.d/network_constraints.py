"""Anchors for the constraint book-keeping of ChargingNetwork and the Current class (C12).
The code is loops + pandas calls, which py2coq does not translate; tools/gen_c12.py reads its shape
(guards, exception classes, name formats, statement order, operators defined) into coq/Gen/C12Shape.v."""
GROUPS = {}
EXTRA_GENERATORS = ["gen_c12"]
