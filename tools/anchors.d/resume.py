"""Anchors for C09 (interrupted / serialised / resumed runs)."""
SIM = "acnportal/acnsim/simulator.py"
EVQ = "acnportal/acnsim/events/event_queue.py"
EVT = "acnportal/acnsim/events/event.py"

_SIMTYPES = {"self._resolve": "bool", "self.max_recompute": "optZ", "self._last_schedule_update": "optZ"}

GROUPS = {
    "ResumeZ": dict(domains=["Z"], anchors=[
        # `while not self.event_queue.empty() or self._resolve:`
        dict(name="Run_guard", file=SIM, qual="Simulator.run", expr_path="body[2].test",
             types=_SIMTYPES, call_params={"self.event_queue.empty": ("queue_empty", "bool")}),
        # the recompute condition guarding `self.scheduler.run()`
        dict(name="Run_recompute", file=SIM, qual="Simulator.run", expr_path="body[2].body[2].test",
             types=_SIMTYPES),
        # `self._iteration = self._iteration + 1`
        dict(name="Run_next_iteration", file=SIM, qual="Simulator.run", expr_path="body[2].body[9].value",
             types=_SIMTYPES),
        # `while not self.empty() and self._queue[0][0] <= self._timestep` in get_current_events
        dict(name="EventQueue_is_current", file=EVQ, qual="EventQueue.get_current_events",
             expr_path="body[3].test", types={"self._queue[0][0]": "num"},
             call_params={"self.empty": ("is_empty", "bool")}),
        # Event.__lt__ : precedence order used by the (timestamp, event) heap entries
        dict(name="Event_lt", file=EVT, qual="Event.__lt__", types={"other.precedence": "num"}),
    ]),
}
EXTRA_GENERATORS = ["serial_gen"]
