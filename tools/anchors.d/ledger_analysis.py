"""Anchors for the energy ledger (C02) and the analysis functions (C18).

Loops / numpy reductions are hand-modelled (Model/Ledger.v, Model/Analysis.v); the scalar
expressions inside them are translated by AST path, so that a change of the vacant-station
default, of the peak update, of the NEMA formula, of a threshold comparison or of the datetime
offset changes coq/Gen/Ledger_*.v and hence the model the theorems are about."""
SIM = "acnportal/acnsim/simulator.py"
NET = "acnportal/acnsim/network/charging_network.py"
ANA = "acnportal/acnsim/analysis/__init__.py"

GROUPS = {
    "Ledger": dict(domains=["Q", "R"], anchors=[
        # element of ChargingNetwork.current_charging_rates:
        #   evse.ev.current_charging_rate if evse.ev is not None else 0
        dict(name="CN_current_rate_elt", file=NET, qual="ChargingNetwork.current_charging_rates",
             only_used_args=True, expr_path="body[1].value.args[0].elt",
             types={"evse.ev": "optnum", "evse.ev.current_charging_rate": "num"}),
        # Simulator._store_actual_charging_rates:  self.peak = max(self.peak, agg)
        dict(name="Sim_peak_update", file=SIM, qual="Simulator._store_actual_charging_rates",
             only_used_args=True, expr_path="body[4].value", types={"agg": "num"}),
        # Simulator.__init__:  self.peak = 0
        dict(name="Sim_peak_init", file=SIM, qual="Simulator.__init__", only_used_args=True, expr_path="body[12].value"),
    ]),
    "Analysis": dict(domains=["Q", "R"], anchors=[
        # aggregate_power: <voltages . rates> / 1000   (the dot product is hand-modelled)
        dict(name="An_power_scale", file=ANA, qual="aggregate_power", only_used_args=True, expr_path="body[1].value",
             call_params={"sim.network._voltages.T.dot": ("dot", "num")}),
        # constraint_currents: the test deciding whether np.abs is applied (`not return_magnitudes`)
        dict(name="An_abs_applied", file=ANA, qual="constraint_currents", only_used_args=True, expr_path="body[3].test",
             types={"return_magnitudes": "bool"}),
        # proportion_of_energy_delivered: total_delivered / total_requested
        dict(name="An_proportion", file=ANA, qual="proportion_of_energy_delivered", only_used_args=True, expr_path="body[3].value",
             types={"total_delivered": "num", "total_requested": "num"}),
        # proportion_of_demands_met: ev.remaining_demand < threshold   (filter of the generator)
        dict(name="An_demand_met", file=ANA, qual="proportion_of_demands_met",
             only_used_args=True, expr_path="body[1].value.args[0].generators[0].ifs[0]",
             types={"ev.remaining_demand": "num"}),
        # proportion_of_demands_met: finished / len(sim.ev_history)
        dict(name="An_demands_ratio", file=ANA, qual="proportion_of_demands_met", only_used_args=True, expr_path="body[2].value",
             types={"finished": "num"}, call_params={"len": ("n_sessions", "num")}),
        # _nema_current_unbalance: (max - mean) / mean   (np.max / np.mean per period are hand-modelled)
        dict(name="An_nema", file=ANA, qual="_nema_current_unbalance", only_used_args=True, expr_path="body[3].value",
             call_params={"np.max": ("mx", "num"), "np.mean": ("mean", "num")}),
        # energy_cost: <prices . aggregate power> * (sim.period / 60)   (the dot product is hand-modelled)
        dict(name="An_energy_cost", file=ANA, qual="energy_cost", only_used_args=True, expr_path="body[4].value",
             types={"sim.period": "num"}, call_params={"np.array(energy_costs).dot": ("dot", "num")}),
        # demand_charge: dc * max(aggregate power)
        dict(name="An_demand_charge", file=ANA, qual="demand_charge", only_used_args=True, expr_path="body[4].value",
             types={"dc": "num"}, call_params={"np.max": ("mx", "num")}),
        # datetimes_array: minutes offset of entry i  = sim.period * i
        dict(name="An_minutes", file=ANA, qual="datetimes_array",
             only_used_args=True, expr_path="body[3].value.args[0].elt.args[0].right.keywords[0].value",
             types={"sim.period": "num", "i": "num"}),
    ]),
}
