"""Anchors for the feasibility checkers (C06) and the site limit formulas (C16)."""
NET = "acnportal/acnsim/network/charging_network.py"
UTL = "acnportal/algorithms/utils.py"
CAL = "acnportal/acnsim/network/sites/caltech_acn.py"
JPL = "acnportal/acnsim/network/sites/jpl_acn.py"
OFF = "acnportal/acnsim/network/sites/office001_acn.py"

LIM = "infrastructure.constraint_limits"

GROUPS = {
    "Feas": dict(domains=["Q", "R"], anchors=[
        # ChargingNetwork.is_feasible: rel_magnitude_tol = self.magnitudes * relative_tolerance  (element-wise)
        dict(name="Net_rel_tol", file=NET, qual="ChargingNetwork.is_feasible", expr_path="body[3].value",
             prune_params=True),
        # ... self.magnitudes + np.maximum(violation_tolerance, rel_magnitude_tol)   (element-wise)
        dict(name="Net_rhs", file=NET, qual="ChargingNetwork.is_feasible",
             expr_path="body[7].value.args[0].left.value.args[0]",
             types={"rel_magnitude_tol": "num"}, prune_params=True),
        # constructor defaults of the network tolerances
        dict(name="Net_default_vt", file=NET, qual="ChargingNetwork.__init__", expr_path="body[6].value",
             inline_defaults=["violation_tolerance", "relative_tolerance"], prune_params=True),
        dict(name="Net_default_rt", file=NET, qual="ChargingNetwork.__init__", expr_path="body[7].value",
             inline_defaults=["violation_tolerance", "relative_tolerance"], prune_params=True),
        # algorithms.utils.infrastructure_constraints_feasible: tol = np.maximum(vt, rt * limits)
        dict(name="Utils_tol", file=UTL, qual="infrastructure_constraints_feasible", expr_path="body[1].value",
             types={LIM: "num"}, prune_params=True),
        # the same with the (hard-coded) default tolerances, which is what every algorithm uses
        dict(name="Utils_tol_default", file=UTL, qual="infrastructure_constraints_feasible",
             expr_path="body[1].value", types={LIM: "num"},
             inline_defaults=["violation_tolerance", "relative_tolerance"], prune_params=True),
        # the default tolerances as they appear in that expression
        dict(name="Utils_default_vt", file=UTL, qual="infrastructure_constraints_feasible",
             expr_path="body[1].value.args[0]",
             inline_defaults=["violation_tolerance", "relative_tolerance"], prune_params=True),
        dict(name="Utils_default_rt", file=UTL, qual="infrastructure_constraints_feasible",
             expr_path="body[1].value.args[1].left",
             inline_defaults=["violation_tolerance", "relative_tolerance"], prune_params=True),
        # the comparison of both branches: line_currents <= limits[j] + tol[j]
        dict(name="Utils_ok_phasor", file=UTL, qual="infrastructure_constraints_feasible",
             expr_path="body[2].body[1].body[2].test.operand.args[0]",
             types={LIM + "[j]": "num", "tol[j]": "num", "line_currents": "num"}, prune_params=True),
        dict(name="Utils_ok_linear", file=UTL, qual="infrastructure_constraints_feasible",
             expr_path="body[2].orelse[0].body[1].test.operand.args[0]",
             types={LIM + "[j]": "num", "tol[j]": "num", "line_currents": "num"}, prune_params=True),
    ]),
}

# ---------------------------------------------------------------------------------------------
# C16: the secondary-side limit formulas of the three site factories (symbolic in the capacity),
# and the dump of the executed factories (tools/dump_sites.py -> coq/Gen/Sites.v)
GROUPS["SiteLim"] = dict(domains=["Q", "R"], anchors=[
    dict(name="Caltech_secondary", file=CAL, qual="caltech_acn", expr_path="body[23].value", prune_params=True),
    dict(name="Office_secondary", file=OFF, qual="office001_acn", expr_path="body[19].value", prune_params=True),
    dict(name="Jpl_secondary", file=JPL, qual="jpl_acn._delta_wye_transformer", expr_path="body[4].value",
         inline_defaults=["secondary_voltage"], prune_params=True),
])
EXTRA_GENERATORS = ["dump_sites"]
