"""Anchors for the pilot-signal matrix (C04): the scalar decisions and index expressions of
Simulator._update_schedules, _increase_width, the width logic of Simulator.run and the column read of
ChargingNetwork.update_pilots.  Loops / numpy block operations are modelled by hand in
coq/Model/Pilots.v, which *calls* every kernel below."""
SIM = "acnportal/acnsim/simulator.py"
NET = "acnportal/acnsim/network/charging_network.py"

_T = {"schedule_length": "num", "self.pilot_signals.shape[1]": "num", "last_timestamp": "optZ",
      "a.shape[1]": "num"}
_U = "Simulator._update_schedules"


def _x(name, qual, path, file=SIM, **kw):
    return dict(name=name, file=file, qual=qual, expr_path=path, types=_T, only_used_args=True, **kw)


GROUPS = {
    "Pilots": dict(domains=["Z"], anchors=[
        # if len(new_schedule) == 0: return
        _x("Sim_upd_is_empty", _U, "body[1].test", call_params={"len": ("n_entries", "num")}),
        # if len(schedule_lengths) > 1: raise InvalidScheduleError
        _x("Sim_upd_ragged", _U, "body[4].test", call_params={"len": ("n_lengths", "num")}),
        # if self._iteration + schedule_length <= self.pilot_signals.shape[1]:
        _x("Sim_upd_fits", _U, "body[8].test"),
        # self.pilot_signals[:, LO:HI] = schedule_matrix      (fitting branch)
        _x("Sim_upd_lo", _U, "body[8].body[0].targets[0].slice.elts[1].lower"),
        _x("Sim_upd_hi", _U, "body[8].body[0].targets[0].slice.elts[1].upper"),
        # _increase_width(self.pilot_signals, max(last_timestamp + 1 if last_timestamp is not None else 0, ...))
        _x("Sim_upd_grow_width", _U, "body[8].orelse[1].value.args[1]"),
        # self.pilot_signals[:, LO:HI] = schedule_matrix      (growth branch)
        _x("Sim_upd_glo", _U, "body[8].orelse[2].targets[0].slice.elts[1].lower"),
        _x("Sim_upd_ghi", _U, "body[8].orelse[2].targets[0].slice.elts[1].upper"),
        # _increase_width: if target_width <= a.shape[1]: return a
        _x("Sim_incw_keep", "_increase_width", "body[1].test"),
        # run(): if not self.event_queue.empty(): width_increase = get_last_timestamp() + 1 else: ... = self._iteration + 1
        dict(name="Sim_run_width_increase", file=SIM, qual="Simulator.run", stmt_path="body[2].body[3]",
             result="width_increase", only_used_args=True,
             call_params={"self.event_queue.empty": ("queue_empty", "bool"),
                          "self.event_queue.get_last_timestamp": ("last_ts", "num")}),
        # self._iteration = self._iteration + 1
        _x("Sim_run_next_iteration", "Simulator.run", "body[2].body[9].value"),
        # update_pilots: new_rate = pilots[station_number, i]   (the column that is sent)
        _x("Net_update_pilots_col", "ChargingNetwork.update_pilots", "body[2].body[0].value.slice.elts[1]", file=NET),
    ]),
}
