"""Anchors for the discrete skeleton of Simulator.run (C01, C05): event order, loop guards,
recompute condition, _process_event (effects as data), network plugin/unplug, Interface guards.

Everything here is over Z.  Objects (EVs, schedules, the pilot matrix) appear as opaque integer
identifiers; calls on collaborators are recorded as effects that Model/SimSkel.v interprets.
"""
SIM = "acnportal/acnsim/simulator.py"
EVT = "acnportal/acnsim/events/event.py"
EVQ = "acnportal/acnsim/events/event_queue.py"
NET = "acnportal/acnsim/network/charging_network.py"
IFC = "acnportal/acnsim/interface.py"

# the enumeration used for `event.event_type == "<literal>"`; tools/sim_params.py emits the code of
# each Event subclass's own event_type string under the same table
EVENT_TYPES = {"Plugin": 0, "Unplug": 1, "Recompute": 2}

EVENT_ATTRS = {"event.ev": "num", "event.ev.session_id": "num", "event.ev.departure": "num",
               "event.ev.station_id": "num", "event.timestamp": "num"}

GROUPS = {
    "Sim": dict(domains=["Z"], anchors=[
        # heap entries are (timestamp, event) tuples; ties on the timestamp are broken by Event.__lt__
        dict(name="Event_lt", file=EVT, qual="Event.__lt__", types={"other.precedence": "num"}),
        # `while not self.empty() and self._queue[0][0] <= self._timestep`
        dict(name="EventQueue_current_guard", file=EVQ, qual="EventQueue.get_current_events",
             expr_path="body[3].test", call_params={"self.empty": ("queue_empty", "bool")},
             types={"self._queue[0][0]": "num"}, names={"self._queue[0][0]": "head_timestamp"}),
        # `while not self.event_queue.empty() or self._resolve`
        dict(name="Simulator_run_guard", file=SIM, qual="Simulator.run", expr_path="body[2].test",
             call_params={"self.event_queue.empty": ("queue_empty", "bool")}, types={"self._resolve": "bool"}),
        # the recompute condition
        dict(name="Simulator_recompute_cond", file=SIM, qual="Simulator.run", expr_path="body[2].body[2].test",
             types={"self._resolve": "bool", "self.max_recompute": "optZ", "self._last_schedule_update": "optZ"}),
        # body of `if <recompute>`, in three consecutive pieces so that the POSITION of each write matters:
        #   pre  = what is written before the scheduler is called (`self._resolve = True`: a resolve stays
        #          pending while the scheduler runs, so an interrupted run can be resumed in this period);
        #   mid  = scheduler.run(); _update_schedules(...); schedule_history  (no flag is written here);
        #   post = bookkeeping once the schedule is applied (`_last_schedule_update = _iteration; _resolve = False`).
        # Model/SimSkel.v reads `_resolve` from pre and `_last_schedule_update`, `_resolve` from post: moving or
        # dropping either final write leaves the post record without that field and the model stops compiling.
        dict(name="Simulator_schedule_pre", file=SIM, qual="Simulator.run", stmt_path="body[2].body[2].body[0:1]",
             types={"self._resolve": "bool"}),
        dict(name="Simulator_schedule_mid", file=SIM, qual="Simulator.run", stmt_path="body[2].body[2].body[1:4]",
             call_params={"self.scheduler.run": ("schedule_in", "num")},
             types={"self.schedule_history": "optZ"},
             effects=["self._update_schedules", "self.schedule_history"], setitem_effects=["self.schedule_history"]),
        dict(name="Simulator_schedule_post", file=SIM, qual="Simulator.run", stmt_path="body[2].body[2].body[4:6]",
             types={"self._resolve": "bool", "self._last_schedule_update": "optZ"}),
        # tail of the loop body: update_pilots; store rates; post_charging_update; advance
        dict(name="Simulator_step_tail", file=SIM, qual="Simulator.run", stmt_path="body[2].body[6:10]",
             types={"self.pilot_signals": "num"},
             effects=["self.network.update_pilots", "self._store_actual_charging_rates",
                      "self.network.post_charging_update"]),
        # _process_event: branch structure, flags, and the collaborator calls in order
        dict(name="Simulator_process_event", file=SIM, qual="Simulator._process_event",
             types=dict(EVENT_ATTRS, **{"self._resolve": "bool", "self._last_schedule_update": "optZ"}),
             str_enums={"event.event_type": EVENT_TYPES}, drop_calls=["self._print"],
             effects=["self.network.plugin", "self.network.unplug", "self.event_queue.add_event", "self.ev_history"],
             effect_ctors=["UnplugEvent"], setitem_effects=["self.ev_history"]),
        # ChargingNetwork.plugin / unplug: registration test and session-checked unplug
        dict(name="ChargingNetwork_plugin", file=NET, qual="ChargingNetwork.plugin",
             types={"station_id": "optZ", "ev.station_id in self._EVSEs": "bool", "ev.station_id": "num"},
             names={"ev.station_id in self._EVSEs": "station_registered"},
             effects=["self._EVSEs[ev.station_id].plugin"]),
        dict(name="ChargingNetwork_unplug", file=NET, qual="ChargingNetwork.unplug", narrow_if=True,
             types={"session_id": "optZ", "station_id in self._EVSEs": "bool",
                    "self._EVSEs[station_id].ev": "optZ", "self._EVSEs[station_id].ev.session_id": "num"},
             names={"station_id in self._EVSEs": "station_registered", "self._EVSEs[station_id].ev": "occupant",
                    "self._EVSEs[station_id].ev.session_id": "occupant_session_id"},
             effects=["self._EVSEs[station_id].unplug"]),
        # Interface.last_applied_pilot_signals: i = iteration - 1; `if i > 0`; `if ev.arrival <= i`
        dict(name="Interface_lap_index", file=IFC, qual="Interface.last_applied_pilot_signals",
             expr_path="body[1].value", types={"self._simulator.iteration": "num"}, names={"self._simulator.iteration": "iteration"}),
        dict(name="Interface_lap_guard", file=IFC, qual="Interface.last_applied_pilot_signals",
             expr_path="body[2].test", types={"i": "num"}),
        dict(name="Interface_lap_filter", file=IFC, qual="Interface.last_applied_pilot_signals",
             expr_path="body[2].body[0].value.generators[0].ifs[0]", types={"i": "num", "ev.arrival": "num"}),
        # SessionInfo.__init__ rejects departure <= arrival and estimated_departure <= arrival
        dict(name="SessionInfo_bad_departure", file=IFC, qual="SessionInfo.__init__", expr_path="body[6].test"),
        dict(name="SessionInfo_bad_estimate", file=IFC, qual="SessionInfo.__init__", expr_path="body[8].test"),
        # derived SessionInfo fields shown to the scheduler
        dict(name="SessionInfo_remaining_time", file=IFC, qual="SessionInfo.remaining_time"),
        dict(name="SessionInfo_arrival_offset", file=IFC, qual="SessionInfo.arrival_offset"),
    ]),
}

for _a in GROUPS["Sim"]["anchors"]:
    _a["prune_args"] = True

EXTRA_GENERATORS = ["sim_params"]
