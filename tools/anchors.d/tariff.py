"""Anchors for C17 (tariffs) and C20 (ACN-Data client).

All C17 material is produced by the extra generator tools/dump_tariffs.py (JSON data -> Gen/Tariffs.v,
translated expressions -> Gen/TariffK_Z.v / Gen/TariffK_Q.v, fingerprints of the hand-modelled functions)."""
GROUPS = {}
EXTRA_GENERATORS = ["dump_tariffs"]
