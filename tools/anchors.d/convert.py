"""Anchors for session generation and the two-stage capacity fit (C15).

Convert (Q only; integer sub-expressions are typed Z):
  acndata_events._datetime_to_timestamp   whole function (dt.timestamp() is a parameter)
  acndata_events._convert_to_ev           statements 1..4 (arrival, departure, max_len cap, force_feasible min)
  acndata_events.get_evs / _convert_to_ev the wiring of the helper calls is hand-modelled (Model/Convert.v)
  stochastic_events._convert_ev_matrix    period_per_hour, the invalid-row test, loop-body statements 2..5
  stochastic_events.clip_samples          the three np.clip expressions
Fit (Q and R): batt_cap_fn
  _get_init_cap                           whole function; the two nested helpers are parameters (d0, bs)
  delta_soc_from_init_soc                 whole function (closure variables become parameters)
  binsearch                               body expressions (the recursion itself is hand-written with fuel)
  ladder loop                             the two tests; potential_caps by tools/gen_fitconst.py
"""
ACN = "acnportal/acnsim/events/acndata_events.py"
STO = "acnportal/acnsim/events/stochastic_events.py"
BATT = "acnportal/acnsim/models/battery.py"

GIC = "batt_cap_fn._get_init_cap"
CLOSURE = {"requested_energy": "num", "stay_dur": "num", "voltage": "num", "period": "num"}
LOCALS = dict(CLOSURE, delta_soc="num", max_dsoc="num", init_soc="num", battery_cap="num",
              transition_soc="num", max_rate="num")
BS = GIC + ".binsearch"
BS_T = {"mid": "num", "val": "num"}

GROUPS = {
    "Convert": dict(domains=["Q"], anchors=[
        dict(name="DT_timestamp", file=ACN, qual="_datetime_to_timestamp", prune_params=True,
             types={"round_up": "bool"}, call_params={"dt.timestamp": ("dt_ts", "num")}),
        # arrival / departure / max_len cap / force_feasible cap, in the order the code runs them
        dict(name="Conv_session", file=ACN, qual="_convert_to_ev", stmt_range=(1, 5),
             outputs=["arrival", "departure", "delivered_energy"],
             types={"offset": "Z", "max_len": "optZ", "force_feasible": "bool", "d['kWhDelivered']": "num"},
             call_params={"_datetime_to_timestamp": ("idx", "Z")}),
        # default battery sizing (no capacity_fn)
        dict(name="Conv_default_cap", file=ACN, qual="_convert_to_ev", expr_path="body[9].orelse[0].value",
             types={"delivered_energy": "num"}),
        dict(name="Conv_default_init", file=ACN, qual="_convert_to_ev", expr_path="body[9].orelse[1].value"),
        # ---- stochastic path
        dict(name="Stoch_pph", file=STO, qual="StochasticEvents._convert_ev_matrix", expr_path="body[1].value"),
        dict(name="Stoch_invalid", file=STO, qual="StochasticEvents._convert_ev_matrix",
             expr_path="body[3].body[1].test",
             types={"arrival": "num", "duration": "num", "energy_delivered": "num"}),
        dict(name="Stoch_row", file=STO, qual="StochasticEvents._convert_ev_matrix",
             stmt_path="body[3].body", stmt_range=(2, 6),
             outputs=["arrival", "departure", "energy_delivered", "duration"],
             types={"arrival": "num", "duration": "num", "energy_delivered": "num", "period_per_hour": "num",
                    "max_len": "optnum", "force_feasible": "bool"}),
        dict(name="Stoch_default_cap", file=STO, qual="StochasticEvents._convert_ev_matrix",
             expr_path="body[3].body[11].orelse[0].value", types={"energy_delivered": "num"}),
        dict(name="Stoch_default_init", file=STO, qual="StochasticEvents._convert_ev_matrix",
             expr_path="body[3].body[11].orelse[1].value"),
        dict(name="Stoch_day_shift", file=STO, qual="StochasticEvents.generate_events",
             expr_path="body[2].body[0].body[1].value", types={"d": "Z"}),
        dict(name="Clip_arrival", file=STO, qual="StochasticEvents.clip_samples", expr_path="body[1].value",
             types={"sample_matrix[:, 0]": "num"}),
        dict(name="Clip_duration", file=STO, qual="StochasticEvents.clip_samples", expr_path="body[2].value",
             types={"sample_matrix[:, 1]": "num"}),
        dict(name="Clip_energy", file=STO, qual="StochasticEvents.clip_samples", expr_path="body[3].value",
             types={"sample_matrix[:, 2]": "num"}),
        # Battery.__init__ guard
        dict(name="Battery_init_bad", file=BATT, qual="Battery.__init__", expr_path="body[0].test"),
    ]),
    "Fit": dict(domains=["Q", "R"], anchors=[
        dict(name="Fit_get_init_cap", file=BATT, qual=GIC, inline_defaults=["max_rate", "transition_soc"],
             types=CLOSURE, skip_nested_defs=True,
             call_params={"delta_soc_from_init_soc": ("d0", "num"), "binsearch": ("bs", "num")}),
        dict(name="Fit_delta_soc", file=BATT, qual=GIC, expr_path="body[1].value", types=LOCALS),
        dict(name="Fit_max_dsoc", file=BATT, qual=GIC, expr_path="body[2].value", types=LOCALS,
             inline_defaults=["max_rate"]),
        dict(name="Fit_cf_denom", file=BATT, qual=GIC, expr_path="body[3].value.right.right", types=LOCALS,
             inline_defaults=["transition_soc"]),
        dict(name="Fit_transition_soc", file=BATT, qual=GIC, expr_path="args.defaults[1]"),
        dict(name="Fit_max_rate", file=BATT, qual=GIC, expr_path="args.defaults[0]"),
        dict(name="Fit_delta_from", file=BATT, qual=GIC + ".delta_soc_from_init_soc",
             types={"stay_dur": "num", "transition_soc": "num", "max_dsoc": "num"}),
        dict(name="Fit_d0_arg", file=BATT, qual=GIC, expr_path="body[6].test.left.args[0]"),
        dict(name="Fit_bs_lb", file=BATT, qual=GIC, expr_path="body[8].value.args[1]", types=LOCALS,
             inline_defaults=["transition_soc"]),
        dict(name="Fit_bs_ub", file=BATT, qual=GIC, expr_path="body[8].value.args[2]"),
        dict(name="Fit_bs_target", file=BATT, qual=GIC, expr_path="body[8].value.args[3]", types=LOCALS),
        dict(name="Fit_bs_tol", file=BATT, qual=BS, expr_path="args.defaults[0]"),
        dict(name="Fit_bs_mid", file=BATT, qual=BS, expr_path="body[0].value"),
        dict(name="Fit_bs_done", file=BATT, qual=BS, expr_path="body[2].test", types=BS_T),
        dict(name="Fit_bs_up", file=BATT, qual=BS, expr_path="body[2].orelse[0].test", types=BS_T),
        dict(name="Fit_bs_up_lb", file=BATT, qual=BS, expr_path="body[2].orelse[0].body[0].value.args[1]", types=BS_T),
        dict(name="Fit_bs_up_ub", file=BATT, qual=BS, expr_path="body[2].orelse[0].body[0].value.args[2]", types=BS_T),
        dict(name="Fit_bs_dn_lb", file=BATT, qual=BS, expr_path="body[2].orelse[0].orelse[0].value.args[1]", types=BS_T),
        dict(name="Fit_bs_dn_ub", file=BATT, qual=BS, expr_path="body[2].orelse[0].orelse[0].value.args[2]", types=BS_T),
        dict(name="Fit_skip_cap", file=BATT, qual="batt_cap_fn", expr_path="body[3].body[0].test",
             types={"cap": "num"}),
        dict(name="Fit_accept_init", file=BATT, qual="batt_cap_fn", expr_path="body[3].body[2].test",
             types={"init": "num"}),
    ]),
}

# the two-stage kernel again, for the executable twin only: same source function as
# Gen/Battery_Q.v::L2_charge but with the fast fixed-point exp (a stay is up to hundreds of steps)
GROUPS["FitBatt"] = dict(domains=["Q"], anchors=[
    dict(name="L2f_charge", file=BATT, qual="Linear2StageBattery._charge",
         inline_props={"_soc": "Battery._soc"}, call_params={"np.random.normal": ("noise", "num")}),
])
GROUPS["Convert"]["anchors"][0]["q_coq_require"] = "Qround"       # Qceiling (int() / math.ceil)
for _a in GROUPS["Fit"]["anchors"] + GROUPS["FitBatt"]["anchors"]:
    _a["q_exp"] = "qexpf"
    _a["q_require"] = "Base.QExpFast"

EXTRA_GENERATORS = ["gen_fitconst"]

# addressed sub-expressions / statement runs take only the names they read as parameters
for _g in GROUPS.values():
    for _a in _g["anchors"]:
        if "expr_path" in _a or "stmt_range" in _a:
            _a.setdefault("prune_params", True)
