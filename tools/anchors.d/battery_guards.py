"""Anchors for battery constructor / reset guards and the two-stage dispatch (C03, C14).
The charge kernels themselves are in evse_battery.py (group "Battery")."""
BATT = "acnportal/acnsim/models/battery.py"
EVPY = "acnportal/acnsim/models/ev.py"

GROUPS = {
    "BatteryGuard": dict(domains=["Q", "R"], anchors=[
        # Battery.__init__: refuses init_charge > capacity; the self_* parameters are the (undefined)
        # attributes before construction and only appear in the error outcome
        dict(name="Battery_init", file=BATT, qual="Battery.__init__"),
        # Battery.reset(init_charge=None)
        dict(name="Battery_reset", file=BATT, qual="Battery.reset", types={"init_charge": "optnum"}),
        # Linear2StageBattery.__init__: the two transition_soc guards (the rest of the constructor is
        # attribute copying + a string-membership test, modelled by hand)
        dict(name="L2_init_ts_negative", file=BATT, qual="Linear2StageBattery.__init__",
             expr_path="body[2].test"),
        dict(name="L2_init_ts_ge_one", file=BATT, qual="Linear2StageBattery.__init__",
             expr_path="body[2].orelse[0].test"),
        # Linear2StageBattery.charge: which kernel runs for which charge_calculation; the two callee
        # results are parameters, so the model selects the kernel by feeding distinct tags
        dict(name="L2_dispatch", file=BATT, qual="Linear2StageBattery.charge",
             str_enums={"self.charge_calculation": {"continuous": 0, "stepwise": 1}},
             call_params={"self._charge_stepwise": ("r_stepwise", "num"), "self._charge": ("r_continuous", "num")}),
        # EV.reset: energy_delivered := 0 and battery.reset() (an effect)
        dict(name="EV_reset", file=EVPY, qual="EV.reset", effects=["self._battery.reset"]),
    ]),
}
