"""Anchors for the sorting-based algorithms (C07, C08): scalar expressions inside the hand-modelled
loops of sorted_algorithms.py / preprocessing.py / utils.py / upper_bound_estimator.py / interface.py.
Every anchor is regenerated from $ACN_REPO on each run; Model/Preproc.v and Model/Sorted.v call them."""
SA = "acnportal/algorithms/sorted_algorithms.py"
PRE = "acnportal/algorithms/preprocessing.py"
UT = "acnportal/algorithms/utils.py"
UBE = "acnportal/algorithms/upper_bound_estimator.py"
IFACE = "acnportal/acnsim/interface.py"

RAP = {"self.interface.remaining_amp_periods": ("rap", "num")}
MAX0 = {"session.max_rates[0]": "num", "session.min_rates[0]": "num"}
GREEDY = "SortedSchedulingAlgo.sorting_algorithm"
BIS = "SortedSchedulingAlgo.max_feasible_rate.bisection"
BIS_T = {"eps": "num", "mid": "num"}
RR = "RoundRobin.round_robin"
RR_T = dict(MAX0, **{"infrastructure.max_pilot[i]": "num", "allowable_pilots[i]": "num", "lb": "num", "ub": "num"})
RAMP = "SimpleRampdown.get_maximum_rates"
RAMP_T = {"previous_pilot": "num", "previous_rate": "num", "ub": "num", "max_pilot": "num"}
RAMP_IF = "body[3].body[1].body[3]"
IDX = {"infrastructure.get_station_index": ("station_index", "num")}

GROUPS = {
    "Sorted": dict(domains=["Q"], anchors=[
        # ---- greedy allocation loop (sorting_algorithm) ----
        dict(name="Greedy_init_lb", file=SA, qual=GREEDY, expr_path="body[3].body[1].value", types=MAX0),
        dict(name="Greedy_ub", file=SA, qual=GREEDY, expr_path="body[5].body[1].value", types=MAX0, call_params=RAP),
        dict(name="Greedy_lb", file=SA, qual=GREEDY, expr_path="body[5].body[2].value", types=MAX0),
        dict(name="Greedy_eps", file=SA, qual=GREEDY, expr_path="body[5].body[3].body[0].value.keywords[0].value"),
        dict(name="Greedy_level_ok", file=SA, qual=GREEDY,
             expr_path="body[5].body[3].orelse[0].value.generators[0].ifs[0]",
             types={"lb": "num", "a": "num", "ub": "num"}),
        # ---- bisection body (max_feasible_rate.bisection) ----
        dict(name="Bisect_mid", file=SA, qual=BIS, expr_path="body[1].value", types=BIS_T),
        dict(name="Bisect_stop", file=SA, qual=BIS, expr_path="body[4].test", types=BIS_T),
        dict(name="Bisect_ret", file=SA, qual=BIS, expr_path="body[4].body[0].value", types=BIS_T),
        dict(name="Bisect_feas_lo", file=SA, qual=BIS, expr_path="body[4].orelse[0].body[0].value.args[1]", types=BIS_T),
        dict(name="Bisect_feas_hi", file=SA, qual=BIS, expr_path="body[4].orelse[0].body[0].value.args[2]", types=BIS_T),
        dict(name="Bisect_infeas_lo", file=SA, qual=BIS, expr_path="body[4].orelse[0].orelse[0].value.args[1]", types=BIS_T),
        dict(name="Bisect_infeas_hi", file=SA, qual=BIS, expr_path="body[4].orelse[0].orelse[0].value.args[2]", types=BIS_T),
        # ---- round robin ----
        dict(name="RR_arange_start", file=SA, qual=RR, expr_path="body[5].body[1].body[0].value.args[0]", types=RR_T),
        dict(name="RR_arange_stop", file=SA, qual=RR, expr_path="body[5].body[1].body[0].value.args[1]", types=RR_T),
        dict(name="RR_arange_step", file=SA, qual=RR, expr_path="body[5].body[1].body[0].value.args[2]", types=RR_T),
        dict(name="RR_ub", file=SA, qual=RR, expr_path="body[5].body[2].value", types=RR_T, call_params=RAP),
        dict(name="RR_lb", file=SA, qual=RR, expr_path="body[5].body[3].value", types=RR_T),
        dict(name="RR_keep_lb", file=SA, qual=RR, expr_path="body[5].body[4].value.slice", types=RR_T),
        dict(name="RR_keep_ub", file=SA, qual=RR, expr_path="body[5].body[5].value.slice", types=RR_T),
        # ---- sort keys ----
        dict(name="Sort_fcfs_key", file=SA, qual="first_come_first_served",
             expr_path="body[1].value.keywords[0].value.body", types={"x.arrival": "num"}),
        dict(name="Sort_lcfs_key", file=SA, qual="last_come_first_served",
             expr_path="body[1].value.keywords[0].value.body", types={"x.arrival": "num"}),
        dict(name="Sort_lcfs_reverse", file=SA, qual="last_come_first_served",
             expr_path="body[1].value.keywords[1].value"),
        dict(name="Sort_edf_key", file=SA, qual="earliest_deadline_first",
             expr_path="body[1].value.keywords[0].value.body", types={"x.estimated_departure": "num"}),
        dict(name="Sort_laxity", file=SA, qual="least_laxity_first.laxity", expr_path="body[1].value",
             types={"ev.estimated_departure": "num", "iface.current_time": "num"},
             call_params={"iface.remaining_amp_periods": ("rap", "num"), "iface.max_pilot_signal": ("max_pilot", "num")}),
        dict(name="Sort_rpt", file=SA, qual="largest_remaining_processing_time.remaining_processing_time",
             expr_path="body[1].value",
             call_params={"iface.remaining_amp_periods": ("rap", "num"), "iface.max_pilot_signal": ("max_pilot", "num")}),
        dict(name="Sort_lrpt_reverse", file=SA, qual="largest_remaining_processing_time",
             expr_path="body[2].value.keywords[1].value"),
        # ---- algorithm-side feasibility check (utils.infrastructure_constraints_feasible) ----
        dict(name="Feas_tol", file=UT, qual="infrastructure_constraints_feasible", expr_path="body[1].value",
             inline_defaults=["violation_tolerance", "relative_tolerance"],
             types={"infrastructure.constraint_limits": "num"}),
        dict(name="Feas_within", file=UT, qual="infrastructure_constraints_feasible",
             expr_path="body[2].body[1].body[2].test.operand.args[0]",
             types={"line_currents": "num", "infrastructure.constraint_limits[j]": "num", "tol[j]": "num"}),
        dict(name="Feas_rhs", file=UT, qual="infrastructure_constraints_feasible",
             expr_path="body[2].body[1].body[2].test.operand.args[0].comparators[0]",
             types={"line_currents": "num", "infrastructure.constraint_limits[j]": "num", "tol[j]": "num"}),
        # ---- demand in amp-periods (both copies) ----
        dict(name="Utils_rap", file=UT, qual="remaining_amp_periods",
             types={"session.remaining_demand": "num", "infrastructure.voltages[i]": "num"},
             call_params={"infrastructure.get_station_index": ("i", "num")}),
        dict(name="Iface_to_amp_periods", file=IFACE, qual="Interface._convert_to_amp_periods",
             call_params={"self.evse_voltage": ("voltage", "num")}),
        dict(name="Session_remaining_demand", file=IFACE, qual="SessionInfo.remaining_demand"),
        # ---- preprocessing ----
        dict(name="Pre_threshold", file=PRE, qual="remove_finished_sessions", expr_path="body[2].body[1].value",
             types={"infrastructure.min_pilot[station_index]": "num", "infrastructure.voltages[station_index]": "num"}),
        dict(name="Pre_keep", file=PRE, qual="remove_finished_sessions", expr_path="body[2].body[2].test",
             types={"s.remaining_demand": "num", "threshold": "num"}),
        dict(name="Pre_pilot_limit", file=PRE, qual="enforce_pilot_limit", expr_path="body[1].body[1].value",
             types={"session.max_rates": "num", "infrastructure.max_pilot[i]": "num"}),
        dict(name="Pre_reconcile_mask", file=PRE, qual="reconcile_max_and_min", expr_path="body[1].value",
             types={"session.max_rates": "num", "session.min_rates": "num"}),
        dict(name="Pre_reconcile_choose_min", file=PRE, qual="reconcile_max_and_min", expr_path="args.defaults[0]"),
        dict(name="Pre_est_min", file=PRE, qual="apply_upper_bound_estimate", expr_path="body[3].body[0].value",
             types={"session.max_rates": "num"}, call_params={"upper_bounds.get": ("bound", "num")}),
        dict(name="Pre_min_ok", file=PRE, qual="apply_minimum_charging_rate", expr_path="body[4].body[2].test",
             types={"rates[i]": "num"},
             call_params={"remaining_amp_periods": ("rap", "num"), "infrastructure_constraints_feasible": ("feas", "bool")}),
        dict(name="Pre_min_new", file=PRE, qual="apply_minimum_charging_rate",
             expr_path="body[4].body[2].body[0].value", types={"rates[i]": "num", "session.min_rates[0]": "num"}),
        # ---- SimpleRampdown update rule ----
        dict(name="Ramp_down_test", file=UBE, qual=RAMP, expr_path=RAMP_IF + ".test", types=RAMP_T),
        dict(name="Ramp_down_val", file=UBE, qual=RAMP, expr_path=RAMP_IF + ".body[0].value", types=RAMP_T),
        dict(name="Ramp_up_test", file=UBE, qual=RAMP, expr_path=RAMP_IF + ".orelse[0].test", types=RAMP_T),
        dict(name="Ramp_up_inc", file=UBE, qual=RAMP, expr_path=RAMP_IF + ".orelse[0].body[0].value", types=RAMP_T),
        dict(name="Ramp_clip", file=UBE, qual=RAMP, expr_path="body[3].body[1].body[5].value", types=RAMP_T),
    ]),
    "SortedZ": dict(domains=["Z"], anchors=[
        dict(name="Session_remaining_time", file=IFACE, qual="SessionInfo.remaining_time"),
        dict(name="RR_can_raise", file=SA, qual=RR, expr_path="body[7].body[2].test",
             types={"rate_idx[i]": "num"}, call_params={"len": ("n_levels", "num")}),
    ]),
}
