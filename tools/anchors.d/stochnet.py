"""Anchors for C19: control skeletons of StochasticNetwork (plugin / unplug /
post_charging_update / available_evses) and ChargingNetwork.plugin -> coq/Gen/StochNet_Z.v.
The specs live in tools/stochnet_gen.py (they need two conventions beyond py2coq: opaque
sub-expressions and effect statements)."""
GROUPS = {}
EXTRA_GENERATORS = ["stochnet_gen"]
