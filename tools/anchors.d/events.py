"""Anchors for the event queue (C11): what acnportal itself contributes on top of heapq."""
EVPY = "acnportal/acnsim/events/event.py"
EQPY = "acnportal/acnsim/events/event_queue.py"

EMPTY = {"self.empty": ("is_empty", "bool")}

GROUPS = {
    "Events": dict(domains=["Z"], anchors=[
        # Event.__lt__ : self.precedence < other.precedence
        dict(name="Event_lt", file=EVPY, qual="Event.__lt__", types={"other.precedence": "num"},
             drop_args=["other"]),
        # EventQueue.empty : len(self._queue) == 0
        dict(name="EventQueue_empty", file=EQPY, qual="EventQueue.empty",
             call_params={"len": ("len_queue", "num")}),
        # the loop guard of get_current_events:
        #   not self.empty() and self._queue[0][0] <= self._timestep
        dict(name="EventQueue_current_guard", file=EQPY, qual="EventQueue.get_current_events",
             expr_path="body[3].test", call_params=EMPTY, drop_args=["timestep"],
             expr_params={"self._queue[0][0]": ("head_ts", "num")}),
        # get_last_timestamp: max timestamp if not empty else None (the max itself is hand-modelled)
        dict(name="EventQueue_get_last_timestamp", file=EQPY, qual="EventQueue.get_last_timestamp",
             ret="optnum", call_params=EMPTY,
             expr_params={"max(self._queue, key=lambda x: x[0])[0]": ("max_ts", "num")}),
    ]),
}
EXTRA_GENERATORS = ["gen_events"]
