#!/bin/bash
# Build the whole Coq development from files on disk (offline).  Regenerates coq/Gen from the repo first.
set -e
cd "$(dirname "$0")"
export ACN_REPO="${ACN_REPO:-/repo}"
export PYTHONPATH="$ACN_REPO:$PWD" PYTHONHASHSEED=0 PYTHONDONTWRITEBYTECODE=1 PYTHONWARNINGS=ignore
/venv/bin/python - <<'PY'
import sys, os
sys.path.insert(0, os.path.join(os.getcwd(), "tools"))
from harness import core
changed, errs = core.regen()
for e in errs:
    print("UNTRANSLATABLE", e)
ok, log = core.make([])
print(log[-3000:])
sys.exit(0 if ok else 1)
PY
