"""C20 — the ACN-Data client yields every session once, in order, and converts times faithfully.

Correspondence: the real DataClient.get_sessions / get_sessions_by_time and utils.http_date /
parse_http_date / parse_dates of $ACN_REPO, with `requests` (as imported by data_client.py) replaced by a fake
transport, against Model/Client.v (vm_compute).  Time-zone offsets given to the model come from the standard
library's zoneinfo (not from pytz), so the conversion done by the implementation is checked against an
independent oracle."""
import copy
import datetime as D
import re
import time

from harness import core
from harness.core import z, coq_list, coq_opt, coq_str, coq_bool

PID = "C20"
GEN_GROUPS = ["ClientShape"]
TARGETS = ["coq/Props/C20.vo", "coq/Model/Client.vo"]
CASES = {"quick": 700, "thorough": 2500}
CORR_HEADER = ("From Coq Require Import ZArith List String.\n"
               "From ACN Require Import Base.Num Model.Client.\nImport ListNotations.\n"
               "Open Scope string_scope.\nOpen Scope Z_scope.\n")
CHECK_FN = "check_c20"
SHARD = 60
RULE = ("corpus/C20 witnesses first (year-999 round trip, fixed in 87c5f78); 8 queries issued by a second interpreter with "
        "another PYTHONHASHSEED; families: single call on a fresh client / the same client reused for 2-4 consecutive calls "
        "(url and token changed in between) / 2-3 live generators of distinct clients advanced alternately / 2-3 generators of ONE client (different sites, multi-page) "
        "zipped or randomly interleaved, mixed with a generator of another client / lazy consumption of k sessions then close() / "
        "yielded documents scribbled over by the caller / count_sessions and get_sessions_by_time(count=True) / parse_dates called "
        "directly / the same timestamp string parsed into 2-3 zones consecutively / truthy-int flags / base URL without slash; fake transport serving 0..6 pages (empty pages, missing / surplus next links, responses running out) of "
        "documents with RFC-1123 fields and time series in 9 zones around DST transitions, near years 1 / 9999, "
        "non-date strings, malformed timestamps, missing / unknown time zones; every combination of site "
        "(valid / invalid) x cond x project x sort x timeseries; get_sessions_by_time with aware bounds; "
        "http_date / parse_http_date round trips on random instants in years 1..9999. non-trivial = distinct "
        "(operation, query, page structure, documents)")
ASSUMPTIONS = [
    "datetimes handed to http_date / get_sessions_by_time are tz-aware (a naive one is interpreted in the machine's local zone by CPython)",
    "strptime's leniencies (case-insensitive names, one-digit fields, runs of blanks) are outside the model; generators emit canonical RFC-1123 strings and clearly malformed ones",
    "a time zone is an oracle (zone name -> UTC instant -> offset); offsets for the model are taken from zoneinfo for instants in 1971..2037 and from fixed-offset zones elsewhere",
    "strftime('%a %b') in the C locale",
]
TRUSTED_EXTRA = ["the fake transport (harness/c20.py) standing in for requests / the ACN-Data server",
                 "zoneinfo (system tz database) as the offset oracle"]
EPOCH = 719163 * 86400          # model instant of 1970-01-01T00:00:00Z
MIN_T, MAX_T = 86400, 3652060 * 86400 - 1
DAYN = ["Mon", "Tue", "Wed", "Thu", "Fri", "Sat", "Sun"]
MONN = ["Jan", "Feb", "Mar", "Apr", "May", "Jun", "Jul", "Aug", "Sep", "Oct", "Nov", "Dec"]
DST_ZONES = ["America/Los_Angeles", "Europe/Berlin", "Australia/Sydney", "America/St_Johns", "America/New_York"]
FIXED_ZONES = {"UTC": 0, "Etc/GMT+8": -8 * 3600, "Etc/GMT-14": 14 * 3600, "Asia/Kolkata": 19800, "Asia/Kathmandu": 20700}


# ------------------------------------------------------------------------------------------------
# instants and independent formatting
# ------------------------------------------------------------------------------------------------
def naive_of(t):
    return D.datetime(1, 1, 1) + D.timedelta(seconds=t - 86400)


def secs_of(dt):
    """model seconds of the wall-clock fields of dt"""
    return dt.toordinal() * 86400 + dt.hour * 3600 + dt.minute * 60 + dt.second


def fmt_rfc1123(t):
    """RFC 1123 text of UTC instant t, written without strftime (what the API serves)"""
    dt = naive_of(t)
    return "%s, %02d %s %04d %02d:%02d:%02d GMT" % (DAYN[dt.weekday()], dt.day, MONN[dt.month - 1], dt.year,
                                                    dt.hour, dt.minute, dt.second)


def oracle_offset(zone, t):
    """utc offset (s) of `zone` at UTC instant t, from zoneinfo / the fixed table — never from pytz"""
    if zone in FIXED_ZONES:
        if zone in ("Asia/Kolkata", "Asia/Kathmandu") and not (EPOCH + 20 * 365 * 86400 <= t <= EPOCH + 68 * 365 * 86400):
            return None
        return FIXED_ZONES[zone]
    import zoneinfo
    if not (EPOCH + 366 * 86400 <= t <= EPOCH + 67 * 365 * 86400):
        return None
    dt = naive_of(t).replace(tzinfo=D.timezone.utc).astimezone(zoneinfo.ZoneInfo(zone))
    return int(dt.utcoffset().total_seconds())


def transitions(zone):
    """UTC instants (model seconds) of the DST transitions of zone in 1990..2030, by bisection on zoneinfo"""
    out = []
    lo = EPOCH + 20 * 365 * 86400
    step = 7 * 86400
    t, prev = lo, oracle_offset(zone, lo)
    while t < EPOCH + 60 * 365 * 86400:
        nxt = oracle_offset(zone, t + step)
        if nxt != prev:
            a, b = t, t + step
            while b - a > 1:
                m = (a + b) // 2
                if oracle_offset(zone, m) == prev:
                    a = m
                else:
                    b = m
            out.append(b)
        prev = nxt
        t += step
    return out


_trans = {}


def rand_instant_zone(rng):
    """(utc instant, zone) with the zone's offset known to the oracle"""
    r = rng.random()
    if r < 0.55:
        zone = rng.choice(DST_ZONES)
        if zone not in _trans:
            _trans[zone] = transitions(zone)
        if rng.random() < 0.6 and _trans[zone]:
            t = rng.choice(_trans[zone]) + rng.choice([-3601, -3600, -1, 0, 1, 3599, 3600, 7200, -7200])
        else:
            t = rng.randint(EPOCH + 2 * 365 * 86400, EPOCH + 66 * 365 * 86400)
        return t, zone
    if r < 0.8:
        zone = rng.choice(["Asia/Kolkata", "Asia/Kathmandu", "UTC", "Etc/GMT+8"])
        return rng.randint(EPOCH + 21 * 365 * 86400, EPOCH + 66 * 365 * 86400), zone
    zone = rng.choice(["UTC", "Etc/GMT+8", "Etc/GMT-14"])
    y = rng.choice([rng.randint(1, 9999), rng.randint(1, 1100), 1, 9999, 999, 1000])
    n = rng.randint(D.date(y, 1, 1).toordinal(), D.date(y, 12, 31).toordinal())
    t = n * 86400 + rng.randint(0, 86399)
    if rng.random() < 0.15:
        t = rng.choice([MIN_T, MIN_T + 8 * 3600 - 1, MIN_T + 8 * 3600, MAX_T, MAX_T - 14 * 3600, MAX_T - 14 * 3600 + 1])
    return t, zone


# ------------------------------------------------------------------------------------------------
# the implementation side
# ------------------------------------------------------------------------------------------------
class FakeResponse:
    def __init__(self, payload):
        self._payload = payload

    def json(self):
        return copy.deepcopy(self._payload)


class FakeHead:
    def __init__(self, total):
        self.headers = {} if total is None else {"x-total-count": total}


class Transport:
    """stands in for the `requests` module inside data_client.py.  Each route (a base URL) has its own finite
    list of responses: the k-th get() under that base returns its k-th payload.  Several routes can be live at
    once (two clients consumed alternately)."""

    def __init__(self):
        self.routes = []

    def route(self, base, payloads, total=None, marker=None):
        """marker: a substring (e.g. 'sessions/jpl') that tells apart several result sets served under ONE base URL
        (several generators of the same client)"""
        r = dict(base=base, payloads=payloads, calls=[], total=total, marker=marker)
        self.routes = [x for x in self.routes if (x["base"], x["marker"]) != (base, marker)] + [r]
        return r

    def _find(self, url):
        cands = [r for r in self.routes if url.startswith(r["base"]) and (r["marker"] is None or r["marker"] in url[len(r["base"]):])]
        if not cands:
            raise ConnectionError("fake transport: no route for %r" % url)
        return max(cands, key=lambda r: (len(r["base"]), r["marker"] is not None))

    def get(self, url, auth=None, **kw):
        r = self._find(url)
        r["calls"].append((url, auth))
        if len(r["calls"]) > len(r["payloads"]):
            raise ConnectionError("fake transport: no more responses")
        return FakeResponse(r["payloads"][len(r["calls"]) - 1])

    def head(self, url, headers=None, **kw):
        r = self._find(url)
        r["calls"].append((url, ("HEAD", dict(headers or {}))))
        return FakeHead(r["total"])


def exc_label(e):
    if isinstance(e, ConnectionError):
        return "transport"
    return type(e).__name__


class installed_transport:
    def __enter__(self):
        import acnportal.acndata.data_client as dc
        self.dc, self.real = dc, dc.requests
        dc.requests = self.t = Transport()
        return self.t

    def __exit__(self, *a):
        self.dc.requests = self.real


DEFAULT_BASE = "https://ev.caltech.edu/api/v1/"


def make_client(base, token):
    import acnportal.acndata.data_client as dc
    return dc.DataClient(token, base) if base is not None else dc.DataClient(token)


def step(run):
    """one next() on a running session; records a snapshot of the yielded document AT YIELD TIME, then (for
    some runs) the caller scribbles over the document it was handed"""
    if run["done"]:
        return
    try:
        if run["gen"] is None:
            run["gen"] = run["call"](run["client"])      # creating the generator runs nothing of get_sessions
        if run["take"] is not None and len(run["yielded"]) >= run["take"]:
            run["gen"].close()
            run["done"], run["err"] = True, "Suspended"
            return
        d = next(run["gen"])
    except StopIteration:
        run["done"] = True
        return
    except Exception as e:  # noqa
        run["done"], run["err"] = True, exc_label(e)
        return
    i = len(run["yielded"])
    flat, ids = run["flat"], run["ids"]
    run["yielded"].append(obs_doc(d))
    run["yielded_coq"].append(yielded_coq(flat[i] if i < len(flat) else {}, d, ids[i] if i < len(ids) else {}))
    if run["scribble"]:
        for k in list(d):
            if isinstance(d[k], dict) and "timestamps" in d[k]:
                d[k]["timestamps"][:] = []
        d.clear()
        d["_id"] = "scribbled"


def finish(run):
    while not run["done"]:
        step(run)


def run_client(base, token, call, payloads):
    """compatibility wrapper (replay): full consumption of one generator on a fresh client"""
    with installed_transport() as t:
        r = t.route(base if base is not None else DEFAULT_BASE, payloads)
        yielded, err = [], None
        try:
            for s_ in call(make_client(base, token)):
                yielded.append(s_)
        except Exception as e:  # noqa
            err = exc_label(e)
    return [c[0] for c in r["calls"]], [c[1] for c in r["calls"]], yielded, err


# ------------------------------------------------------------------------------------------------
# documents
# ------------------------------------------------------------------------------------------------
class Opaque:
    """numbering of non-string JSON values so that 'unchanged' can be checked in the model"""

    def __init__(self):
        self.vals = []

    def id(self, v):
        self.vals.append(v)
        return len(self.vals) - 1


BAD_DATES = ["Mon, 32 Jan 2019 00:00:00 GMT", "Tue, 30 Feb 2021 10:00:00 GMT", "Mon, 01 Jan 2019 24:00:00 GMT",
             "Mon, 01 Jan 2019 10:60:00 GMT", "Mon, 01 Jan 2019 10:00:60 GMT", "Mon, 01 Jan 2019 10:00:00 UTC",
             "Mon, 01 Jan 2019 10:00:00 GMT ", "Mon, 01 Jan 2019 10:00:00", "2019-01-01T10:00:00Z", "",
             "Mon, 01 Jan 0000 10:00:00 GMT", "Mon, 01 Foo 2019 10:00:00 GMT", "Xyz, 01 Jan 2019 10:00:00 GMT",
             "Mon 01 Jan 2019 10:00:00 GMT", "Mon, 01 Jan 19 10:00:00 GMT", "Mon, 01 Jan 02019 10:00:00 GMT",
             "Mon, 29 Feb 2019 10:00:00 GMT", "Mon, 00 Jan 2019 10:00:00 GMT", "Mon, 01 Jan 2019 1a:00:00 GMT"]


def rand_doc(rng, idx, timeseries, flaw=None):
    """returns (json doc, meta) where meta = dict(zone, dates={string: utc instant}) """
    t0, zone = rand_instant_zone(rng)
    dates = {}

    def date_at(t):
        t = min(max(t, MIN_T), MAX_T)
        s = fmt_rfc1123(t)
        if rng.random() < 0.08:     # strptime does not cross-check the day name
            s = rng.choice(DAYN) + s[3:]
        dates[s] = t
        return s

    doc = [("_id", "5bc9%08x" % rng.getrandbits(32)), ("sessionID", "2_39_%d_%d" % (idx, rng.randint(0, 999))),
           ("connectionTime", date_at(t0)), ("disconnectTime", date_at(t0 + rng.randint(0, 90000))),
           ("doneChargingTime", rng.choice([None, date_at(t0 + rng.randint(0, 40000))])),
           ("kWhDelivered", round(rng.uniform(0, 60), 3)), ("siteID", rng.choice(["0002", "0001"])),
           ("spaceID", "CA-%d" % rng.randint(300, 330)), ("stationID", "2-39-%d-%d" % (rng.randint(1, 99), rng.randint(1, 999))),
           ("clusterID", "0039"), ("timezone", zone),
           ("userID", rng.choice([None, "000%d" % rng.randint(100, 999)])),
           ("userInputs", rng.choice([None, [dict(kWhRequested=20.0, milesRequested=80, modifiedAt=date_at(t0 + 60))]]))]
    if rng.random() < 0.35:
        doc.append(("note", rng.choice(BAD_DATES)))
    if timeseries:
        # two or three series per session; a later series relates to the first one in every way that matters for a
        # "parse once, reuse" shortcut: identical list, same length and end points but other instants in between,
        # other length, other first / last sample
        n = rng.choice([0, 1, 3, 4, 6, 6])
        inst = [t0 + 300 * k + rng.choice([0, 0, 1, 4]) for k in range(n)]
        doc.append(("chargingCurrent", dict(current=[round(rng.uniform(0, 32), 2) for _ in inst],
                                            timestamps=[date_at(t) for t in inst])))
        for name in ["pilotSignal"] + (["voltage"] if rng.random() < 0.4 else []):
            mode = rng.choice(["same", "interior", "interior", "length", "ends", "empty"])
            other = list(inst)
            if mode == "interior" and n >= 3:
                for k in range(1, n - 1):
                    other[k] = inst[k] + rng.choice([7, 60, 149, -100, 3600])
                if rng.random() < 0.3:
                    other[1:n - 1] = sorted(other[1:n - 1], reverse=True)
            elif mode == "length":
                other = inst[:-1] if n and rng.random() < 0.5 else inst + [t0 + 300 * n + 30]
            elif mode == "ends" and n:
                other[rng.choice([0, -1])] += rng.choice([1, 15, -20])
            elif mode == "empty":
                other = []
            doc.append((name, {"timestamps": [date_at(t) for t in other],
                               ("pilot" if name == "pilotSignal" else "values"): [32.0] * len(other)}))
        if rng.random() < 0.3:
            doc.append(("extra", dict(values=[1, 2], unit="A")))      # a dict without timestamps
    if flaw == "no-timezone":
        doc = [kv for kv in doc if kv[0] != "timezone"]
    elif flaw == "unknown-timezone":
        doc = [(k, "Mars/Olympus_Mons" if k == "timezone" else v) for k, v in doc]
    elif flaw == "bad-timestamp" and timeseries:
        doc = [(k, dict(v, timestamps=v["timestamps"] + [rng.choice(BAD_DATES)]) if k == "chargingCurrent" else v)
               for k, v in doc]
    if rng.random() < 0.5:
        rng.shuffle(doc)
    return dict(doc), dict(zone=zone, dates=dates)


def jv_coq(v, opq):
    if isinstance(v, str):
        return "(JStr %s)" % coq_str(v)
    if isinstance(v, dict) and "timestamps" in v:
        return "(JSeries %s)" % coq_list([coq_str(x) for x in v["timestamps"]])
    return "(JOpaque %s)" % z(opq.id(v))


def doc_coq(doc, opq):
    return coq_list(["(%s, %s)" % (coq_str(k), jv_coq(v, opq)) for k, v in doc.items()])


def aware_coq(local, off, zone):
    return "{| a_local := %s; a_off := %s; a_zone := %s |}" % (z(local), z(off), coq_str(zone))


def dt_aware_coq(dt):
    """an aware datetime produced by the implementation, as the model's record: local from timestamp + offset"""
    off = int(dt.utcoffset().total_seconds())
    zone = getattr(dt.tzinfo, "zone", None) or str(dt.tzinfo)
    return aware_coq(secs_of(dt), off, zone)


def is_aware(v):
    return isinstance(v, D.datetime) and v.tzinfo is not None and v.utcoffset() is not None


def yielded_coq(orig, got, opq_ids):
    """the yielded (converted) document; opaque values keep their number iff they are unchanged"""
    items = []
    for k, v in got.items():
        o = orig.get(k)
        if is_aware(v):
            items.append("(%s, JDate %s)" % (coq_str(k), dt_aware_coq(v)))
        elif isinstance(v, str):
            items.append("(%s, JStr %s)" % (coq_str(k), coq_str(v)))
        elif isinstance(v, dict) and "timestamps" in v:
            ts = v["timestamps"]
            same_rest = isinstance(o, dict) and {a: b for a, b in v.items() if a != "timestamps"} == \
                {a: b for a, b in o.items() if a != "timestamps"}
            if all(is_aware(x) for x in ts) and same_rest:
                items.append("(%s, JSeriesP %s)" % (coq_str(k), coq_list([dt_aware_coq(x) for x in ts])))
            else:
                items.append("(%s, JOpaque (-1))" % coq_str(k))
        else:
            ident = opq_ids.get(k, -2)
            if not (type(v) is type(o) and v == o):
                ident = -1
            items.append("(%s, JOpaque %s)" % (coq_str(k), z(ident)))
    return coq_list(items)


def obs_doc(got):
    out = {}
    for k, v in got.items():
        if is_aware(v):
            out[k] = dict(ts=v.timestamp(), off=v.utcoffset().total_seconds(), zone=getattr(v.tzinfo, "zone", str(v.tzinfo)),
                          fields=secs_of(v))
        elif isinstance(v, dict) and "timestamps" in v:
            out[k] = dict(timestamps=[dict(ts=x.timestamp(), off=x.utcoffset().total_seconds(),
                                           zone=getattr(x.tzinfo, "zone", str(x.tzinfo)), fields=secs_of(x)) if is_aware(x) else repr(x)
                                      for x in v["timestamps"]], rest={a: b for a, b in v.items() if a != "timestamps"})
        else:
            out[k] = v
    return out


def tabs_for(metas):
    """oracle tables: zone -> [(utc instant, offset)] for every date string that occurs"""
    tabs = {}
    for m in metas:
        zone = m["zone"]
        for s, t in m["dates"].items():
            off = oracle_offset(zone, t)
            if off is None:
                off = 0
            tabs.setdefault(zone, {})[t] = off
    return tabs


def tabs_coq(tabs):
    return coq_list(["(%s, %s)" % (coq_str(zn), coq_list(["(%s, %s)" % (z(t), z(o)) for t, o in sorted(tab.items())]))
                     for zn, tab in sorted(tabs.items())])


# ------------------------------------------------------------------------------------------------
# cases
# ------------------------------------------------------------------------------------------------
SITES = ["caltech", "jpl", "office001"]
BAD_SITES = ["Caltech", "", "jpl ", "office01", "caltech/ts", "JPL"]
BASES = [None, "https://ev.caltech.edu/api/v1/", "http://localhost:5000/api/v1/", "http://h/", "http://noslash"]
CONDS = [None, None, "", 'connectionTime >= "Mon, 01 Oct 2018 00:00:00 GMT"', "kWhDelivered > 5 and userID != null",
         'connectionTime<="Tue, 01 Jan 2019 08:00:00 GMT" and kWhDelivered>=1.5']
PROJECTS = [None, None, None, '{"sessionID": 1, "kWhDelivered": 1}',
            '{"connectionTime":1,"kWhDelivered":1,"timezone":1}', '{"sessionID":1,"timezone":1,"disconnectTime":1}',
            '{"_id":0,"connectionTime":1,"doneChargingTime":1,"timezone":1,"chargingCurrent":1,"pilotSignal":1}',
            '{"_id":0,"sessionID":1,"timezone":1}', '{"kWhDelivered":1,"stationID":1}']


def apply_projection(project, payloads):
    """what the API serves for a `project` argument: only the listed fields (and _id unless switched off)"""
    import json
    try:
        spec = json.loads(project)
    except Exception:  # noqa
        return
    keep = {k for k, v in spec.items() if v}
    if spec.get("_id", 1):
        keep.add("_id")
    for p in payloads:
        p["_items"] = [{k: v for k, v in d.items() if k in keep} for d in p["_items"]]


def muddle_ids(rng, payloads):
    """session identifiers are data, not keys: duplicates across different documents, None, missing"""
    docs = [d for p in payloads for d in p["_items"]]
    if len(docs) < 2:
        return
    r = rng.random()
    if r < 0.35:
        v = docs[0].get("sessionID")
        for d in rng.sample(docs[1:], max(1, len(docs) // 2)):
            d["sessionID"] = v
    elif r < 0.55:
        for d in docs:
            d["sessionID"] = None
    elif r < 0.75:
        for d in rng.sample(docs, max(1, len(docs) // 2)):
            d.pop("sessionID", None)
    else:
        v = docs[-1].get("_id")
        for d in docs[:-1]:
            if rng.random() < 0.5:
                d["_id"] = v
SORTS = [None, None, "connectionTime", "-connectionTime", "kWhDelivered"]


def rand_pages(rng, timeseries):
    """returns (payloads, pages meta) — the finite list of responses the fake server will give"""
    r = rng.random()
    npages = rng.choice([0, 1, 1, 2, 3, 4, 6]) if r < 0.9 else 1
    shape = rng.choice(["chain"] * 7 + ["surplus-next", "early-stop", "extra-responses"])
    flaw_at = None
    if rng.random() < 0.15:
        flaw_at = rng.choice(["no-timezone", "unknown-timezone", "bad-timestamp"])
    payloads, metas, idx = [], [], 0
    flaw_page = rng.randrange(max(1, npages))
    for p in range(npages):
        nitems = rng.choice([0, 0, 1, 2, 3, 4]) if not timeseries else rng.choice([0, 1, 1, 1, 2])
        items = []
        for i in range(nitems):
            fl = flaw_at if (p == flaw_page and i == nitems // 2) else None
            d, m = rand_doc(rng, idx, timeseries, fl)
            idx += 1
            items.append(d)
            metas.append(m)
        links = dict(parent=dict(title="home", href="/"), self=dict(title="sessions", href="sessions/x"))
        has_next = p < npages - 1
        if shape == "surplus-next" and p == npages - 1:
            has_next = True
        if shape == "early-stop" and npages > 2 and p == 1:
            has_next = False
        if has_next:
            links["next"] = dict(title="next page", href=rng.choice(
                ["sessions/caltech?max_results=100&page=%d" % (p + 2), "sessions/jpl/ts/?page=%d&max_results=1" % (p + 2),
                 "next/%d" % (p + 2), ""]))
        payloads.append(dict(_items=items, _links=links, _meta=dict(page=p + 1, max_results=100, total=idx)))
    if shape == "extra-responses":
        payloads.append(dict(_items=[], _links=dict(self=dict(href="never-requested")), _meta={}))
    return payloads, metas


def pages_coq(payloads, opq):
    out = []
    for p in payloads:
        nxt = p["_links"].get("next")
        out.append("{| p_items := %s; p_next := %s |}" % (
            coq_list([doc_coq(d, opq) for d in p["_items"]]), coq_opt(None if nxt is None else nxt["href"], coq_str)))
    return coq_list(out)


def rand_spec(rng, by_time, base="?", token=None, site=None, multipage=False):
    """one get_sessions / get_sessions_by_time call with its server; nothing is executed here.
    site given: the result set is addressed under 'sessions/<site>' (every next href carries it), so that several
    generators of one client can be served side by side"""
    import pytz
    timeseries = rng.random() < 0.3
    payloads, metas = rand_pages(rng, timeseries)
    while multipage and (len(payloads) < 2 or sum(len(p["_items"]) for p in payloads) < 2):
        payloads, metas = rand_pages(rng, timeseries)
    if rng.random() < 0.25:
        muddle_ids(rng, payloads)
    if base == "?":
        base = rng.choice(BASES)
    if token is None:
        token = rng.choice(["tok", "DEMO_TOKEN", ""])
    if site is None:
        site = rng.choice(SITES) if rng.random() < 0.85 else rng.choice(BAD_SITES)
    else:
        for i, p_ in enumerate(payloads):
            if "next" in p_["_links"]:
                p_["_links"]["next"]["href"] = "sessions/%s%s?page=%d&max_results=%d" % (
                    site, "/ts/" if timeseries else "", i + 2, 1 if timeseries else 100)
    ts_arg = timeseries if rng.random() < 0.8 else (1 if timeseries else 0)      # truthy ints are legal flags
    spec = dict(by_time=by_time, base=base, token=token, site=site, timeseries=timeseries, payloads=payloads, metas=metas,
                take=None, scribble=rng.random() < 0.25)
    nitems = sum(len(p["_items"]) for p in payloads)
    if rng.random() < 0.3:
        spec["take"] = rng.choice([0, 1, 1, 2, max(nitems - 1, 0), nitems, nitems + 1, rng.randint(0, nitems + 1)])
    if not by_time:
        cond, project, sort = rng.choice(CONDS), rng.choice(PROJECTS), rng.choice(SORTS)
        kwargs = {}
        if cond is not None or rng.random() < 0.3:
            kwargs["cond"] = cond
        if project is not None:
            kwargs["project"] = project
        if sort is not None:
            kwargs["sort"] = sort
        if timeseries or rng.random() < 0.3:
            kwargs["timeseries"] = ts_arg
        if project is not None:
            apply_projection(project, payloads)
        spec.update(cond=cond, project=project, sort=sort, call=lambda c: c.get_sessions(site, **kwargs))
    else:
        def bound():
            if rng.random() < 0.25:
                return None
            t, zone = rand_instant_zone(rng)
            off = oracle_offset(zone, t) or 0
            if not (MIN_T <= t + off <= MAX_T):
                off, zone = 0, "UTC"
            return pytz.utc.localize(naive_of(t)).astimezone(pytz.timezone(zone)) if zone != "UTC" else pytz.utc.localize(naive_of(t))
        st, en = bound(), bound()
        me = rng.choice([None, None, 0, 5, 1.5, 10.25, 0.0])
        kw = dict(start=st, end=en, min_energy=me, timeseries=ts_arg)
        spec.update(start=st, end=en, min_energy=me, call=lambda c: c.get_sessions_by_time(site, **kw))
    return spec


def new_run(spec, client):
    payloads = spec["payloads"]
    ids, n = [], 0            # opaque ids per document/field, in the numbering order used by pages_coq
    for p in payloads:
        for d in p["_items"]:
            m = {}
            for k, v in d.items():
                if not isinstance(v, str) and not (isinstance(v, dict) and "timestamps" in v):
                    m[k] = n
                    n += 1
            ids.append(m)
    return dict(spec=spec, client=client, call=spec["call"], gen=None, done=False, err=None, yielded=[], yielded_coq=[],
                take=spec["take"], scribble=spec["scribble"], flat=[d for p in payloads for d in p["_items"]], ids=ids)


def case_of_run(run, route, family):
    spec = run["spec"]
    payloads, metas, base, site, timeseries = spec["payloads"], spec["metas"], spec["base"], spec["site"], spec["timeseries"]
    urls, auths = [c[0] for c in route["calls"]], [c[1] for c in route["calls"]]
    err = run["err"]
    pages_c = pages_coq(payloads, Opaque())
    base_c = coq_str(base if base is not None else DEFAULT_BASE)
    take_c = coq_opt(spec["take"], lambda k: "%d%%nat" % k)
    out_c = "Done" if err is None else ("Suspended" if err == "Suspended" else '(Raised "%s")' % err)
    exp_c = "{| t_requests := %s; t_yielded := %s; t_outcome := %s |}" % (
        coq_list([coq_str(u) for u in urls]), coq_list(run["yielded_coq"]), out_c)
    tabs_c = tabs_coq(tabs_for(metas))
    if not spec["by_time"]:
        qc = "{| q_site := %s; q_cond := %s; q_project := %s; q_sort := %s; q_timeseries := %s |}" % (
            coq_str(site), coq_opt(spec["cond"], coq_str), coq_opt(spec["project"], coq_str), coq_opt(spec["sort"], coq_str),
            coq_bool(timeseries))
        inp = dict(op="get_sessions", base=base, site=site, cond=spec["cond"], project=spec["project"], sort=spec["sort"],
                   timeseries=timeseries)
        coq = "(CRun %s %s %s %s %s %s)" % (tabs_c, base_c, qc, pages_c, take_c, exp_c)
    else:
        st, en, me = spec["start"], spec["end"], spec["min_energy"]
        inp = dict(op="get_sessions_by_time", base=base, site=site, start=str(st), end=str(en), min_energy=me,
                   timeseries=timeseries,
                   start_inst=None if st is None else secs_of(st) - int(st.utcoffset().total_seconds()),
                   end_inst=None if en is None else secs_of(en) - int(en.utcoffset().total_seconds()))
        coq = "(CRunByTime %s %s %s %s %s %s %s %s %s %s)" % (
            tabs_c, base_c, coq_str(site), coq_opt(st, dt_aware_coq), coq_opt(en, dt_aware_coq),
            coq_opt(None if me is None else "{0}".format(me), coq_str), coq_bool(timeseries), pages_c, take_c, exp_c)
    inp.update(pages=[dict(items=[d.get("sessionID") for d in p["_items"]], next=p["_links"].get("next", {}).get("href"))
                      for p in payloads], payloads=payloads, token=spec["token"], take=spec["take"], family=family,
               scribble=spec["scribble"])
    impl = dict(urls=urls, auths=[list(a) if a else a for a in auths], yielded=run["yielded"], outcome=err)
    shape = "%dp/%s%s" % (len(payloads), "ts" if timeseries else "s", "/err" if err not in (None, "Suspended") else "")
    flat = run["flat"]
    return dict(input=inp, impl=impl, coq=coq,
                kind=family + ":" + ("by_time:" if spec["by_time"] else "get_sessions:") + shape + ("/take" if spec["take"] is not None else ""),
                sig=[inp["op"], site, str(inp.get("cond")), [len(p["_items"]) for p in payloads], [d.get("_id") for d in flat][:3],
                     spec["take"]],
                nontrivial=True, metas=metas)


def build_run_case(rng, by_time):
    """one call on a fresh client"""
    spec = rand_spec(rng, by_time)
    with installed_transport() as t:
        route = t.route(spec["base"] if spec["base"] is not None else DEFAULT_BASE, spec["payloads"])
        run = new_run(spec, make_client(spec["base"], spec["token"]))
        finish(run)
    return case_of_run(run, route, "single")


def build_reuse_cases(rng):
    """the SAME client object for several consecutive calls (different queries, servers, sites); between calls
    the caller may point the client at another base URL / token"""
    base, token = rng.choice(BASES[1:]), rng.choice(["tok", "T2"])
    out = []
    with installed_transport() as t:
        client = make_client(base, token)
        for _ in range(rng.choice([2, 3, 4])):
            if rng.random() < 0.3:
                base, token = rng.choice(BASES[1:] + ["http://other/v2/"]), rng.choice(["tok", "T2", "T3"])
                client.url, client.token = base, token
            spec = rand_spec(rng, rng.random() < 0.3, base=base, token=token)
            route = t.route(base, spec["payloads"])
            run = new_run(spec, client)
            finish(run)
            out.append(case_of_run(run, route, "reuse"))
    return out


def build_interleaved_cases(rng):
    """two or three live generators (distinct clients, bases, tokens, servers) advanced alternately"""
    out = []
    with installed_transport() as t:
        runs = []
        for i in range(rng.choice([2, 2, 3])):
            base = ["http://a.example/api/", "http://b.example/v1/", "http://c.example/"][i]
            spec = rand_spec(rng, rng.random() < 0.25, base=base, token="tok-%d" % i)
            runs.append((new_run(spec, make_client(base, spec["token"])), t.route(base, spec["payloads"])))
        guard = 0
        while any(not r["done"] for r, _ in runs) and guard < 10000:
            step(rng.choice([r for r, _ in runs if not r["done"]]))
            guard += 1
        for r, route in runs:
            out.append(case_of_run(r, route, "interleaved"))
    return out


def build_same_client_cases(rng):
    """2-3 generators obtained from ONE client object (different sites, multi-page result sets) advanced alternately,
    together with a generator of another client; each generator is compared with the model on its own"""
    out = []
    with installed_transport() as t:
        base = rng.choice(BASES[1:4])
        client = make_client(base, "tok-shared")
        runs = []
        for site in rng.sample(SITES, rng.choice([2, 2, 3])):
            spec = rand_spec(rng, rng.random() < 0.25, base=base, token="tok-shared", site=site, multipage=True)
            runs.append((new_run(spec, client), t.route(base, spec["payloads"], marker="sessions/" + site)))
        if rng.random() < 0.5:
            spec = rand_spec(rng, False, base="http://other.example/", token="tok-other")
            runs.append((new_run(spec, make_client(spec["base"], spec["token"])), t.route(spec["base"], spec["payloads"])))
        zipped = rng.random() < 0.5         # zip(a, b, ...): strictly alternating; else a random interleaving
        guard = 0
        while any(not r["done"] for r, _ in runs) and guard < 10000:
            live = [r for r, _ in runs if not r["done"]]
            for r in (live if zipped else [rng.choice(live)]):
                step(r)
            guard += 1
        for r, route in runs:
            out.append(case_of_run(r, route, "same-client"))
    return out


def build_count_case(rng):
    """count_sessions directly and through get_sessions_by_time(count=True)"""
    import pytz
    base, token = rng.choice(BASES), rng.choice(["tok", "DEMO_TOKEN"])
    site = rng.choice(SITES) if rng.random() < 0.8 else rng.choice(BAD_SITES)
    total = rng.choice(["0", "17", "31337", None]) if rng.random() < 0.9 else None
    by_time = rng.random() < 0.5
    st = en = me = cond = None
    with installed_transport() as t:
        route = t.route(base if base is not None else DEFAULT_BASE, [], total)
        client = make_client(base, token)
        try:
            if by_time:
                tt, zone = rand_instant_zone(rng)
                off = oracle_offset(zone, tt) or 0
                if not (MIN_T <= tt + off <= MAX_T) or zone not in FIXED_ZONES and zone not in DST_ZONES:
                    zone = "UTC"
                mk = lambda sh: pytz.utc.localize(naive_of(min(max(tt + sh, MIN_T + 86400), MAX_T - 86400))).astimezone(
                    pytz.timezone(zone))
                st = mk(0) if rng.random() < 0.6 else None
                en = mk(rng.randint(0, 10 ** 6)) if rng.random() < 0.6 else None
                me = rng.choice([None, 0, 0.0, 2.5])
                res = ("ok", client.get_sessions_by_time(site, start=st, end=en, min_energy=me, count=True))
            else:
                cond = rng.choice(CONDS)
                res = ("ok", client.count_sessions(site, cond) if cond is not None or rng.random() < 0.5 else client.count_sessions(site))
        except Exception as e:  # noqa
            res = ("err", exc_label(e))
    urls = [c[0] for c in route["calls"]]
    heads = [c[1] for c in route["calls"]]
    base_c = coq_str(base if base is not None else DEFAULT_BASE)
    exp = "(%s, %s)" % (coq_list([coq_str(u) for u in urls]),
                        "(Ok %s)" % coq_str(res[1]) if res[0] == "ok" and isinstance(res[1], str) else '(Err "%s")' % res[1])
    if by_time:
        coq = "(CCountByTime %s %s %s %s %s %s %s)" % (base_c, coq_str(site), coq_opt(st, dt_aware_coq), coq_opt(en, dt_aware_coq),
                                                    coq_opt(None if me is None else "{0}".format(me), coq_str),
                                                    coq_opt(total, coq_str), exp)
        inp = dict(op="count_by_time", base=base, site=site, start=str(st), end=str(en), min_energy=me, total=total, token=token,
                   start_inst=None if st is None else secs_of(st) - int(st.utcoffset().total_seconds()),
                   end_inst=None if en is None else secs_of(en) - int(en.utcoffset().total_seconds()))
    else:
        coq = "(CCount %s %s %s %s %s)" % (base_c, coq_str(site), coq_opt(cond, coq_str), coq_opt(total, coq_str), exp)
        inp = dict(op="count_sessions", base=base, site=site, cond=cond, total=total, token=token)
    impl = dict(urls=urls, heads=[list(h) if h else h for h in heads], result=list(res))
    return dict(input=inp, impl=impl, coq=coq, kind="count" + ("_by_time" if by_time else "") + ("/err" if res[0] == "err" else ""),
                sig=["count", site, str(inp.get("cond")), total, by_time, str(inp.get("start"))], nontrivial=True)


def build_parse_dates_case(rng):
    """utils.parse_dates called directly on a caller-owned document"""
    from acnportal.acndata.utils import parse_dates
    flaw = rng.choice([None, None, None, "no-timezone", "unknown-timezone", "bad-timestamp"])
    doc, meta = rand_doc(rng, 0, rng.random() < 0.5, flaw)
    opq = Opaque()
    d_c = doc_coq(doc, opq)
    ids, n = {}, 0
    for k, v in doc.items():
        if not isinstance(v, str) and not (isinstance(v, dict) and "timestamps" in v):
            ids[k] = n
            n += 1
    orig = copy.deepcopy(doc)
    work = copy.deepcopy(doc)
    try:
        ret = parse_dates(work)
        exp, impl, err = "(Ok %s)" % yielded_coq(orig, work, ids), dict(doc=obs_doc(work), returned=repr(ret)[:40]), None
    except Exception as e:  # noqa
        err = exc_label(e)
        exp, impl = '(Err "%s")' % err, dict(error=err)
    coq = "(CParseDates %s %s %s)" % (tabs_coq(tabs_for([meta])), d_c, exp)
    return dict(input=dict(op="parse_dates", doc=orig, flaw=flaw), impl=impl, coq=coq, kind="parse_dates" + ("/err" if err else ""),
                sig=["parse_dates", orig.get("_id")], nontrivial=True, metas=[meta])


def hashseed_cases(rng, k=8):
    """the same queries issued by a second interpreter with another PYTHONHASHSEED: the first URL must not depend
    on hash order (site set, argument containers)"""
    import json, os, subprocess, sys
    specs = []
    for _ in range(k):
        specs.append(dict(base=rng.choice(BASES[1:]), site=rng.choice(SITES + BAD_SITES[:2]), cond=rng.choice(CONDS),
                          project=rng.choice(PROJECTS), sort=rng.choice(SORTS), timeseries=rng.random() < 0.4))
    env = dict(os.environ, PYTHONHASHSEED=str(rng.randint(1, 4000000000)))
    p = subprocess.run([sys.executable, "-W", "ignore", "-c",
                        "import sys, json; from harness import c20; print(json.dumps(c20.first_requests(json.loads(sys.stdin.read()))))"],
                       input=json.dumps(specs), env=env, cwd=core.ROOT, stdout=subprocess.PIPE, stderr=subprocess.PIPE, text=True,
                       timeout=120)
    out = []
    try:
        results = json.loads(p.stdout.strip().split("\n")[-1])
    except Exception:  # noqa
        results = [dict(urls=["<second interpreter failed: %s>" % p.stderr[-200:].replace('"', "'")], outcome=None)] * k
    empty = dict(_items=[], _links={}, _meta={})
    for sp, r in zip(specs, results):
        qc = "{| q_site := %s; q_cond := %s; q_project := %s; q_sort := %s; q_timeseries := %s |}" % (
            coq_str(sp["site"]), coq_opt(sp["cond"], coq_str), coq_opt(sp["project"], coq_str), coq_opt(sp["sort"], coq_str),
            coq_bool(sp["timeseries"]))
        out_c = "Done" if r["outcome"] is None else '(Raised "%s")' % r["outcome"]
        exp_c = "{| t_requests := %s; t_yielded := []; t_outcome := %s |}" % (coq_list([coq_str(u) for u in r["urls"]]), out_c)
        coq = "(CRun [] %s %s [{| p_items := []; p_next := None |}] None %s)" % (coq_str(sp["base"]), qc, exp_c)
        inp = dict(op="get_sessions", base=sp["base"], site=sp["site"], cond=sp["cond"], project=sp["project"], sort=sp["sort"],
                   timeseries=sp["timeseries"], payloads=[empty], token="tok", take=None, family="hashseed", scribble=False,
                   pythonhashseed=env["PYTHONHASHSEED"])
        out.append(dict(input=inp, impl=dict(urls=r["urls"], auths=[["tok", ""]] * len(r["urls"]), yielded=[], outcome=r["outcome"]),
                        coq=coq, kind="hashseed:get_sessions", sig=["hashseed", sp["site"], str(sp["cond"]), sp["sort"], sp["timeseries"]],
                        nontrivial=True, metas=[]))
    return out


def first_requests(specs):
    """(runs in the second interpreter) the requests each query makes against a one-page empty server"""
    res = []
    empty = dict(_items=[], _links={}, _meta={})
    for sp in specs:
        kwargs = {k: sp[k] for k in ("cond", "project", "sort") if sp[k] is not None}
        kwargs["timeseries"] = sp["timeseries"]
        urls, auths, yielded, err = run_client(sp["base"], "tok", lambda c: c.get_sessions(sp["site"], **kwargs), [empty])
        res.append(dict(urls=urls, outcome=err))
    return res


def build_date_case(rng):
    import pytz
    from acnportal.acndata.utils import http_date, parse_http_date
    t, zone = rand_instant_zone(rng)
    r = rng.random()
    tz = pytz.timezone(zone)
    if r < 0.35:
        # parse a served string into the document's zone
        s = fmt_rfc1123(t) if rng.random() < 0.85 else rng.choice(BAD_DATES)
        off = oracle_offset(zone, t) or 0
        try:
            dt = parse_http_date(s, tz)
            exp, impl = "(Ok %s)" % dt_aware_coq(dt), dict(ts=dt.timestamp(), off=dt.utcoffset().total_seconds())
        except Exception as e:  # noqa
            exp, impl, dt = '(Err "%s")' % exc_label(e), dict(error=exc_label(e)), None
        coq = "(CParse %s %s %s %s)" % (tabs_coq({zone: {t: off}}), coq_str(zone), coq_str(s), exp)
        return dict(input=dict(op="parse_http_date", s=s, zone=zone, t=t, oracle_off=off), impl=impl, coq=coq,
                    kind="parse_http_date" + ("/err" if dt is None else ""), sig=["parse", s, zone], nontrivial=True)
    # aware datetime in some zone -> http_date (-> parse back)
    off = oracle_offset(zone, t) or 0
    if not (MIN_T <= t + off <= MAX_T):
        off, zone, tz = 0, "UTC", pytz.utc
    dt0 = pytz.utc.localize(naive_of(t)).astimezone(tz)
    if rng.random() < 0.1:       # an aware datetime whose UTC equivalent is out of range
        dt0 = pytz.FixedOffset(rng.choice([600, -600])).localize(rng.choice([D.datetime(1, 1, 1, 3), D.datetime(9999, 12, 31, 22)]))
    if r < 0.6:
        return http_date_case(dt0)
    return roundtrip_case(dt0, rng.choice([zone, "UTC"]))


def http_date_case(dt0, kind="http_date"):
    from acnportal.acndata.utils import http_date
    inst = secs_of(dt0) - int(dt0.utcoffset().total_seconds())      # the instant, computed here
    s, serr = None, None
    try:
        s = http_date(dt0)
    except Exception as e:  # noqa
        serr = exc_label(e)
    exp = "(Ok %s)" % coq_str(s) if s is not None else '(Err "%s")' % serr
    return dict(input=dict(op="http_date", dt=str(dt0), inst=inst), impl=dict(s=s) if s is not None else dict(error=serr),
                coq="(CHttpDate %s %s)" % (dt_aware_coq(dt0), exp), kind=kind + ("" if s else "/err"),
                sig=["http_date", str(dt0)], nontrivial=True)


def roundtrip_case(dt0, zone2, kind="roundtrip"):
    import pytz
    from acnportal.acndata.utils import http_date, parse_http_date
    inst = secs_of(dt0) - int(dt0.utcoffset().total_seconds())
    off2 = oracle_offset(zone2, inst)
    if off2 is None or not (MIN_T <= inst + off2 <= MAX_T):
        zone2, off2 = "UTC", 0
    s, back, berr = None, None, None
    try:
        s = http_date(dt0)
        back = parse_http_date(s, pytz.timezone(zone2))
    except Exception as e:  # noqa
        berr = exc_label(e)
    exp = "(Ok %s)" % dt_aware_coq(back) if back is not None else '(Err "%s")' % berr
    impl = dict(s=s, back=None if back is None else dict(ts=back.timestamp(), off=back.utcoffset().total_seconds()),
                error=berr)
    return dict(input=dict(op="roundtrip", dt=str(dt0), zone=zone2, inst=inst), impl=impl,
                coq="(CRoundTrip %s %s %s %s)" % (tabs_coq({zone2: {inst: off2}}), coq_str(zone2), dt_aware_coq(dt0), exp),
                kind=kind + ("/err" if back is None else ""), sig=["rt", str(dt0), zone2], nontrivial=True)


def corpus_cases():
    """witnesses of fixed findings (corpus/C20/*.json), re-run first on every check"""
    import glob, json, os, pytz
    out = []
    for path in sorted(glob.glob(os.path.join(core.ROOT, "corpus", "C20", "*.json"))):
        with open(path) as f:
            w = json.load(f)
        dt0 = pytz.utc.localize(D.datetime(*w["input"]["utc"]))
        tag = "corpus:" + os.path.basename(path)[:-5]
        for c in (http_date_case(dt0, "corpus/http_date"), roundtrip_case(dt0, w["input"].get("zone", "UTC"), "corpus/roundtrip")):
            c["sig"] = [tag] + c["sig"]
            c["input"]["corpus"] = tag
            out.append(c)
    return out


def same_string_two_zones(rng):
    """the same served timestamp parsed consecutively into two different zones (a result remembered per string
    would leak the first zone into the second)"""
    import pytz
    from acnportal.acndata.utils import parse_http_date
    t, zone = rand_instant_zone(rng)
    zones = [zone] + [z_ for z_ in rng.sample(DST_ZONES + ["UTC", "Asia/Kolkata"], 3) if z_ != zone][:2]
    s_ = fmt_rfc1123(t)
    out = []
    for zn in zones:
        off = oracle_offset(zn, t)
        if off is None or not (MIN_T <= t + off <= MAX_T):
            continue
        try:
            dt = parse_http_date(s_, pytz.timezone(zn))
            exp, impl = "(Ok %s)" % dt_aware_coq(dt), dict(ts=dt.timestamp(), off=dt.utcoffset().total_seconds())
        except Exception as e:  # noqa
            exp, impl = '(Err "%s")' % exc_label(e), dict(error=exc_label(e))
        out.append(dict(input=dict(op="parse_http_date", s=s_, zone=zn, t=t, oracle_off=off), impl=impl,
                        coq="(CParse %s %s %s %s)" % (tabs_coq({zn: {t: off}}), coq_str(zn), coq_str(s_), exp),
                        kind="parse_http_date/same-string", sig=["parse2", s_, zn], nontrivial=True))
    return out


def gen_cases(rng, n, tier):
    cases = corpus_cases()
    cases.extend(hashseed_cases(rng))
    while len(cases) < n:
        r = rng.random()
        if r < 0.30:
            cases.append(build_run_case(rng, False))
        elif r < 0.40:
            cases.append(build_run_case(rng, True))
        elif r < 0.47:
            cases.extend(build_reuse_cases(rng))
        elif r < 0.51:
            cases.extend(build_interleaved_cases(rng))
        elif r < 0.56:
            cases.extend(build_same_client_cases(rng))
        elif r < 0.60:
            cases.append(build_count_case(rng))
        elif r < 0.64:
            cases.append(build_parse_dates_case(rng))
        elif r < 0.69:
            cases.extend(same_string_two_zones(rng))
        else:
            cases.append(build_date_case(rng))
    return cases[:max(n, 1)]


# ------------------------------------------------------------------------------------------------
# monitor: C20 stated directly on the implementation's recorded behaviour
# ------------------------------------------------------------------------------------------------
def check_converted(doc_obs, orig, meta, where):
    zone = meta["zone"]
    for k, v in orig.items():
        got = doc_obs.get(k)
        if isinstance(v, str) and v in meta["dates"]:
            t = meta["dates"][v]
            if not isinstance(got, dict) or "ts" not in got:
                return "%s.%s: RFC-1123 field was not converted to an aware datetime" % (where, k)
            r = check_dt(got, t, zone, "%s.%s" % (where, k))
            if r:
                return r
        elif isinstance(v, dict) and "timestamps" in v:
            if not isinstance(got, dict) or "timestamps" not in got:
                return "%s.%s: time series lost" % (where, k)
            if len(got["timestamps"]) != len(v["timestamps"]):
                return "%s.%s: %d timestamps became %d" % (where, k, len(v["timestamps"]), len(got["timestamps"]))
            for j, (s, g) in enumerate(zip(v["timestamps"], got["timestamps"])):
                if s in meta["dates"]:
                    if not isinstance(g, dict):
                        return "%s.%s[%d]: timestamp not converted" % (where, k, j)
                    r = check_dt(g, meta["dates"][s], zone, "%s.%s[%d]" % (where, k, j))
                    if r:
                        return r
            if got["rest"] != {a: b for a, b in v.items() if a != "timestamps"}:
                return "%s.%s: values of the time series changed" % (where, k)
        else:
            if got != v:
                return "%s.%s: non-date value changed (%r -> %r)" % (where, k, v, got)
    return None


def check_dt(g, t, zone, where):
    if g["ts"] != t - EPOCH:
        return "%s: instant changed (%r, expected POSIX %d)" % (where, g["ts"], t - EPOCH)
    if g["fields"] - g["off"] != t:
        return "%s: wall-clock fields minus utcoffset is not the instant" % where
    if g["zone"] != zone:
        return "%s: datetime is in zone %s, document says %s" % (where, g["zone"], zone)
    off = oracle_offset(zone, t)
    if off is not None and g["off"] != off:
        return "%s: utcoffset %r, zone %s has %r at that instant" % (where, g["off"], zone, off)
    return None


def monitor(case):
    inp, impl = case["input"], case["impl"]
    op = inp["op"]
    if op in ("get_sessions", "get_sessions_by_time"):
        payloads = inp["payloads"]
        base = inp["base"] if inp["base"] is not None else "https://ev.caltech.edu/api/v1/"
        take = inp.get("take")
        if take == 0:
            if impl["urls"] or impl["yielded"] or impl["outcome"] != "Suspended":
                return "the generator ran (%d requests) before the first next()" % len(impl["urls"])
            return None
        if inp["site"] not in SITES:
            if impl["urls"] or impl["outcome"] != "ValueError" or impl["yielded"]:
                return "invalid site %r: %d requests, outcome %s" % (inp["site"], len(impl["urls"]), impl["outcome"])
            return None
        if impl["outcome"] in ("OverflowError",) and op == "get_sessions_by_time" and not impl["urls"]:
            return None     # a bound outside the UTC range: rejected before any request
        if not impl["urls"]:
            return "no request was made"
        u0 = impl["urls"][0]
        ep = base + "sessions/" + inp["site"] + ("/ts/" if inp["timeseries"] else "")
        if not u0.startswith(ep + "?"):
            return "first URL %r is not %r followed by a query string" % (u0, ep)
        args = u0[len(ep) + 1:].split("&") if op == "get_sessions" else None
        if op == "get_sessions":
            want = []
            if inp["cond"] is not None:
                want.append("where=" + inp["cond"])
            if inp["project"] is not None:
                want.append("project=" + inp["project"])
            if inp["sort"] is not None:
                want.append("sort=" + inp["sort"])
            want.append("max_results=%d" % (1 if inp["timeseries"] else 100))
            if u0[len(ep) + 1:] != "&".join(want):
                return "first URL carries %r, expected %r" % (u0[len(ep) + 1:], "&".join(want))
        else:
            for key, opname in (("start_inst", ">="), ("end_inst", "<=")):
                ti = inp.get(key)
                if ti is not None and naive_of(ti).year >= 1000:
                    frag = 'connectionTime %s "%s"' % (opname, fmt_rfc1123(ti))
                    if frag not in u0:
                        return "by-time query lacks %r: %r" % (frag, u0)
            if inp["min_energy"] is not None and ("kWhDelivered > {0}".format(inp["min_energy"])) not in u0:
                return "by-time query lacks the energy filter: %r" % u0
            parts = []
            for key, opname in (("start_inst", ">="), ("end_inst", "<=")):
                if inp.get(key) is not None:
                    parts.append('connectionTime %s "%s"' % (opname, fmt_rfc1123(inp[key])))
            if inp["min_energy"] is not None:
                parts.append("kWhDelivered > {0}".format(inp["min_energy"]))
            if ("?where=" + " and ".join(parts) + "&sort=") not in u0:
                return "by-time query %r does not carry exactly the filter %r" % (u0, " and ".join(parts))
            if "sort=connectionTime" not in u0 or ("max_results=%d" % (1 if inp["timeseries"] else 100)) not in u0:
                return "by-time query lacks sort / max_results: %r" % u0
        if any(list(a or []) != [inp["token"], ""] for a in impl["auths"]):
            return "a request was sent without the API token"
        # expected walk over the responses
        exp_urls, exp_ids, k, stop = [u0], [], 0, None
        metas = case["metas"]
        mi = 0
        flat = []
        while True:
            if k >= len(payloads):
                stop = "transport"
                break
            p = payloads[k]
            for d in p["_items"]:
                flat.append((d, metas[mi]))
                mi += 1
                if take is not None and len(flat) == take:
                    stop = "Suspended"
                    break
            if stop:
                break
            nxt = p["_links"].get("next")
            if nxt is None:
                break
            exp_urls.append(base + nxt["href"])
            k += 1
        # documents that cannot be converted end the stream (outside the property): compare up to there
        convertible = 0
        for d, m in flat:
            if "timezone" not in d or d["timezone"] == "Mars/Olympus_Mons":
                break
            bad_ts = any(isinstance(v, dict) and "timestamps" in v and any(s not in m["dates"] for s in v["timestamps"])
                         for v in d.values())
            overflow = any(oracle_offset(m["zone"], t) is not None and not (MIN_T <= t + oracle_offset(m["zone"], t) <= MAX_T)
                           for t in m["dates"].values())
            if bad_ts or overflow:
                break
            convertible += 1
        def ident(d_):
            return [d_.get(k_) for k_ in ("_id", "sessionID", "kWhDelivered", "stationID", "spaceID", "userID")]
        got_ids = [ident(g) for g in impl["yielded"]]
        want_ids = [ident(d) for d, _ in flat]
        if convertible == len(flat):
            if stop is None and impl["outcome"] is not None:
                return "generator raised %s on a well-formed paging" % impl["outcome"]
            if stop == "Suspended" and impl["outcome"] != "Suspended":
                return "generator ended with %s while producing the first %d sessions" % (impl["outcome"], take)
            if got_ids != want_ids:
                return "yielded sessions %r differ from the server's sessions in order %r" % (got_ids[:8], want_ids[:8])
            if impl["urls"] != exp_urls:
                return "requests %r, expected %r" % (impl["urls"], exp_urls)
        else:
            if got_ids != want_ids[:len(got_ids)]:
                return "yielded sessions are not a prefix of the server's sessions"
        for i, g in enumerate(impl["yielded"]):
            if i < len(flat):
                r = check_converted(g, flat[i][0], flat[i][1], "item %d" % i)
                if r:
                    return r
        return None
    if op in ("count_sessions", "count_by_time"):
        base = inp["base"] if inp["base"] is not None else DEFAULT_BASE
        if inp["site"] not in SITES:
            if impl["urls"] or impl["result"] != ["err", "ValueError"]:
                return "count with invalid site %r: %d requests, result %r" % (inp["site"], len(impl["urls"]), impl["result"])
            return None
        if len(impl["urls"]) != 1:
            return "count_sessions made %d requests" % len(impl["urls"])
        u = impl["urls"][0]
        pre = base + "sessions/" + inp["site"] + "?"
        if not u.startswith(pre) or not u.endswith("limit=1"):
            return "count URL %r is not %r ... limit=1" % (u, pre)
        if op == "count_by_time":
            parts = []
            for key, opname in (("start_inst", ">="), ("end_inst", "<=")):
                if inp.get(key) is not None:
                    parts.append('connectionTime %s "%s"' % (opname, fmt_rfc1123(inp[key])))
            if inp["min_energy"] is not None:
                parts.append("kWhDelivered > {0}".format(inp["min_energy"]))
            if u != pre + "where=" + " and ".join(parts) + "&limit=1":
                return "count URL %r, expected filter %r" % (u, " and ".join(parts))
        if op == "count_sessions" and u != pre + ("where=" + inp["cond"] + "&" if inp["cond"] is not None else "") + "limit=1":
            return "count URL %r does not carry the filter %r" % (u, inp["cond"])
        if impl["heads"][0] != ["HEAD", {"Authorization": "Bearer " + inp["token"]}]:
            return "count request without the bearer token"
        want = ["ok", inp["total"]] if inp["total"] is not None else ["err", "KeyError"]
        if impl["result"] != want:
            return "count result %r, server said %r" % (impl["result"], inp["total"])
        return None
    if op == "parse_dates":
        m = case["metas"][0]
        overflow = any(oracle_offset(m["zone"], t) is not None and not (MIN_T <= t + oracle_offset(m["zone"], t) <= MAX_T)
                       for t in m["dates"].values())
        if inp["flaw"] is None and not overflow:
            if "error" in impl:
                return "parse_dates raised %s on a well-formed document" % impl["error"]
            return check_converted(impl["doc"], inp["doc"], case["metas"][0], "document")
        return None
    if op == "parse_http_date":
        if inp["s"] == fmt_rfc1123(inp["t"]):
            off = inp["oracle_off"]
            if MIN_T <= inp["t"] + off <= MAX_T:
                if "error" in impl:
                    return "parse_http_date raised %s on %r" % (impl["error"], inp["s"])
                if impl["ts"] != inp["t"] - EPOCH:
                    return "parse_http_date(%r) is POSIX %r, expected %d" % (inp["s"], impl["ts"], inp["t"] - EPOCH)
                if oracle_offset(inp["zone"], inp["t"]) is not None and impl["off"] != off:
                    return "parse_http_date: offset %r, zone has %r" % (impl["off"], off)
        return None
    if op == "http_date":
        inst = inp["inst"]
        if MIN_T <= inst <= MAX_T:
            if "error" in impl:
                return "http_date raised %s for an instant inside years 1..9999" % impl["error"]
            if impl["s"] != fmt_rfc1123(inst):
                return "http_date gives %r, RFC 1123 is %r" % (impl["s"], fmt_rfc1123(inst))
        return None
    if op == "roundtrip":
        inst = inp["inst"]
        if not (MIN_T <= inst <= MAX_T):
            return None
        if impl.get("back") is None:
            return "parse_http_date(http_date(%s)) raised %s" % (inp["dt"], impl["error"])
        if impl["back"]["ts"] != inst - EPOCH:
            return "parse_http_date(http_date(dt)) is a different instant"
        return None
    return None


def search(rng, budget_s, broken):
    t0 = time.time()
    while time.time() - t0 < budget_s:
        for c in gen_cases(rng, 150, "quick"):
            r = monitor(c)
            if r:
                return dict(case=c["input"], impl=c["impl"], why=r)
    return None


def replay(w):
    """re-run a recorded get_sessions / date witness on the current tree"""
    inp = w["case"]
    op = inp["op"]
    import pytz
    from acnportal.acndata.utils import http_date, parse_http_date
    if op in ("get_sessions",):
        kwargs = dict(cond=inp["cond"], project=inp["project"], sort=inp["sort"], timeseries=inp["timeseries"])
        metas = []
        for p in inp["payloads"]:
            for d in p["_items"]:
                metas.append(dict(zone=d.get("timezone"), dates=_dates_of(d)))
        spec = dict(by_time=False, base=inp["base"], token=inp["token"], site=inp["site"], timeseries=inp["timeseries"],
                    payloads=inp["payloads"], metas=metas, take=inp.get("take"), scribble=inp.get("scribble", False),
                    cond=inp["cond"], project=inp["project"], sort=inp["sort"],
                    call=lambda c: c.get_sessions(inp["site"], **kwargs))
        with installed_transport() as t:
            route = t.route(inp["base"] if inp["base"] is not None else DEFAULT_BASE, inp["payloads"])
            run = new_run(spec, make_client(inp["base"], inp["token"]))
            finish(run)
        return monitor(case_of_run(run, route, "replay"))
    if op in ("roundtrip", "http_date"):
        m = re.match(r"(\d+)-(\d+)-(\d+) (\d+):(\d+):(\d+)([+-])(\d+):(\d+)", inp["dt"])
        if not m:
            return None
        g = [int(x) if x not in "+-" else x for x in m.groups()]
        mins = (g[7] * 60 + g[8]) * (1 if g[6] == "+" else -1)
        dt0 = pytz.FixedOffset(mins).localize(D.datetime(*g[:6])) if mins else pytz.utc.localize(D.datetime(*g[:6]))
        c = http_date_case(dt0) if op == "http_date" else roundtrip_case(dt0, inp.get("zone", "UTC"))
        return monitor(c)
    return None


def _dates_of(d):
    """canonical date strings of a document with their instants (independent parser)"""
    import re
    out = {}

    def visit(s):
        m = re.fullmatch(r"(\w{3}), (\d\d) (\w{3}) (\d{4}) (\d\d):(\d\d):(\d\d) GMT", s) if isinstance(s, str) else None
        if m and m.group(3) in MONN and m.group(1) in DAYN:
            try:
                dt = D.datetime(int(m.group(4)), MONN.index(m.group(3)) + 1, int(m.group(2)), int(m.group(5)),
                                int(m.group(6)), int(m.group(7)))
                out[s] = secs_of(dt)
            except ValueError:
                pass
    for v in d.values():
        visit(v)
        if isinstance(v, dict) and "timestamps" in v:
            for s in v["timestamps"]:
                visit(s)
    return out
