"""Implementation-level monitors for C07 / C08 and the in-simulator stream.

Monitors state the properties directly on the REAL implementation's outputs, with checks that are
independent of the algorithm-side code (exact Fractions, the real ChargingNetwork.is_feasible, the real
EVSE._valid_rate).  They are used to find / confirm failing inputs, never to pass a check."""
import datetime
import fractions
import math
import warnings

import numpy as np

from harness import sorted_common as sc

F = fractions.Fraction
SLACK = 1e-9


# =============================================================================================
# independent feasibility
# =============================================================================================
def exact_margin(inf, sched):
    """max over constraints of (|phasor sum| - (L + tol)) computed with Fractions on the float inputs;
    returns (worst_excess_float, index)"""
    worst, wj = -math.inf, None
    cos = [F(math.cos(math.radians(p))) for p in inf["phases"]]
    sin = [F(math.sin(math.radians(p))) for p in inf["phases"]]
    for j, row in enumerate(inf["A"]):
        re = sum(F(row[i]) * cos[i] * F(sched[i]) for i in range(inf["N"]))
        im = sum(F(row[i]) * sin[i] * F(sched[i]) for i in range(inf["N"]))
        n = math.sqrt(float(re * re + im * im))
        lim = inf["L"][j]
        rhs = lim + max(1e-5, 1e-7 * lim)
        if n - rhs > worst:
            worst, wj = n - rhs, j
    return worst, wj


def real_evse(inf, i, name):
    from acnportal.acnsim.models import EVSE, FiniteRatesEVSE
    et = inf["etype"][i]
    if et in ("C0", "Cm"):
        return EVSE(name, max_rate=inf["maxp"][i], min_rate=inf["minp"][i])
    return FiniteRatesEVSE(name, list(inf["allow"][i]))


def real_network(inf):
    """a real ChargingNetwork with the scenario's EVSEs, voltages, phases and constraints"""
    from acnportal.acnsim import ChargingNetwork, Current
    net = ChargingNetwork()
    for i in range(inf["N"]):
        net.register_evse(real_evse(inf, i, sc.station_name(i)), inf["volt"][i], inf["phases"][i])
    for j, row in enumerate(inf["A"]):
        net.add_constraint(Current({sc.station_name(i): row[i] for i in range(inf["N"])}), inf["L"][j], name="c%d" % j)
    return net


def user_min0(s):
    m = s["mins"]
    return float(m[0]) if isinstance(m, list) else float(m)


def default_bounds(scn):
    return all(user_min0(s) == 0 for s in scn["sessions"])


def monitor_c07(scn, impl):
    """C07 on one recorded run of the real algorithm; None or a description of the violated clause"""
    inf = scn["infra"]
    sess = scn["sessions"]
    if len({s["st"] for s in sess}) != len(sess):
        return None                                   # two sessions on one station: outside the property
    if impl.get("info_diff"):
        return impl["info_diff"]
    if impl.get("data_mutated"):
        return "the call modified the interface data owned by the caller (sessions / infrastructure lists)"
    if impl.get("held_changed"):
        return "a schedule dictionary returned by an earlier call changed afterwards (aliased with internal state)"
    if impl["err"] is not None:
        # No schedule is emitted.  With default session bounds the lower-bound vector is feasible
        # (C07_preproc_lower_bounds_feasible), so an exception is a defect -- except for round robin on a
        # hand-made finite-rate table WITHOUT 0 (never produced by a real network: FiniteRatesEVSE always
        # adds 0): round robin starts such a station at its lowest level, which may be infeasible.
        no_zero = any(inf["etype"][s["st"]] == "Fn" for s in sess)
        if default_bounds(scn) and all(l >= 0 for l in inf["L"]) and not (scn["algo"] == "rr" and no_zero):
            return "algorithm raised %s on sessions with default bounds" % impl["err"]
        return None
    sched = impl["sched"]
    rows = impl.get("rows") or [[x] for x in sched]
    if not impl["shape_ok"] or len(rows) != inf["N"]:
        return "schedule does not map every station to a non-empty list of pilots"
    T = len(rows[0])
    if any(len(r) != T for r in rows):
        return "the schedule rows have different lengths"
    if any(x != x or abs(x) == math.inf for r in rows for x in r):
        return "non-finite pilot"
    act = {s["st"]: s for s in sess}
    # C07 claims feasibility for sessions whose lower bound the algorithm can fall back from safely
    # (C07_greedy_feasible: continuous station, or lb = 0, or lb one of the station's levels within [lb, ub];
    # C07_preproc_bounds: always true without a user-imposed minimum).  A SessionInfo whose OWN min_rates[0] is
    # positive and not such a level (hand-made bound, C07_fallback_needs_preproc) is outside the claim.
    unsafe = False
    for s_ in sess:
        m0 = user_min0(s_)
        i_ = s_["st"]
        if m0 > 0 and not inf["cont"][i_]:
            rap_ = (s_["req"] - s_["deliv"]) * 1000 / inf["volt"][i_] * 60 / scn["period"]
            mx_ = s_["maxs"][0] if isinstance(s_["maxs"], list) else s_["maxs"]
            lb_ = max(m0, inf["minp"][i_]) if scn["unint"] else m0
            ub_ = min(mx_, inf["maxp"][i_], rap_)
            if not (any(abs(lb_ - a) <= 1e-12 for a in inf["allow"][i_]) and lb_ <= ub_ * (1 - 1e-9)):
                unsafe = True
    for t in range(T):                                  # EVERY period of the emitted schedule
        col = [r[t] for r in rows]
        # -- feasible for the network
        exc, j = exact_margin(inf, col)
        if unsafe:
            exc = -1.0
        if exc > SLACK * max(1.0, inf["L"][j] if j is not None else 1.0):
            return "infeasible schedule (period %d of the emitted schedule): constraint %d exceeded by %.6g A" % (t, j, exc)
        if exc < -1e-6 and t == 0 and not unsafe:
            try:
                if not real_network(inf).is_feasible(np.array(col).reshape(-1, 1)):
                    return "ChargingNetwork.is_feasible rejects the schedule"
            except Exception as e:  # noqa
                return "ChargingNetwork.is_feasible raised %s" % type(e).__name__
        for i in range(inf["N"]):
            p = col[i]
            if i not in act:
                if p != 0:
                    return "station %d has no active session but pilot %r in period %d" % (i, p, t)
                continue
            s = act[i]
            et = inf["etype"][i]
            if et in ("C0", "F"):
                if not real_evse(inf, i, "x")._valid_rate(p):
                    return "pilot %r not accepted by the %s EVSE of station %d" % (p, et, i)
            if p < -SLACK:
                return "negative pilot %r" % p
            if scn["est"] is not None:
                if scn["est"].get("custom"):
                    b = scn["est"]["store"].get(s["sid"], math.inf)      # no entry: the estimator imposes no bound
                else:
                    b = (impl["store"] or {}).get(s["sid"])
                if b is None:
                    # finished sessions are removed before the estimator is consulted; they must get 0
                    if p != 0:
                        return "session %d has a pilot %r but the estimator was never asked for its bound" % (s["sid"], p)
                    continue
                floor = max(user_min0(s), inf["minp"][i] if scn["unint"] else 0.0)
                if p > max(b, floor) * (1 + SLACK) + SLACK:
                    return "pilot %r exceeds the estimator bound %r of session %d (minimum pilot %r)" % (p, b, s["sid"], floor)
    if scn["algo"] == "greedy" and impl.get("pre") and impl.get("order") and T == 1:
        # a session with its OWN minimum rate above what is still missing: the algorithm must hand out the upper bound
        # min(max_rate, remaining amp-periods) whenever that is feasible at its turn, not the minimum rate
        pre = {p_[0]: p_ for p_ in impl["pre"]}
        by_sid = {s_["sid"]: s_ for s_ in sess}
        if sorted(impl["order"]) == sorted(pre):
            cur = [0.0] * inf["N"]
            for sid in impl["order"]:
                cur[by_sid[sid]["st"]] = max(0.0, pre[sid][1][0])
            for sid in impl["order"]:
                s_ = by_sid[sid]
                i = s_["st"]
                rap = (s_["req"] - s_["deliv"]) * 1000 / inf["volt"][i] * 60 / scn["period"]
                ub = min(pre[sid][2][0], rap)
                lb = max(0.0, pre[sid][1][0])
                p = rows[i][0]
                if inf["cont"][i] and ub < lb - 1e-9 and p > ub + 1e-9:
                    test = list(cur)
                    test[i] = ub
                    e_, _ = exact_margin(inf, test)
                    if e_ < -1e-6:
                        return ("session %d (own minimum rate %r) gets %r A although only %r A*periods are missing and "
                                "%r A is feasible at its turn" % (sid, lb, p, rap, ub))
                cur[i] = p
    for i, s in act.items():
        # the WHOLE emitted schedule of a station, summed over its periods, against the remaining demand in A*periods
        rap = (s["req"] - s["deliv"]) * 1000 / inf["volt"][i] * 60 / scn["period"]
        tot = sum(rows[i])
        if user_min0(s) == 0 and tot > max(rap, 0.0) * (1 + SLACK) + SLACK:
            return "the %d-period schedule of session %d adds up to %r A*periods, more than its remaining demand %r" % (
                T, s["sid"], tot, rap)
    return None


# =============================================================================================
# C08 monitors: priority order and maximality on the implementation's output
# =============================================================================================
def feasible_exact(inf, sched):
    exc, j = exact_margin(inf, sched)
    return exc, j


def monitor_c08(scn, impl):
    """greedy: with the pilots of higher-priority sessions fixed and lower-priority ones at their lower bound,
    bumping a session to the next level / by eps must be infeasible or exceed its bound.
    round robin: the final state is blocked: raising any session one level is infeasible or above its bound."""
    inf = scn["infra"]
    sess = scn["sessions"]
    if impl["err"] is not None or impl["sched"] is None or impl["pre"] is None or impl["order"] is None:
        return None
    if len({s["st"] for s in sess}) != len(sess):
        return None
    sched = list(impl["sched"])
    by_sid = {s["sid"]: s for s in sess}
    pre = {p[0]: p for p in impl["pre"]}
    # independent priority keys
    keys = {}
    for sid in pre:
        s = by_sid[sid]
        rap = F(s["req"]) - F(s["deliv"])
        rap = rap * 1000 / F(inf["volt"][s["st"]]) * 60 / F(scn["period"])
        mp = F(inf["maxp"][s["st"]])
        keys[sid] = {"fcfs": F(s["arr"]), "lcfs": -F(s["arr"]), "edf": F(s["edep"]),
                     "llf": F(s["edep"]) - scn["now"] - rap / mp, "lrpt": -(rap / mp)}[scn["sort"]]
    order = impl["order"]
    if sorted(order) != sorted(pre):
        return "the processing order is not a permutation of the preprocessed sessions"
    for a, b in zip(order, order[1:]):
        if keys[a] > keys[b] and abs(keys[a] - keys[b]) > F(1, 10 ** 9):
            return "session %d processed before %d although its priority key is larger" % (a, b)
    lbs = {sid: max(0.0, pre[sid][1][0]) for sid in pre}
    raps = {}
    for sid in pre:
        s = by_sid[sid]
        raps[sid] = (s["req"] - s["deliv"]) * 1000 / inf["volt"][s["st"]] * 60 / scn["period"]
    if scn["algo"] == "greedy":
        cur = [0.0] * inf["N"]
        for sid in order:
            cur[by_sid[sid]["st"]] = lbs[sid]
        for sid in order:
            s = by_sid[sid]
            i = s["st"]
            ub = min(pre[sid][2][0], raps[sid])
            r = sched[i]
            test = list(cur)
            if inf["cont"][i]:
                nxt = r + 0.01 + 1e-6
                if r < ub - 1e-6 and nxt <= ub:
                    test[i] = nxt
                    exc, _ = feasible_exact(inf, test)
                    # feasible set of one station is an interval: r+eps feasible means r was not within eps of the max
                    test2 = list(cur)
                    test2[i] = r
                    exc_r, _ = feasible_exact(inf, test2)
                    if exc < -1e-6 and exc_r < 1e-9:
                        return "session %d got %r but %r is also feasible (ub %r): not within the bisection tolerance" % (sid, r, nxt, ub)
                if r < ub - 1e-6 and nxt > ub:
                    test[i] = ub
                    exc, _ = feasible_exact(inf, test)
                    if exc < -1e-6:
                        return "session %d got %r although its upper bound %r is feasible" % (sid, r, ub)
            else:
                if r != 0:
                    test[i] = r
                    exc_r, _ = feasible_exact(inf, test)
                    if exc_r > 1e-9 and abs(r - lbs[sid]) > 1e-12:
                        return ("session %d got level %r which is infeasible (by %.4g A) with the pilots already granted to "
                                "higher-priority sessions; no level fits, it should get 0" % (sid, r, exc_r))
                higher = [a for a in inf["allow"][i] if lbs[sid] <= a <= ub and a > r + 1e-9]
                for a in higher:
                    test[i] = a
                    exc, _ = feasible_exact(inf, test)
                    if exc < -1e-6:
                        return "session %d got level %r but the higher level %r is feasible" % (sid, r, a)
                if r != 0 and not any(abs(r - a) <= 1e-9 for a in inf["allow"][i]):
                    return "finite-rate station %d got %r which is not one of its levels" % (i, r)
            cur[i] = r
    else:
        inc = scn["inc"]
        for sid in order:
            s = by_sid[sid]
            i = s["st"]
            ub = min(pre[sid][2][0], inf["maxp"][i], raps[sid])
            r = sched[i]
            if inf["cont"][i]:
                nxt = r + inc if (r > 0 or pre[sid][1][0] <= 0) else None
                if r == 0 and pre[sid][1][0] > 0:
                    continue
                # next level of the arange grid anchored at min_rates[0]
                top = pre[sid][2][0]
                if nxt is not None and nxt <= ub - 1e-6 and nxt <= top + inc / 2 - 1e-6 and nxt >= lbs[sid]:
                    test = list(sched)
                    test[i] = nxt
                    exc, _ = feasible_exact(inf, test)
                    if exc < -1e-6 and all(sched[k] >= 0 for k in range(inf["N"])):
                        # final-state check is only valid if no other session was raised after this one stopped;
                        # feasibility is not monotone, so only report when every constraint row has one sign
                        if all(len({math.copysign(1, v) for v in row if v != 0}) <= 1 for row in inf["A"]) \
                                and len(set(inf["phases"])) == 1:
                            return "round robin stopped session %d at %r although %r is feasible and within its bound" % (sid, r, nxt)
            else:
                lv = [a for a in inf["allow"][i] if lbs[sid] <= a <= ub]
                if r != 0 and not any(abs(r - a) <= 1e-9 for a in lv):
                    return "round robin gave finite-rate station %d the pilot %r outside its bound-filtered levels" % (i, r)
                higher = [a for a in lv if a > r + 1e-9]
                if higher and (r != 0 or not lv or lv[0] == 0):
                    test = list(sched)
                    test[i] = min(higher)
                    exc, _ = feasible_exact(inf, test)
                    if exc < -1e-6 and all(len({math.copysign(1, v) for v in row if v != 0}) <= 1 for row in inf["A"]) \
                            and len(set(inf["phases"])) == 1:
                        return "round robin stopped session %d at %r although the next level %r is feasible" % (sid, r, min(higher))
    return None


def monitor_rr_trace(scn, impl):
    """round robin, on the recorded sequence of vectors handed to the feasibility check: sessions are raised one
    level at a time in priority (deque) order; a session leaves only when its next level was rejected at that
    moment or it has no level left within its own bounds; the result is the last accepted vector"""
    inf = scn["infra"]
    tr = impl.get("rr_trace")
    if scn["algo"] != "rr" or tr is None or impl["err"] is not None or impl["pre"] is None or impl["order"] is None:
        return None
    sess = scn["sessions"]
    if len({s["st"] for s in sess}) != len(sess):
        return None
    by_sid = {s["sid"]: s for s in sess}
    pre = {p[0]: p for p in impl["pre"]}
    inc = scn["inc"]
    levels = {}
    for sid in impl["order"]:
        s = by_sid[sid]
        i = s["st"]
        mn0, mx0 = pre[sid][1][0], pre[sid][2][0]
        rap = (s["req"] - s["deliv"]) * 1000 / inf["volt"][i] * 60 / scn["period"]
        lb, ub = max(0.0, mn0), min(mx0, inf["maxp"][i], rap)
        if inf["cont"][i]:
            base = [float(x) for x in np.arange(mn0, mx0 + inc / 2, inc)]
        else:
            base = list(inf["allow"][i])
        # levels within 1e-9 of a bound are left to the ambiguity rule
        levels[sid] = [a for a in base if lb <= a <= ub]
    state = [0.0] * inf["N"]
    for sid in impl["order"]:
        lv = levels[sid]
        state[by_sid[sid]["st"]] = lv[0] if lv else 0.0

    def close(u, v):
        return all(abs(a - b) <= 1e-9 * max(1.0, abs(a)) for a, b in zip(u, v))
    if not tr or not close(tr[0][0], state):
        return "round robin does not start from the first level of every session"
    for vec, ok in tr:
        exc, _ = exact_margin(inf, vec)
        if ok and exc > 1e-6:
            return "an intermediate round-robin state accepted by the check is infeasible by %.3g A" % exc
        if (not ok) and exc < -1e-6:
            return "a feasible intermediate round-robin state was rejected"
    if not tr[0][1]:
        return None
    from collections import deque
    dq = deque(impl["order"])
    idx = {sid: 0 for sid in impl["order"]}
    t = 1
    while dq:
        sid = dq.popleft()
        i = by_sid[sid]["st"]
        lv = levels[sid]
        if idx[sid] < len(lv) - 1:
            if t >= len(tr):
                return "session %d left the queue although it has a level above %r within its bounds and it was never tried" % (sid, lv[idx[sid]])
            want = list(state)
            want[i] = lv[idx[sid] + 1]
            if not close(tr[t][0], want):
                return "step %d of round robin is not 'raise session %d by one level' (expected %r at station %d, checked vector %r)" % (t, sid, want[i], i, tr[t][0])
            if tr[t][1]:
                state = want
                idx[sid] += 1
                dq.append(sid)
            t += 1
    if t != len(tr):
        return "round robin made %d feasibility checks, %d expected" % (len(tr), t)
    if not close(impl["sched"], state):
        return "the emitted schedule is not the last accepted round-robin state"
    return None


def monitor_unc(scn, impl):
    inf = scn["infra"]
    if impl.get("data_mutated"):
        return "UncontrolledCharging modified the interface data owned by the caller"
    if impl.get("held_changed"):
        return "a schedule returned earlier by UncontrolledCharging changed afterwards" 
    if impl["err"] is not None:
        return "UncontrolledCharging raised %s" % impl["err"]
    act = {s["st"] for s in scn["sessions"]}
    for i in range(inf["N"]):
        v = impl["sched"][i]
        if i in act and v != inf["maxp"][i]:
            return "active station %d got %r instead of its maximum pilot %r" % (i, v, inf["maxp"][i])
        if i not in act and v is not None:
            return "station %d without a session appears in the uncontrolled schedule" % i
    if not impl["shape_ok"]:
        return "uncontrolled schedule entries are not one-element lists"
    return None


# =============================================================================================
# in-simulator stream
# =============================================================================================
def gen_sim(rng, tier, algo=None, sort=None, est=None, unint=None, inc=None):
    """a random network + session history + algorithm configuration for a real Simulator run"""
    N = rng.choice([2, 3, 3, 4, 5] + ([6, 8] if tier == "thorough" else []))
    pset = rng.choice(sc.PHASE_SETS[:3] + sc.PHASE_SETS[:2])
    st = []
    for i in range(N):
        if rng.random() < 0.55:
            st.append(dict(kind="C0", maxp=float(rng.choice([32, 32, 16, 40])), rates=None))
        else:
            rates = [r for r in rng.choice(sc.FINITE_SETS[:6]) if r > 0]
            st.append(dict(kind="F", maxp=max(rates), rates=rates))
        st[-1]["volt"] = float(rng.choice([208, 208, 240, 120]))
        st[-1]["phase"] = float(rng.choice(pset))
    cons = []
    for j in range(rng.choice([1, 1, 2, 2, 3, 4])):
        row = {}
        style = rng.random()
        for i in range(N):
            if style < 0.4:
                c = rng.choice([1.0, 1.0, -1.0, 0.0])
            elif style < 0.7:
                c = 1.0
            else:
                c = rng.choice([0.0, 0.25, -0.25, 0.5, -0.5, 1.0, -1.0])
            if c != 0:
                row[i] = c
        if not row:
            row[rng.randrange(N)] = 1.0
        re = sum(c * math.cos(math.radians(st[i]["phase"])) * st[i]["maxp"] for i, c in row.items())
        im = sum(c * math.sin(math.radians(st[i]["phase"])) * st[i]["maxp"] for i, c in row.items())
        full = max(math.hypot(re, im), 0.3 * sum(abs(c) * st[i]["maxp"] for i, c in row.items()), 6.0)
        lim = round(full * rng.uniform(0.2, 1.0), rng.choice([0, 1]))
        cons.append(dict(row=row, limit=float(lim)))
    period = float(rng.choice([1, 5, 5, 15, 7, 2.5, 12]))
    horizon = rng.choice([12, 20, 30])
    evs = []
    sid = 0
    for i in range(N):
        t = rng.randint(0, 4)
        while t < horizon - 2 and rng.random() < 0.85:
            dep = min(horizon, t + rng.randint(2, 14))
            per_amp = st[i]["volt"] * period / 60.0 / 1000.0
            stay = dep - t
            frac = rng.choice([0.15, 0.4, 0.8, 1.5])
            req = round(max(0.05, per_amp * st[i]["maxp"] * stay * frac * rng.uniform(0.5, 1.0)), 3)
            batt = rng.choice(["ideal", "ideal", "l2"])
            evs.append(dict(arr=t, dep=dep, edep=max(t + 1, dep + rng.randint(-3, 3)), req=float(req), st=i,
                            sid=sid + 100, batt=batt, cap=float(round(req * rng.uniform(1.0, 2.0) + 1, 2)),
                            maxpow=float(rng.choice([3.3, 6.6, 7.0, 10.0, 50.0]))))
            sid += 1
            t = dep + rng.randint(0, 3)
    a, s_, e, u, i_ = (algo or rng.choice(["greedy", "rr"]), sort or rng.choice(sc.SORTS),
                        rng.random() < 0.5 if est is None else est, rng.random() < 0.5 if unint is None else unint,
                        inc if inc is not None else rng.choice([0.5, 1.0, 0.1]))
    return dict(stations=st, cons=cons, period=period, evs=evs, algo=a, sort=s_, est=e, unint=u, inc=i_,
                ramp=(1.0, 1.0, 1.0) if rng.random() < 0.7 else (0.5, 2.0, 0.5))


class Injected(Exception):
    """raised by the harness from inside the scheduler call to interrupt a run"""


class InjectedBase(BaseException):
    """the same as a BaseException subclass (KeyboardInterrupt-like)"""


def sim_names(sim):
    return sim.get("names") or [sc.station_name(i) for i in range(len(sim["stations"]))]


def make_sim_algo(sim):
    """a real algorithm object with the observers and the call recorder installed; returns the handle
    (algo, est, obs, ctx); ctx is filled by run_sim"""
    import acnportal.algorithms as alg
    est = None
    if sim["est"] and sim["algo"] != "unc":
        if sim.get("fixed_bounds") is not None:       # an estimator that is not a SimpleRampdown
            est = sc.fixed_estimator({sc.session_name(int(k), sim.get("sid_style") or "sess%d"): v
                                      for k, v in sim["fixed_bounds"].items()})
        else:
            est = alg.SimpleRampdown(*sim["ramp"])
    kw = dict(estimate_max_rate=est is not None, max_rate_estimator=est, uninterrupted_charging=sim["unint"])
    if sim["algo"] == "rr":
        algo = alg.RoundRobin(sc.sort_fn(sim["sort"]), continuous_inc=sim["inc"], **kw)
    elif sim["algo"] == "unc":
        algo = alg.UncontrolledCharging()
    else:
        algo = alg.SortedSchedulingAlgo(sc.sort_fn(sim["sort"]), **kw)
    if "max_recompute" in sim:
        algo.max_recompute = sim["max_recompute"]      # set before the Simulator is built (it copies the attribute)
    obs = sc.Observed(algo, est, sim["algo"])
    ctx = {}
    orig_schedule = algo.schedule

    def schedule(active_sessions):
        iface = algo.interface
        sim_ = ctx["sim"]
        plan = ctx["plan"]
        t = int(iface.current_time)
        net = iface._simulator.network
        op = (plan.get("mutate") or {}).pop(t, None)
        if op is not None:          # the network is modified between two periods of the same run
            from acnportal.acnsim import Current
            names = list(net.constraint_index)
            tc = ctx["truth"]["cons"]
            tn = ctx["truth"]["cnames"]
            if op[0] == "update" and names:
                nm = names[op[1] % len(names)]
                j = tn.index(nm)
                row = dict(tc[j][0])
                newlim = float(round(tc[j][1] * op[2], 2))
                net.update_constraint(nm, Current(row), newlim)
                tc[j] = (row, newlim)
            elif op[0] == "remove" and len(names) > 1:
                nm = names[op[1] % len(names)]
                net.remove_constraint(nm)
                j = tn.index(nm)
                del tc[j]
                del tn[j]
            elif op[0] == "add":
                row = {sid: float(op[1][k % len(op[1])]) for k, sid in enumerate(net.station_ids)}
                net.add_constraint(Current(row), op[2], name="added%d" % t)
                tc.append((row, float(op[2])))
                tn.append("added%d" % t)
        stop = plan.get("stop_at") == t and not ctx.get("stopped")
        if stop and plan.get("stop_before", True):
            ctx["stopped"] = True
            raise (InjectedBase if plan.get("exc") == "base" else Injected)("injected at %d" % t)
        snap = None
        if ctx["capture"]:
            info = iface.infrastructure_info()
            N = len(info.station_ids)
            idx = {n: k for k, n in enumerate(info.station_ids)}
            etype = ["C0" if s["kind"] == "C0" else "F" for s in sim_["stations"]]
            # GROUND TRUTH of the infrastructure: taken from the EVSE objects of the network and from the constraints the
            # harness itself added / edited -- not from what the Interface hands to the algorithm, which is compared with it
            names_ = list(net.station_ids)
            allow_t, maxp_t, minp_t, cont_t = [], [], [], []
            for nm in names_:
                ev_ = net._EVSEs[nm]
                allow_t.append([float(x) for x in ev_.allowable_pilot_signals])
                maxp_t.append(float(ev_.max_rate)); minp_t.append(float(ev_.min_rate)); cont_t.append(bool(ev_.is_continuous))
            truth = ctx["truth"]
            infra = dict(N=N, A=[[float(row.get(nm, 0.0)) for nm in names_] for row, _ in truth["cons"]],
                         L=[float(l) for _, l in truth["cons"]],
                         phases=[float(x) for x in truth["phases"]], volt=[float(x) for x in truth["volt"]],
                         maxp=maxp_t, minp=minp_t, allow=allow_t, cont=cont_t, etype=etype, names=names_)
            seen = dict(A=[[float(x) for x in row] for row in np.asarray(info.constraint_matrix)],
                        L=[float(x) for x in info.constraint_limits], phases=[float(x) for x in info.phases],
                        volt=[float(x) for x in info.voltages], maxp=[float(x) for x in info.max_pilot],
                        minp=[float(x) for x in info.min_pilot],
                        allow=[[float(x) for x in a] for a in info.allowable_pilots],
                        cont=[bool(x) for x in info.is_continuous])
            diff = [k_ for k_ in seen if seen[k_] != infra[k_] and not (k_ in ("A", "L") and sorted(map(repr, zip(seen["A"], seen["L"]))) == sorted(map(repr, zip(infra["A"], infra["L"]))))]
            ctx["info_diff"] = ("Interface.infrastructure_info() reports %s = %r in period %d, the network has %r"
                                % (diff[0], seen[diff[0]], t, infra[diff[0]])) if diff else None
            sess = [dict(st=idx[s.station_id], sid=sc.sid_of(s.session_id), req=float(s.requested_energy),
                         deliv=float(s.energy_delivered), arr=int(s.arrival), dep=int(s.departure),
                         edep=int(s.estimated_departure), mins=[float(x) for x in s.min_rates],
                         maxs=[float(x) for x in s.max_rates]) for s in active_sessions]
            est_ = obs.est
            e = None
            if est_ is not None and not hasattr(est_, "upper_bounds"):
                e = dict(up_thr=1.0, down_thr=1.0, up_inc=1.0, store={sc.sid_of(k): float(v) for k, v in est_.bounds.items()},
                         prev_pilot={}, prev_rate={}, custom=True)
            elif est_ is not None:
                e = dict(up_thr=est_.up_threshold, down_thr=est_.down_threshold, up_inc=est_.up_increment,
                         store={sc.sid_of(k): float(v) for k, v in est_.upper_bounds.items()},
                         prev_pilot={sc.sid_of(k): float(v) for k, v in iface.last_applied_pilot_signals.items()},
                         prev_rate={sc.sid_of(k): float(v) for k, v in iface.last_actual_charging_rate.items()})
            snap = dict(infra=infra, period=float(iface.period), now=t, sessions=sess,
                        algo=sim_["algo"], sort=sim_["sort"], est=e, unint=sim_["unint"], inc=sim_["inc"],
                        sid_style=sim_.get("sid_style"))
            if "max_recompute" in sim_:
                snap["max_recompute"] = sim_["max_recompute"]
        obs.begin()
        out, err = None, None
        try:
            out = orig_schedule(active_sessions)
            if stop:
                ctx["stopped"] = True
                raise (InjectedBase if plan.get("exc") == "base" else Injected)("injected after the call at %d" % t)
            return out
        except (Injected, InjectedBase):
            raise
        except Exception as ex:  # noqa
            err = type(ex).__name__
            raise
        finally:
            rec = obs.end(out, err, list(algo.interface._simulator.network.station_ids))
            if snap is not None:
                rec["info_diff"] = ctx.get("info_diff")
                ctx["calls"].append((snap, rec))
    algo.schedule = schedule
    return (algo, est, obs, ctx)


def run_sim(sim, capture=True, reuse=None, plan=None):
    """run the real Simulator; returns dict(calls=[(unit scenario, in-simulator record)], warnings, exception, energies,
    handle).  Every scheduler invocation is recorded as it happened INSIDE the simulation (the algorithm object lives
    across all periods).  `reuse=handle` runs this simulation with the algorithm object of a previous one.
    `plan`: stop_at=t (the scheduler call of period t raises Injected / InjectedBase, before or after doing its work),
    then optionally a JSON round trip of the Simulator, optionally a FRESH scheduler object, optionally another
    simulation in between (`between`), then run() again; mutate={t: op} edits the network's constraints at period t."""
    from acnportal.acnsim import Simulator, ChargingNetwork, Current
    from acnportal.acnsim.models import EV, EVSE, FiniteRatesEVSE, Battery, Linear2StageBattery
    from acnportal.acnsim.events import EventQueue, PluginEvent
    plan = dict(plan or {})
    if plan.get("mutate"):
        plan["mutate"] = {int(k): v for k, v in plan["mutate"].items()}
    names = sim_names(sim)
    st_ = sim.get("sid_style") or "sess%d"
    as_int = sim.get("dtype") == "int"
    num = (lambda x: int(x) if as_int and float(x) == int(x) else x)
    net = ChargingNetwork()
    for i, st in enumerate(sim["stations"]):
        ev = EVSE(names[i], max_rate=num(st["maxp"])) if st["kind"] == "C0" else FiniteRatesEVSE(names[i], [num(r) for r in st["rates"]])
        net.register_evse(ev, num(st["volt"]), num(st["phase"]))
    for j, c in enumerate(sim["cons"]):
        net.add_constraint(Current({names[int(i)]: num(v) for i, v in c["row"].items()}), num(c["limit"]), name="c%d" % j)
    evs = []
    for e in sim["evs"]:
        if e["batt"] == "ideal":
            b = Battery(e["cap"], max(0.0, e["cap"] - e["req"] - 0.5), e["maxpow"])
        else:
            b = Linear2StageBattery(e["cap"], max(0.0, e["cap"] - e["req"]), e["maxpow"])
        evs.append(EV(e["arr"], e["dep"], num(e["req"]), names[e["st"]], sc.session_name(e["sid"], st_), b,
                      estimated_departure=e["edep"]))
    queue = EventQueue([PluginEvent(e.arrival, e) for e in evs])
    handle = reuse if reuse is not None else make_sim_algo(sim)
    algo, est, obs, ctx = handle
    calls = []
    truth = dict(cons=[({names[int(i)]: float(v) for i, v in c["row"].items()}, float(c["limit"])) for c in sim["cons"]],
                 cnames=["c%d" % j for j in range(len(sim["cons"]))],
                 phases=[float(st["phase"]) for st in sim["stations"]], volt=[float(st["volt"]) for st in sim["stations"]])
    ctx.update(sim=sim, capture=capture, calls=calls, plan=plan, stopped=False, truth=truth)
    sim_obj = Simulator(net, algo, queue, datetime.datetime(2020, 1, 1), period=num(sim["period"]), verbose=False)
    exc = None
    resumed = False
    with warnings.catch_warnings(record=True) as w:
        warnings.simplefilter("always")
        for _attempt in range(2):
            try:
                sim_obj.run()
                break
            except (Injected, InjectedBase):
                if resumed:
                    exc = "injected exception raised twice"
                    break
                resumed = True
                try:
                    if plan.get("json"):
                        sim_obj = Simulator.from_json(sim_obj.to_json())
                    if plan.get("fresh"):
                        handle = make_sim_algo(sim)
                        algo, est, obs, ctx = handle
                        ctx.update(sim=sim, capture=capture, calls=calls, plan=plan, stopped=True, truth=truth)
                    if plan.get("json") or plan.get("fresh"):
                        sim_obj.update_scheduler(algo)
                    if plan.get("between") is not None:
                        plan["between"]()
                except Exception as e:  # noqa
                    exc = "resume failed: %s: %s" % (type(e).__name__, str(e)[:160])
                    break
            except Exception as e:  # noqa
                exc = "%s: %s" % (type(e).__name__, str(e)[:200])
                break
    warns = [str(x.message)[:160] for x in w if "Invalid schedule" in str(x.message)]
    energies = [(str(e.session_id), float(e.energy_delivered), float(e.requested_energy)) for e in sim_obj.ev_history.values()]
    # every period of the run: a non-zero pilot needs a plugged-in session that still has demand at that moment
    idle = None
    try:
        pil = np.asarray(sim_obj.pilot_signals, dtype=float)
        rat = np.asarray(sim_obj.charging_rates, dtype=float)
        ids = list(sim_obj.network.station_ids)
        volts = [float(v) for v in sim_obj.network._voltages]
        per = float(sim_obj.period)
        T = min(pil.shape[1], rat.shape[1], int(sim_obj.iteration))
        stays = {}
        for e in sim_obj.ev_history.values():
            stays.setdefault(ids.index(e.station_id), []).append((int(e.arrival), int(e.departure), float(e.requested_energy), str(e.session_id)))
        for i in range(len(ids)):
            for t in range(T):
                if pil[i, t] == 0:
                    continue
                here = [x for x in stays.get(i, []) if x[0] <= t < x[1]]
                if not here:
                    idle = "station %r has pilot %r in period %d although no session is plugged in" % (ids[i], float(pil[i, t]), t)
                    break
                a0, d0, req, sid = here[0]
                done = float(np.sum(rat[i, a0:t])) * volts[i] / 1000.0 * per / 60.0
                if req - done <= 1e-9:
                    idle = ("station %r has pilot %r in period %d although session %s had already received its %r kWh"
                            % (ids[i], float(pil[i, t]), t, sid, req))
                    break
            if idle:
                break
    except Exception as e:  # noqa
        idle = None
    return dict(calls=calls, warnings=warns, exception=exc, energies=energies, handle=handle,
                interrupted=resumed, idle=idle)


def gen_sim_flip(rng, tier, algo=None, sort=None):
    """two or three EVs behind one binding breaker, plugged in for the whole horizon; under LLF / LRPT the priority order
    flips after a few periods while the set of active sessions stays the same"""
    N = rng.choice([2, 2, 3])
    finite = rng.random() < 0.4
    mp = float(rng.choice([32, 32, 16]))
    st = []
    for i in range(N):
        if finite:
            st.append(dict(kind="F", maxp=mp, rates=[float(x) for x in range(8, int(mp) + 1, 8)]))
        else:
            st.append(dict(kind="C0", maxp=mp, rates=None))
        st[-1]["volt"] = 208.0
        st[-1]["phase"] = 0.0
    period = float(rng.choice([5, 15]))
    lim = float(rng.choice([mp, mp + 8, round(mp * rng.uniform(0.7, 1.3), 1)]))
    cons = [dict(row={i: 1.0 for i in range(N)}, limit=lim)]
    horizon = 14
    per_amp = 208.0 * period / 60.0 / 1000.0
    base = rng.uniform(4.0, 6.5)
    evs = []
    sort = sort or rng.choice(["llf", "lrpt"])
    for i in range(N):
        d = rng.uniform(0.5, 2.5) * i
        edep = horizon + 2 * i
        rpt = ((edep - 1) - ((horizon - 1) - base + d)) if sort == "llf" else (base - d)
        rpt = max(rpt, 1.5)
        req = round(rpt * mp * per_amp, 4)
        evs.append(dict(arr=rng.choice([0, 0, 1]), dep=horizon, edep=edep, req=float(req), st=i, sid=300 + i,
                        batt="ideal", cap=float(req + 50), maxpow=100.0))
    return dict(stations=st, cons=cons, period=period, evs=evs, algo=algo or rng.choice(["greedy", "greedy", "rr"]),
                sort=sort, est=False, unint=rng.random() < 0.2, inc=rng.choice([0.5, 1.0]), ramp=(1.0, 1.0, 1.0))


def rerated(rng, sim):
    """the same station ids on another site: other ratings / voltages / phases / limits"""
    import copy
    s2 = copy.deepcopy(sim)
    for st in s2["stations"]:
        if st["kind"] == "C0":
            st["maxp"] = float(rng.choice([16, 24, 40, 64]))
        else:
            st["rates"] = [r for r in rng.choice(sc.FINITE_SETS[:6]) if r > 0]
            st["maxp"] = max(st["rates"])
        st["volt"] = float(rng.choice([208, 240, 120]))
        st["phase"] = float(rng.choice([0.0, 120.0, -120.0]))
    for c in s2["cons"]:
        c["limit"] = float(round(c["limit"] * rng.uniform(0.5, 1.5), 1))
    for e in s2["evs"]:
        e["sid"] += 500
    return s2


def sim_violation(res):
    if res["exception"]:
        return "simulation raised " + res["exception"]
    if res["warnings"]:
        return "infeasible-schedule warning: " + res["warnings"][0]
    for sid, d, r in res["energies"]:
        if d > r * (1 + 1e-9) + 1e-9:
            return "session %s received %r kWh, more than the %r kWh requested" % (sid, d, r)
    if res.get("idle"):
        return res["idle"]
    for _, rec in res.get("calls", []):
        if rec.get("info_diff"):
            return rec["info_diff"]
    return None


def sim_stream(rng, n_sims, n_calls, tier, mk_case, with_unc=False):
    """run n_sims real simulations (a third of them the LLF/LRPT flip family; every fourth scheduler object is reused on a
    second, re-rated network with the same station ids).  EVERY scheduler invocation is a candidate case carrying what the
    algorithm returned inside the simulation (sampled down to n_calls); a violating simulation is an extra case."""
    cases, pool = [], []
    combos = [(a, s, e, u, i) for a in ("greedy", "rr") for s in sc.SORTS for e in (False, True) for u in (False, True)
              for i in ((0.5, 1.0) if a == "rr" else (0.5, 0.5))]
    rng.shuffle(combos)

    def one(sim, reuse=None, plan=None):
        res = run_sim(sim, reuse=reuse, plan=plan)
        v = sim_violation(res)
        if v:
            cases.append(dict(input=dict(sim=sim, plan={k_: v_ for k_, v_ in (plan or {}).items() if k_ != "between"}),
                              impl=dict(warnings=res["warnings"], exception=res["exception"], energies=res["energies"]),
                              coq=None, ambiguous=True, kind="sim-violation", sig=repr(sim), nontrivial=True,
                              sim_violation=v))
        for snap, rec in res["calls"]:
            pool.append((snap, rec))
        return res
    for k in range(n_sims):
        a, s, e, u, i = combos[k % len(combos)]
        if with_unc and k % 5 == 4:
            sim = gen_sim(rng, tier, "unc", s, False, False, i)
        elif k % 3 == 1:
            sim = gen_sim_flip(rng, tier, algo=a, sort=s if s in ("llf", "lrpt") else None)
        else:
            sim = gen_sim(rng, tier, a, s, e, u, i)
        if rng.random() < 0.35:      # ids whose sorted order differs from registration order, numeric-looking, ...
            sim["names"] = sc.make_names(rng.choice(["offset", "case", "numeric"]), len(sim["stations"]))
            sim["sid_style"] = rng.choice(sc.SID_STYLES)
        if rng.random() < 0.25:
            sim["dtype"] = "int"
        if rng.random() < 0.45:
            sim["max_recompute"] = rng.choice([None, 2, 3, 5, 1])
        if sim["est"] and sim["algo"] != "unc" and rng.random() < 0.4:
            fb = {}
            for e_ in sim["evs"]:
                mp_ = sim["stations"][e_["st"]]["maxp"]
                t_ = rng.random()
                if t_ < 0.3:
                    continue
                fb[e_["sid"]] = float(48.0 if t_ < 0.5 else (mp_ + 16 if t_ < 0.6 else (0.0 if t_ < 0.7 else round(rng.uniform(1, mp_), 1))))
            fb[990] = 64.0
            sim["fixed_bounds"] = fb
        plan = None
        r_ = rng.random()
        if r_ < 0.5:
            # interrupted at some period by an Exception / BaseException raised from the scheduler call (before or after the
            # algorithm did its work), resumed with run(): as is, after a JSON round trip, with a fresh scheduler object
            plan = dict(stop_at=rng.randint(1, 9), exc=rng.choice(["exc", "base"]), stop_before=rng.random() < 0.5,
                        json=rng.random() < 0.5, fresh=rng.random() < 0.35)
            if rng.random() < 0.35:
                other = rerated(rng, sim)
                plan["between"] = (lambda o=other: one(o))       # a second live simulation in between (same station ids)
        if rng.random() < 0.3 and sim["cons"]:
            plan = plan or {}
            plan["mutate"] = {rng.randint(1, 9): rng.choice([("update", rng.randint(0, 3), rng.choice([0.6, 0.8, 1.3])),
                                                            ("remove", rng.randint(0, 3)),
                                                            ("add", [1.0, 0.0, 1.0, 0.5], float(rng.choice([24, 40, 17.5])))])}
        res = one(sim, plan=plan)
        if k % 4 == 3 or sim["algo"] == "unc":
            one(rerated(rng, sim), reuse=res["handle"])          # the SAME scheduler object on another network
    # keep consecutive calls together: sample whole-simulation runs of calls until the budget is used
    keep = pool if len(pool) <= n_calls else None
    if keep is None:
        idx = sorted(rng.sample(range(len(pool)), n_calls))
        keep = [pool[j] for j in idx]
    for snap, rec in keep:
        cases.append(mk_case(snap, "sim", impl=rec))
    return cases


def sim_search_once(rng):
    sim = gen_sim(rng, "quick")
    res = run_sim(sim, capture=False)
    v = sim_violation(res)
    if v:
        return dict(sim=sim, why=v, case=dict(sim=sim), impl=dict(warnings=res["warnings"], exception=res["exception"]))
    return None


def replay_sim(sim, plan=None):
    sim = dict(sim)
    for c in sim["cons"]:
        c["row"] = {int(k): v for k, v in c["row"].items()}
    if plan and plan.get("mutate"):
        plan = dict(plan, mutate={int(k): tuple(v) for k, v in plan["mutate"].items()})
    return sim_violation(run_sim(sim, capture=True, plan=plan))


# =============================================================================================
# direct calls of the public static search functions (explicit and default eps / lb)
# =============================================================================================
def gen_mfr(rng, tier):
    """SortedSchedulingAlgo.max_feasible_rate / discrete_max_feasible_rate called directly on a given vector"""
    scn = sc.gen_scenario(rng, tier, algo="greedy", est=False, user_bounds=False, plenty=0.8)
    inf = scn["infra"]
    base = sc.run_impl(scn)["sched"] or [0.0] * inf["N"]
    sched = [float(x) for x in base]
    t = rng.random()
    if t < 0.25:
        sched = [round(x * rng.uniform(0.3, 1.0), 2) for x in sched]
    elif t < 0.35:
        sched = [float(rng.choice([0, 8, 16, 40])) for _ in sched]        # possibly infeasible to start with
    idx = rng.randrange(inf["N"])
    cont = rng.random() < 0.6
    eps = rng.choice([None, 0.01, 0.0001, 0.5, 0.001, 0.25, 2.0])
    lb = rng.choice([None, 0.0, sched[idx], sched[idx], round(sched[idx] * 0.5, 2)])
    ub = float(rng.choice([inf["maxp"][idx], 32.0, 16.5, max(sched[idx], 1.0) * 2, sched[idx]]))
    levels = sorted(set(rng.choice(sc.FINITE_SETS[:6]) + [sched[idx]])) if rng.random() < 0.5 else list(rng.choice(sc.FINITE_SETS[:6]))
    levels = [a for a in levels if a <= ub] or [0.0]
    if rng.random() < 0.35:
        pos = [a for a in levels if a > max(sched[idx], 0.0)]
        if pos:
            levels = pos                       # no 0, lowest candidate above what the station holds
    return dict(infra=inf, idx=idx, sched=sched, cont=cont, eps=eps, lb=lb, ub=ub, levels=[float(a) for a in levels],
                period=scn["period"], now=scn["now"])


def run_mfr(m):
    from acnportal.algorithms import SortedSchedulingAlgo
    from acnportal.algorithms.tests.testing_interface import TestingInterface
    stub = dict(infra=m["infra"], sessions=[], est=None, period=m["period"], now=m["now"])
    info = TestingInterface(sc.iface_data(stub)).infrastructure_info()
    arr = np.array(m["sched"], dtype=float)
    keep = arr.copy()
    lv = list(m["levels"])
    err, val = None, None
    try:
        if m["cont"]:
            kw = {}
            if m["eps"] is not None:
                kw["eps"] = m["eps"]
            if m["lb"] is not None:
                kw["lb"] = m["lb"]
            val = SortedSchedulingAlgo.max_feasible_rate(m["idx"], m["ub"], arr, info, **kw)
        else:
            val = SortedSchedulingAlgo.discrete_max_feasible_rate(m["idx"], lv, arr, info)
    except Exception as e:  # noqa
        err = type(e).__name__
    return dict(err=err, val=None if val is None else float(val),
                arg_mutated=bool(np.any(arr != keep)) or lv != list(m["levels"]))


def twin_mfr(m):
    stub = dict(infra=m["infra"], sessions=[], est=None, period=m["period"], now=m["now"], algo="greedy", sort="fcfs",
                unint=False, inc=0.5)
    tw = sc.Twin(stub)
    D = sc.D
    F = fractions.Fraction
    x = [D(v) for v in m["sched"]]
    try:
        if m["cont"]:
            e = m["eps"] if m["eps"] is not None else 0.0001
            l = m["lb"] if m["lb"] is not None else 0.0
            r = tw.max_feasible_rate(m["idx"], D(m["ub"]), x, D(e, F(repr(float(e)))), D(l))
        else:
            r = tw.discrete_max(m["idx"], [D(a) for a in m["levels"]], x)
        return dict(err=None, val=r.fl, amb=tw.ctx.amb)
    except sc.TwinError as ex:
        return dict(err=str(ex), val=None, amb=tw.ctx.amb)


def mfr_coq(m, impl):
    from harness.core import q, coq_list, coq_bool, coq_opt, coq_str
    e = m["eps"] if m["eps"] is not None else 0.0001
    l = m["lb"] if m["lb"] is not None else 0.0
    return ("{| m_infra := %s; m_idx := %d; m_sched := %s; m_cont := %s; m_ub := %s; m_eps := %s; m_lb := %s; "
            "m_levels := %s; om_err := %s; om_val := %s |}") % (
        sc.infra_coq(m["infra"]), m["idx"], sc.qlist(m["sched"]), coq_bool(m["cont"]), q(m["ub"]),
        q(fractions.Fraction(repr(float(e)))), q(l), sc.qlist(m["levels"]), coq_opt(impl["err"], coq_str),
        q(impl["val"] if impl["val"] is not None else 0.0))


def monitor_mfr(m, impl):
    if impl.get("arg_mutated"):
        return "max_feasible_rate / discrete_max_feasible_rate modified the schedule array or level list of the caller"
    if impl["err"] is not None:
        exc, _ = exact_margin(m["infra"], m["sched"])
        if exc < -1e-6:
            return "%s raised although the given schedule is feasible" % impl["err"]
        return None
    test = list(m["sched"])
    test[m["idx"]] = impl["val"]
    exc, j = exact_margin(m["infra"], test)
    cur, _ = exact_margin(m["infra"], m["sched"])
    if m["cont"]:
        lb = m["lb"] if m["lb"] is not None else 0.0
        if exc > 1e-9 and abs(impl["val"] - lb) > 1e-12:
            return "max_feasible_rate returned %r which is infeasible by %.3g A" % (impl["val"], exc)
        if impl["val"] > max(m["ub"], lb) + 1e-9:
            return "max_feasible_rate returned %r above ub %r" % (impl["val"], m["ub"])
    else:
        if impl["val"] != 0 and not any(abs(impl["val"] - a) <= 1e-12 for a in m["levels"]):
            return "discrete_max_feasible_rate returned %r which is not one of the given levels" % impl["val"]
        if exc > 1e-9 and impl["val"] != 0:
            return "discrete_max_feasible_rate returned the infeasible level %r" % impl["val"]
        for a in m["levels"]:
            if a > impl["val"] + 1e-9:
                t2 = list(m["sched"])
                t2[m["idx"]] = a
                e2, _ = exact_margin(m["infra"], t2)
                if e2 < -1e-6:
                    return "discrete_max_feasible_rate returned %r although the higher level %r is feasible" % (impl["val"], a)
    return None


def mfr_case(rng, tier):
    m = gen_mfr(rng, tier)
    impl = run_mfr(m)
    tw = twin_mfr(m)
    return dict(input=dict(mfr=m), impl=impl, coq=mfr_coq(m, impl), ambiguous=bool(tw["amb"]),
                kind="direct:%s" % ("max_feasible_rate" if m["cont"] else "discrete_max_feasible_rate"),
                sig=repr(m), nontrivial=True)


# =============================================================================================
# a second process with another PYTHONHASHSEED must return the same schedules
# =============================================================================================
def hashseed_recheck(cases, limit=14):
    """re-run some stub-driven cases in a child process started with PYTHONHASHSEED=4242; returns {index: message}"""
    import json, os, subprocess, sys, tempfile
    picked = [(k, c) for k, c in enumerate(cases)
              if not c.get("ambiguous") and "history" not in c["input"] and "sessions" in c["input"]][:limit]
    if not picked:
        return {}
    with tempfile.NamedTemporaryFile("w", suffix=".json", delete=False) as f:
        json.dump([c["input"] for _, c in picked], f)
        path = f.name
    code = ("import json,sys;from harness import sorted_common as sc;"
            "d=json.load(open(sys.argv[1]));"
            "print(json.dumps([(lambda r:[r['err'],r['sched'],r['order']])(sc.run_impl(sc.scn_from_json(x))) for x in d]))")
    env = dict(os.environ, PYTHONHASHSEED="4242")
    try:
        p = subprocess.run([sys.executable, "-W", "ignore", "-c", code, path], env=env, cwd=os.path.dirname(os.path.dirname(os.path.abspath(__file__))),
                           stdout=subprocess.PIPE, stderr=subprocess.PIPE, text=True, timeout=120)
        res = json.loads(p.stdout.strip().split("\n")[-1])
    except Exception as e:  # noqa
        return {picked[0][0]: "the second process (PYTHONHASHSEED=4242) failed: %s" % str(e)[:120]}
    finally:
        os.unlink(path)
    bad = {}
    for (k, c), r in zip(picked, res):
        i = c["impl"]
        same = r[0] == i["err"] and r[2] == i["order"] and (
            (r[1] is None) == (i["sched"] is None)
            and (r[1] is None or all((a is None and b is None) or (a is not None and b is not None and abs(a - b) <= 1e-12 * max(1, abs(a)))
                                     for a, b in zip(r[1], i["sched"]))))
        if not same:
            bad[k] = "a second process with PYTHONHASHSEED=4242 returns %r instead of %r" % (r[1], i["sched"])
    return bad
