"""Implementation-level monitors for C07 / C08 and the in-simulator stream.

Monitors state the properties directly on the REAL implementation's outputs, with checks that are
independent of the algorithm-side code (exact Fractions, the real ChargingNetwork.is_feasible, the real
EVSE._valid_rate).  They are used to find / confirm failing inputs, never to pass a check."""
import datetime
import fractions
import math
import warnings

import numpy as np

from harness import sorted_common as sc

F = fractions.Fraction
SLACK = 1e-9


# =============================================================================================
# independent feasibility
# =============================================================================================
def exact_margin(inf, sched):
    """max over constraints of (|phasor sum| - (L + tol)) computed with Fractions on the float inputs;
    returns (worst_excess_float, index)"""
    worst, wj = -math.inf, None
    cos = [F(math.cos(math.radians(p))) for p in inf["phases"]]
    sin = [F(math.sin(math.radians(p))) for p in inf["phases"]]
    for j, row in enumerate(inf["A"]):
        re = sum(F(row[i]) * cos[i] * F(sched[i]) for i in range(inf["N"]))
        im = sum(F(row[i]) * sin[i] * F(sched[i]) for i in range(inf["N"]))
        n = math.sqrt(float(re * re + im * im))
        lim = inf["L"][j]
        rhs = lim + max(1e-5, 1e-7 * lim)
        if n - rhs > worst:
            worst, wj = n - rhs, j
    return worst, wj


def real_evse(inf, i, name):
    from acnportal.acnsim.models import EVSE, FiniteRatesEVSE
    et = inf["etype"][i]
    if et in ("C0", "Cm"):
        return EVSE(name, max_rate=inf["maxp"][i], min_rate=inf["minp"][i])
    return FiniteRatesEVSE(name, list(inf["allow"][i]))


def real_network(inf):
    """a real ChargingNetwork with the scenario's EVSEs, voltages, phases and constraints"""
    from acnportal.acnsim import ChargingNetwork, Current
    net = ChargingNetwork()
    for i in range(inf["N"]):
        net.register_evse(real_evse(inf, i, sc.station_name(i)), inf["volt"][i], inf["phases"][i])
    for j, row in enumerate(inf["A"]):
        net.add_constraint(Current({sc.station_name(i): row[i] for i in range(inf["N"])}), inf["L"][j], name="c%d" % j)
    return net


def user_min0(s):
    m = s["mins"]
    return float(m[0]) if isinstance(m, list) else float(m)


def default_bounds(scn):
    return all(user_min0(s) == 0 for s in scn["sessions"])


def monitor_c07(scn, impl):
    """C07 on one recorded run of the real algorithm; None or a description of the violated clause"""
    inf = scn["infra"]
    sess = scn["sessions"]
    if len({s["st"] for s in sess}) != len(sess):
        return None                                   # two sessions on one station: outside the property
    if impl["err"] is not None:
        # No schedule is emitted.  With default session bounds the lower-bound vector is feasible
        # (C07_preproc_lower_bounds_feasible), so an exception is a defect -- except for round robin on a
        # hand-made finite-rate table WITHOUT 0 (never produced by a real network: FiniteRatesEVSE always
        # adds 0): round robin starts such a station at its lowest level, which may be infeasible.
        no_zero = any(inf["etype"][s["st"]] == "Fn" for s in sess)
        if default_bounds(scn) and all(l >= 0 for l in inf["L"]) and not (scn["algo"] == "rr" and no_zero):
            return "algorithm raised %s on sessions with default bounds" % impl["err"]
        return None
    sched = impl["sched"]
    if not impl["shape_ok"] or len(sched) != inf["N"]:
        return "schedule does not map every station to a one-element list"
    if any(x != x or abs(x) == math.inf for x in sched):
        return "non-finite pilot"
    # -- feasible for the network
    exc, j = exact_margin(inf, sched)
    if exc > SLACK * max(1.0, inf["L"][j] if j is not None else 1.0):
        return "infeasible schedule: constraint %d exceeded by %.6g A" % (j, exc)
    if exc < -1e-6:
        try:
            if not real_network(inf).is_feasible(np.array(sched).reshape(-1, 1)):
                return "ChargingNetwork.is_feasible rejects the schedule"
        except Exception as e:  # noqa
            return "ChargingNetwork.is_feasible raised %s" % type(e).__name__
    act = {s["st"]: s for s in sess}
    for i in range(inf["N"]):
        p = sched[i]
        if i not in act:
            if p != 0:
                return "station %d has no active session but pilot %r" % (i, p)
            continue
        s = act[i]
        et = inf["etype"][i]
        if et in ("C0", "F"):
            if not real_evse(inf, i, "x")._valid_rate(p):
                return "pilot %r not accepted by the %s EVSE of station %d" % (p, et, i)
        rap = (s["req"] - s["deliv"]) * 1000 / inf["volt"][i] * 60 / scn["period"]
        if user_min0(s) == 0 and p > max(rap, 0.0) * (1 + SLACK) + SLACK:
            return "pilot %r exceeds the remaining demand %r A*periods of session %d" % (p, rap, s["sid"])
        if p < -SLACK:
            return "negative pilot %r" % p
        if scn["est"] is not None:
            b = (impl["store"] or {}).get(s["sid"])
            if b is None:
                # finished sessions are removed before the estimator is consulted; they must get 0
                if p != 0:
                    return "session %d has a pilot %r but the estimator was never asked for its bound" % (s["sid"], p)
                continue
            floor = max(user_min0(s), inf["minp"][i] if scn["unint"] else 0.0)
            if p > max(b, floor) * (1 + SLACK) + SLACK:
                return "pilot %r exceeds the estimator bound %r of session %d (minimum pilot %r)" % (p, b, s["sid"], floor)
    return None


# =============================================================================================
# C08 monitors: priority order and maximality on the implementation's output
# =============================================================================================
def feasible_exact(inf, sched):
    exc, j = exact_margin(inf, sched)
    return exc, j


def monitor_c08(scn, impl):
    """greedy: with the pilots of higher-priority sessions fixed and lower-priority ones at their lower bound,
    bumping a session to the next level / by eps must be infeasible or exceed its bound.
    round robin: the final state is blocked: raising any session one level is infeasible or above its bound."""
    inf = scn["infra"]
    sess = scn["sessions"]
    if impl["err"] is not None or impl["sched"] is None or impl["pre"] is None or impl["order"] is None:
        return None
    if len({s["st"] for s in sess}) != len(sess):
        return None
    sched = list(impl["sched"])
    by_sid = {s["sid"]: s for s in sess}
    pre = {p[0]: p for p in impl["pre"]}
    # independent priority keys
    keys = {}
    for sid in pre:
        s = by_sid[sid]
        rap = F(s["req"]) - F(s["deliv"])
        rap = rap * 1000 / F(inf["volt"][s["st"]]) * 60 / F(scn["period"])
        mp = F(inf["maxp"][s["st"]])
        keys[sid] = {"fcfs": F(s["arr"]), "lcfs": -F(s["arr"]), "edf": F(s["edep"]),
                     "llf": F(s["edep"]) - scn["now"] - rap / mp, "lrpt": -(rap / mp)}[scn["sort"]]
    order = impl["order"]
    if sorted(order) != sorted(pre):
        return "the processing order is not a permutation of the preprocessed sessions"
    for a, b in zip(order, order[1:]):
        if keys[a] > keys[b] and abs(keys[a] - keys[b]) > F(1, 10 ** 9):
            return "session %d processed before %d although its priority key is larger" % (a, b)
    lbs = {sid: max(0.0, pre[sid][1][0]) for sid in pre}
    raps = {}
    for sid in pre:
        s = by_sid[sid]
        raps[sid] = (s["req"] - s["deliv"]) * 1000 / inf["volt"][s["st"]] * 60 / scn["period"]
    if scn["algo"] == "greedy":
        cur = [0.0] * inf["N"]
        for sid in order:
            cur[by_sid[sid]["st"]] = lbs[sid]
        for sid in order:
            s = by_sid[sid]
            i = s["st"]
            ub = min(pre[sid][2][0], raps[sid])
            r = sched[i]
            test = list(cur)
            if inf["cont"][i]:
                nxt = r + 0.01 + 1e-6
                if r < ub - 1e-6 and nxt <= ub:
                    test[i] = nxt
                    exc, _ = feasible_exact(inf, test)
                    # feasible set of one station is an interval: r+eps feasible means r was not within eps of the max
                    test2 = list(cur)
                    test2[i] = r
                    exc_r, _ = feasible_exact(inf, test2)
                    if exc < -1e-6 and exc_r < 1e-9:
                        return "session %d got %r but %r is also feasible (ub %r): not within the bisection tolerance" % (sid, r, nxt, ub)
                if r < ub - 1e-6 and nxt > ub:
                    test[i] = ub
                    exc, _ = feasible_exact(inf, test)
                    if exc < -1e-6:
                        return "session %d got %r although its upper bound %r is feasible" % (sid, r, ub)
            else:
                higher = [a for a in inf["allow"][i] if lbs[sid] <= a <= ub and a > r + 1e-9]
                for a in higher:
                    test[i] = a
                    exc, _ = feasible_exact(inf, test)
                    if exc < -1e-6:
                        return "session %d got level %r but the higher level %r is feasible" % (sid, r, a)
                if r != 0 and not any(abs(r - a) <= 1e-9 for a in inf["allow"][i]):
                    return "finite-rate station %d got %r which is not one of its levels" % (i, r)
            cur[i] = r
    else:
        inc = scn["inc"]
        for sid in order:
            s = by_sid[sid]
            i = s["st"]
            ub = min(pre[sid][2][0], inf["maxp"][i], raps[sid])
            r = sched[i]
            if inf["cont"][i]:
                nxt = r + inc if (r > 0 or pre[sid][1][0] <= 0) else None
                if r == 0 and pre[sid][1][0] > 0:
                    continue
                # next level of the arange grid anchored at min_rates[0]
                top = pre[sid][2][0]
                if nxt is not None and nxt <= ub - 1e-6 and nxt <= top + inc / 2 - 1e-6 and nxt >= lbs[sid]:
                    test = list(sched)
                    test[i] = nxt
                    exc, _ = feasible_exact(inf, test)
                    if exc < -1e-6 and all(sched[k] >= 0 for k in range(inf["N"])):
                        # final-state check is only valid if no other session was raised after this one stopped;
                        # feasibility is not monotone, so only report when every constraint row has one sign
                        if all(len({math.copysign(1, v) for v in row if v != 0}) <= 1 for row in inf["A"]) \
                                and len(set(inf["phases"])) == 1:
                            return "round robin stopped session %d at %r although %r is feasible and within its bound" % (sid, r, nxt)
            else:
                lv = [a for a in inf["allow"][i] if lbs[sid] <= a <= ub]
                if r != 0 and not any(abs(r - a) <= 1e-9 for a in lv):
                    return "round robin gave finite-rate station %d the pilot %r outside its bound-filtered levels" % (i, r)
                higher = [a for a in lv if a > r + 1e-9]
                if higher and (r != 0 or not lv or lv[0] == 0):
                    test = list(sched)
                    test[i] = min(higher)
                    exc, _ = feasible_exact(inf, test)
                    if exc < -1e-6 and all(len({math.copysign(1, v) for v in row if v != 0}) <= 1 for row in inf["A"]) \
                            and len(set(inf["phases"])) == 1:
                        return "round robin stopped session %d at %r although the next level %r is feasible" % (sid, r, min(higher))
    return None


def monitor_rr_trace(scn, impl):
    """round robin, on the recorded sequence of vectors handed to the feasibility check: sessions are raised one
    level at a time in priority (deque) order; a session leaves only when its next level was rejected at that
    moment or it has no level left within its own bounds; the result is the last accepted vector"""
    inf = scn["infra"]
    tr = impl.get("rr_trace")
    if scn["algo"] != "rr" or tr is None or impl["err"] is not None or impl["pre"] is None or impl["order"] is None:
        return None
    sess = scn["sessions"]
    if len({s["st"] for s in sess}) != len(sess):
        return None
    by_sid = {s["sid"]: s for s in sess}
    pre = {p[0]: p for p in impl["pre"]}
    inc = scn["inc"]
    levels = {}
    for sid in impl["order"]:
        s = by_sid[sid]
        i = s["st"]
        mn0, mx0 = pre[sid][1][0], pre[sid][2][0]
        rap = (s["req"] - s["deliv"]) * 1000 / inf["volt"][i] * 60 / scn["period"]
        lb, ub = max(0.0, mn0), min(mx0, inf["maxp"][i], rap)
        if inf["cont"][i]:
            base = [float(x) for x in np.arange(mn0, mx0 + inc / 2, inc)]
        else:
            base = list(inf["allow"][i])
        # levels within 1e-9 of a bound are left to the ambiguity rule
        levels[sid] = [a for a in base if lb <= a <= ub]
    state = [0.0] * inf["N"]
    for sid in impl["order"]:
        lv = levels[sid]
        state[by_sid[sid]["st"]] = lv[0] if lv else 0.0

    def close(u, v):
        return all(abs(a - b) <= 1e-9 * max(1.0, abs(a)) for a, b in zip(u, v))
    if not tr or not close(tr[0][0], state):
        return "round robin does not start from the first level of every session"
    for vec, ok in tr:
        exc, _ = exact_margin(inf, vec)
        if ok and exc > 1e-6:
            return "an intermediate round-robin state accepted by the check is infeasible by %.3g A" % exc
        if (not ok) and exc < -1e-6:
            return "a feasible intermediate round-robin state was rejected"
    if not tr[0][1]:
        return None
    from collections import deque
    dq = deque(impl["order"])
    idx = {sid: 0 for sid in impl["order"]}
    t = 1
    while dq:
        sid = dq.popleft()
        i = by_sid[sid]["st"]
        lv = levels[sid]
        if idx[sid] < len(lv) - 1:
            if t >= len(tr):
                return "session %d left the queue although it has a level above %r within its bounds and it was never tried" % (sid, lv[idx[sid]])
            want = list(state)
            want[i] = lv[idx[sid] + 1]
            if not close(tr[t][0], want):
                return "step %d of round robin is not 'raise session %d by one level' (expected %r at station %d, checked vector %r)" % (t, sid, want[i], i, tr[t][0])
            if tr[t][1]:
                state = want
                idx[sid] += 1
                dq.append(sid)
            t += 1
    if t != len(tr):
        return "round robin made %d feasibility checks, %d expected" % (len(tr), t)
    if not close(impl["sched"], state):
        return "the emitted schedule is not the last accepted round-robin state"
    return None


def monitor_unc(scn, impl):
    inf = scn["infra"]
    if impl["err"] is not None:
        return "UncontrolledCharging raised %s" % impl["err"]
    act = {s["st"] for s in scn["sessions"]}
    for i in range(inf["N"]):
        v = impl["sched"][i]
        if i in act and v != inf["maxp"][i]:
            return "active station %d got %r instead of its maximum pilot %r" % (i, v, inf["maxp"][i])
        if i not in act and v is not None:
            return "station %d without a session appears in the uncontrolled schedule" % i
    if not impl["shape_ok"]:
        return "uncontrolled schedule entries are not one-element lists"
    return None


# =============================================================================================
# in-simulator stream
# =============================================================================================
def gen_sim(rng, tier, algo=None, sort=None, est=None, unint=None, inc=None):
    """a random network + session history + algorithm configuration for a real Simulator run"""
    N = rng.choice([2, 3, 3, 4, 5] + ([6, 8] if tier == "thorough" else []))
    pset = rng.choice(sc.PHASE_SETS[:3] + sc.PHASE_SETS[:2])
    st = []
    for i in range(N):
        if rng.random() < 0.55:
            st.append(dict(kind="C0", maxp=float(rng.choice([32, 32, 16, 40])), rates=None))
        else:
            rates = [r for r in rng.choice(sc.FINITE_SETS[:6]) if r > 0]
            st.append(dict(kind="F", maxp=max(rates), rates=rates))
        st[-1]["volt"] = float(rng.choice([208, 208, 240, 120]))
        st[-1]["phase"] = float(rng.choice(pset))
    cons = []
    for j in range(rng.choice([1, 1, 2, 2, 3, 4])):
        row = {}
        style = rng.random()
        for i in range(N):
            if style < 0.4:
                c = rng.choice([1.0, 1.0, -1.0, 0.0])
            elif style < 0.7:
                c = 1.0
            else:
                c = rng.choice([0.0, 0.25, -0.25, 0.5, -0.5, 1.0, -1.0])
            if c != 0:
                row[i] = c
        if not row:
            row[rng.randrange(N)] = 1.0
        re = sum(c * math.cos(math.radians(st[i]["phase"])) * st[i]["maxp"] for i, c in row.items())
        im = sum(c * math.sin(math.radians(st[i]["phase"])) * st[i]["maxp"] for i, c in row.items())
        full = max(math.hypot(re, im), 0.3 * sum(abs(c) * st[i]["maxp"] for i, c in row.items()), 6.0)
        lim = round(full * rng.uniform(0.2, 1.0), rng.choice([0, 1]))
        cons.append(dict(row=row, limit=float(lim)))
    period = float(rng.choice([1, 5, 5, 15]))
    horizon = rng.choice([12, 20, 30])
    evs = []
    sid = 0
    for i in range(N):
        t = rng.randint(0, 4)
        while t < horizon - 2 and rng.random() < 0.85:
            dep = min(horizon, t + rng.randint(2, 14))
            per_amp = st[i]["volt"] * period / 60.0 / 1000.0
            stay = dep - t
            frac = rng.choice([0.15, 0.4, 0.8, 1.5])
            req = round(max(0.05, per_amp * st[i]["maxp"] * stay * frac * rng.uniform(0.5, 1.0)), 3)
            batt = rng.choice(["ideal", "ideal", "l2"])
            evs.append(dict(arr=t, dep=dep, edep=max(t + 1, dep + rng.randint(-3, 3)), req=float(req), st=i,
                            sid=sid + 100, batt=batt, cap=float(round(req * rng.uniform(1.0, 2.0) + 1, 2)),
                            maxpow=float(rng.choice([3.3, 6.6, 7.0, 10.0, 50.0]))))
            sid += 1
            t = dep + rng.randint(0, 3)
    a, s_, e, u, i_ = (algo or rng.choice(["greedy", "rr"]), sort or rng.choice(sc.SORTS),
                        rng.random() < 0.5 if est is None else est, rng.random() < 0.5 if unint is None else unint,
                        inc if inc is not None else rng.choice([0.5, 1.0, 0.1]))
    return dict(stations=st, cons=cons, period=period, evs=evs, algo=a, sort=s_, est=e, unint=u, inc=i_,
                ramp=(1.0, 1.0, 1.0) if rng.random() < 0.7 else (0.5, 2.0, 0.5))


def run_sim(sim, capture=True, reuse=None):
    """run the real Simulator; returns dict(calls=[(unit scenario, in-simulator record)], warnings, exception, energies,
    handle).  Every scheduler invocation is recorded as it happened INSIDE the simulation (the algorithm object lives
    across all periods); `reuse=handle` runs this simulation with the algorithm object of a previous one."""
    from acnportal.acnsim import Simulator, ChargingNetwork, Current
    from acnportal.acnsim.models import EV, EVSE, FiniteRatesEVSE, Battery, Linear2StageBattery
    from acnportal.acnsim.events import EventQueue, PluginEvent
    import acnportal.algorithms as alg
    net = ChargingNetwork()
    for i, st in enumerate(sim["stations"]):
        ev = EVSE(sc.station_name(i), max_rate=st["maxp"]) if st["kind"] == "C0" else FiniteRatesEVSE(sc.station_name(i), list(st["rates"]))
        net.register_evse(ev, st["volt"], st["phase"])
    for j, c in enumerate(sim["cons"]):
        net.add_constraint(Current({sc.station_name(int(i)): v for i, v in c["row"].items()}), c["limit"], name="c%d" % j)
    evs = []
    for e in sim["evs"]:
        if e["batt"] == "ideal":
            b = Battery(e["cap"], max(0.0, e["cap"] - e["req"] - 0.5), e["maxpow"])
        else:
            b = Linear2StageBattery(e["cap"], max(0.0, e["cap"] - e["req"]), e["maxpow"])
        evs.append(EV(e["arr"], e["dep"], e["req"], sc.station_name(e["st"]), sc.session_name(e["sid"]), b,
                      estimated_departure=e["edep"]))
    queue = EventQueue([PluginEvent(e.arrival, e) for e in evs])
    if reuse is not None:
        algo, est, obs, ctx = reuse
    else:
        est = alg.SimpleRampdown(*sim["ramp"]) if (sim["est"] and sim["algo"] != "unc") else None
        kw = dict(estimate_max_rate=est is not None, max_rate_estimator=est, uninterrupted_charging=sim["unint"])
        if sim["algo"] == "rr":
            algo = alg.RoundRobin(sc.sort_fn(sim["sort"]), continuous_inc=sim["inc"], **kw)
        elif sim["algo"] == "unc":
            algo = alg.UncontrolledCharging()
        else:
            algo = alg.SortedSchedulingAlgo(sc.sort_fn(sim["sort"]), **kw)
        obs = sc.Observed(algo, est, sim["algo"])
        ctx = {}
        orig_schedule = algo.schedule

        def schedule(active_sessions):
            iface = algo.interface
            sim_ = ctx["sim"]
            snap = None
            if ctx["capture"]:
                info = iface.infrastructure_info()
                N = len(info.station_ids)
                idx = {n: k for k, n in enumerate(info.station_ids)}
                etype = ["C0" if s["kind"] == "C0" else "F" for s in sim_["stations"]]
                infra = dict(N=N, A=[[float(x) for x in row] for row in np.asarray(info.constraint_matrix)],
                             L=[float(x) for x in info.constraint_limits], phases=[float(x) for x in info.phases],
                             volt=[float(x) for x in info.voltages], maxp=[float(x) for x in info.max_pilot],
                             minp=[float(x) for x in info.min_pilot],
                             allow=[[float(x) for x in a] for a in info.allowable_pilots],
                             cont=[bool(x) for x in info.is_continuous], etype=etype)
                sess = [dict(st=idx[s.station_id], sid=sc.sid_of(s.session_id), req=float(s.requested_energy),
                             deliv=float(s.energy_delivered), arr=int(s.arrival), dep=int(s.departure),
                             edep=int(s.estimated_departure), mins=[float(x) for x in s.min_rates],
                             maxs=[float(x) for x in s.max_rates]) for s in active_sessions]
                e = None
                if est is not None:
                    e = dict(up_thr=est.up_threshold, down_thr=est.down_threshold, up_inc=est.up_increment,
                             store={sc.sid_of(k): float(v) for k, v in est.upper_bounds.items()},
                             prev_pilot={sc.sid_of(k): float(v) for k, v in iface.last_applied_pilot_signals.items()},
                             prev_rate={sc.sid_of(k): float(v) for k, v in iface.last_actual_charging_rate.items()})
                snap = dict(infra=infra, period=float(iface.period), now=int(iface.current_time), sessions=sess,
                            algo=sim_["algo"], sort=sim_["sort"], est=e, unint=sim_["unint"], inc=sim_["inc"])
            obs.begin()
            out, err = None, None
            try:
                out = orig_schedule(active_sessions)
                return out
            except Exception as ex:  # noqa
                err = type(ex).__name__
                raise
            finally:
                rec = obs.end(out, err, len(sim_["stations"]))
                if snap is not None:
                    ctx["calls"].append((snap, rec))
        algo.schedule = schedule
    ctx["sim"], ctx["capture"], ctx["calls"] = sim, capture, []
    sim_obj = Simulator(net, algo, queue, datetime.datetime(2020, 1, 1), period=sim["period"], verbose=False)
    exc = None
    with warnings.catch_warnings(record=True) as w:
        warnings.simplefilter("always")
        try:
            sim_obj.run()
        except Exception as e:  # noqa
            exc = "%s: %s" % (type(e).__name__, str(e)[:200])
    warns = [str(x.message)[:160] for x in w if "Invalid schedule" in str(x.message)]
    energies = [(e.session_id, float(e.energy_delivered), float(e.requested_energy)) for e in evs]
    return dict(calls=ctx["calls"], warnings=warns, exception=exc, energies=energies, handle=(algo, est, obs, ctx))


def gen_sim_flip(rng, tier, algo=None, sort=None):
    """two or three EVs behind one binding breaker, plugged in for the whole horizon; under LLF / LRPT the priority order
    flips after a few periods while the set of active sessions stays the same"""
    N = rng.choice([2, 2, 3])
    finite = rng.random() < 0.4
    mp = float(rng.choice([32, 32, 16]))
    st = []
    for i in range(N):
        if finite:
            st.append(dict(kind="F", maxp=mp, rates=[float(x) for x in range(8, int(mp) + 1, 8)]))
        else:
            st.append(dict(kind="C0", maxp=mp, rates=None))
        st[-1]["volt"] = 208.0
        st[-1]["phase"] = 0.0
    period = float(rng.choice([5, 15]))
    lim = float(rng.choice([mp, mp + 8, round(mp * rng.uniform(0.7, 1.3), 1)]))
    cons = [dict(row={i: 1.0 for i in range(N)}, limit=lim)]
    horizon = 14
    per_amp = 208.0 * period / 60.0 / 1000.0
    base = rng.uniform(4.0, 6.5)
    evs = []
    sort = sort or rng.choice(["llf", "lrpt"])
    for i in range(N):
        d = rng.uniform(0.5, 2.5) * i
        edep = horizon + 2 * i
        rpt = ((edep - 1) - ((horizon - 1) - base + d)) if sort == "llf" else (base - d)
        rpt = max(rpt, 1.5)
        req = round(rpt * mp * per_amp, 4)
        evs.append(dict(arr=rng.choice([0, 0, 1]), dep=horizon, edep=edep, req=float(req), st=i, sid=300 + i,
                        batt="ideal", cap=float(req + 50), maxpow=100.0))
    return dict(stations=st, cons=cons, period=period, evs=evs, algo=algo or rng.choice(["greedy", "greedy", "rr"]),
                sort=sort, est=False, unint=rng.random() < 0.2, inc=rng.choice([0.5, 1.0]), ramp=(1.0, 1.0, 1.0))


def rerated(rng, sim):
    """the same station ids on another site: other ratings / voltages / phases / limits"""
    import copy
    s2 = copy.deepcopy(sim)
    for st in s2["stations"]:
        if st["kind"] == "C0":
            st["maxp"] = float(rng.choice([16, 24, 40, 64]))
        else:
            st["rates"] = [r for r in rng.choice(sc.FINITE_SETS[:6]) if r > 0]
            st["maxp"] = max(st["rates"])
        st["volt"] = float(rng.choice([208, 240, 120]))
        st["phase"] = float(rng.choice([0.0, 120.0, -120.0]))
    for c in s2["cons"]:
        c["limit"] = float(round(c["limit"] * rng.uniform(0.5, 1.5), 1))
    for e in s2["evs"]:
        e["sid"] += 500
    return s2


def sim_violation(res):
    if res["exception"]:
        return "simulation raised " + res["exception"]
    if res["warnings"]:
        return "infeasible-schedule warning: " + res["warnings"][0]
    for sid, d, r in res["energies"]:
        if d > r * (1 + 1e-9) + 1e-9:
            return "session %s received %r kWh, more than the %r kWh requested" % (sid, d, r)
    return None


def sim_stream(rng, n_sims, n_calls, tier, mk_case, with_unc=False):
    """run n_sims real simulations (a third of them the LLF/LRPT flip family; every fourth scheduler object is reused on a
    second, re-rated network with the same station ids).  EVERY scheduler invocation is a candidate case carrying what the
    algorithm returned inside the simulation (sampled down to n_calls); a violating simulation is an extra case."""
    cases, pool = [], []
    combos = [(a, s, e, u, i) for a in ("greedy", "rr") for s in sc.SORTS for e in (False, True) for u in (False, True)
              for i in ((0.5, 1.0) if a == "rr" else (0.5, 0.5))]
    rng.shuffle(combos)

    def one(sim, reuse=None):
        res = run_sim(sim, reuse=reuse)
        v = sim_violation(res)
        if v:
            cases.append(dict(input=dict(sim=sim), impl=dict(warnings=res["warnings"], exception=res["exception"],
                                                             energies=res["energies"]),
                              coq=None, ambiguous=True, kind="sim-violation", sig=repr(sim), nontrivial=True,
                              sim_violation=v))
        for snap, rec in res["calls"]:
            pool.append((snap, rec))
        return res
    for k in range(n_sims):
        a, s, e, u, i = combos[k % len(combos)]
        if with_unc and k % 5 == 4:
            sim = gen_sim(rng, tier, "unc", s, False, False, i)
        elif k % 3 == 1:
            sim = gen_sim_flip(rng, tier, algo=a, sort=s if s in ("llf", "lrpt") else None)
        else:
            sim = gen_sim(rng, tier, a, s, e, u, i)
        res = one(sim)
        if k % 4 == 3 or sim["algo"] == "unc":
            one(rerated(rng, sim), reuse=res["handle"])          # the SAME scheduler object on another network
    # keep consecutive calls together: sample whole-simulation runs of calls until the budget is used
    keep = pool if len(pool) <= n_calls else None
    if keep is None:
        idx = sorted(rng.sample(range(len(pool)), n_calls))
        keep = [pool[j] for j in idx]
    for snap, rec in keep:
        cases.append(mk_case(snap, "sim", impl=rec))
    return cases


def sim_search_once(rng):
    sim = gen_sim(rng, "quick")
    res = run_sim(sim, capture=False)
    v = sim_violation(res)
    if v:
        return dict(sim=sim, why=v, case=dict(sim=sim), impl=dict(warnings=res["warnings"], exception=res["exception"]))
    return None


def replay_sim(sim):
    sim = dict(sim)
    for c in sim["cons"]:
        c["row"] = {int(k): v for k, v in c["row"].items()}
    return sim_violation(run_sim(sim, capture=False))
