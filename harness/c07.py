"""C07 — sorting-based algorithms only emit safe schedules."""
import itertools
import json
import os
import time

from harness import core
from harness import sorted_common as sc
from harness import sorted_monitors as sm

PID = "C07"
GEN_GROUPS = ["Sorted", "SortedZ", "Evse", "Battery"]
TARGETS = ["coq/Props/C07.vo", "coq/Model/Sorted.vo"]
CASES = {"quick": 280, "thorough": 5500}
SEQS = {"quick": 10, "thorough": 150}           # multi-call sequences on ONE algorithm object
SIMS = {"quick": 24, "thorough": 400}
SIM_CALLS = {"quick": 160, "thorough": 2500}
CORR_HEADER = ("From Coq Require Import ZArith QArith List String.\n"
               "From ACN Require Import Base.Num Model.Preproc Model.Sorted.\nImport ListNotations.\n"
               "Open Scope string_scope.\nOpen Scope Q_scope.\n")
CHECK_FN = "check_sorted"
SHARD = 20
RULE = ("[wave 7: finite-rate level tables without 0 whose lowest level exceeds the head-room left by higher-priority grants; direct discrete_max_feasible_rate calls on such lists] [wave 6: in-simulator infrastructure taken from the EVSE objects / the harness' own constraint record and compared with Interface.infrastructure_info() at every call; sessions whose own minimum rate exceeds the remaining demand] [checklist families: object reuse, interleaved instances, caller-owned data frozen/vandalised, odd ids and dtypes, mid-run JSON round trip, constraint mutations between calls, odd periods/increments, interrupted+resumed runs, second process with another hash seed, direct entry points] unit level: random InfrastructureInfo (1-6 stations, 0-6 three-phase mixed-sign constraints placed where they bind, "
        "continuous / finite-rate EVSEs, unequal voltages) x random active sessions with session_id != station_id "
        "(plenty left / between levels / nearly finished / finished) x 5 sort orders x {greedy, round robin} x "
        "{estimator on/off with random SimpleRampdown state} x {uninterrupted on/off} x increments {0.1,0.5,1}, cycling "
        "through all 80 option combinations, plus (every third greedy case) a targeted family where the head-room of a finite-rate EVSE under a binding monotone constraint is delta A below one of its levels, delta in {1e-4 .. 3e-2, -1e-3}; the REAL algorithm runs through the repo's TestingInterface and its schedule, "
        "exception, preprocessed sessions, processing order and estimator store are compared with the model. "
        "in-simulator: the same algorithms inside the real Simulator on generated histories; every scheduler invocation is "
        "captured as a unit case (states reached during simulations) and the run is monitored for infeasible-schedule "
        "warnings, InvalidRateError and energy_delivered <= requested. A case is ambiguous (skipped) when a float-computed "
        "decision of the run (feasibility norm, level filter, bisection stop, np.arange length, rampdown test, sort key) is "
        "within 1e-9 of flipping, decided with Fractions by an exact/float twin. non-trivial = distinct scenario with >= 1 session.")
ASSUMPTIONS = [
    "theorems are over Q (exact arithmetic on the float inputs); the implementation computes in IEEE doubles",
    "cos/sin of the phase angles enter the executable feasibility check as inputs computed by the harness with math.cos/math.sin",
    "continuous_inc is taken as the decimal rational it denotes (0.1 -> 1/10); np.arange levels are start + k*step exactly",
    "float('inf') as a session max rate is represented by 10^12 (only min(., max_pilot) is ever taken of it)",
    "stations are identified by their index in station_ids, sessions by an integer id; one session per station in the theorems (NoDup)",
    "C07_sim_safe composes with C06 (network check = algorithm-side check for equal tolerances), C13 (EVSE acceptance) and C03 (actual rate <= pilot); those are hypotheses here",
    "pilot <= remaining demand is claimed for sessions whose own min_rates[0] is 0 (what Interface.active_sessions produces); a user-imposed minimum above the remaining demand is emitted as is",
]
TRUSTED_EXTRA = ["harness/sorted_common.py: scenario generator, TestingInterface stub driver, the exact/float twin used only to flag float-ambiguous cases",
                 "numpy semantics of np.arange / np.minimum / boolean-mask assignment / np.linalg.norm as modelled in Model/Preproc.v and Model/Sorted.v"]

COMBOS = [(a, s, e, u, i) for a in ("greedy", "rr") for s in sc.SORTS for e in (False, True) for u in (False, True)
          for i in ((0.1, 0.5, 1.0, 3.0, 0.3, 7.0) if a == "rr" else (0.5,) * 6)]      # greedy and round robin equally often; increments that do not divide the range
CORPUS = os.path.join(core.ROOT, "corpus", "C07")


def mk_case(scn, src="unit", impl=None):
    impl = sc.run_impl(scn) if impl is None else impl
    tw = sc.Twin(scn)
    r = tw.run()
    return dict(input=scn, impl=impl, coq=sc.case_coq(scn, impl), ambiguous=bool(r["amb"]), amb_why=r["amb"],
                kind="%s:%s/%s/est%d/un%d" % (src, scn["algo"], scn["sort"], scn["est"] is not None, scn["unint"]),
                sig=json.dumps(scn, sort_keys=True, default=str), nontrivial=len(scn["sessions"]) > 0)


def corpus_scenarios():
    out = []
    if os.path.isdir(CORPUS):
        for f in sorted(os.listdir(CORPUS)):
            if f.endswith(".json"):
                with open(os.path.join(CORPUS, f)) as fh:
                    d = json.load(fh)
                if d.get("level") == "unit":
                    out.append(sc.scn_from_json(d["scenario"]))
    return out


def gen_cases(rng, n, tier):
    cases = []
    for scn in corpus_scenarios():
        cases.append(mk_case(scn, "corpus"))
    combos = list(COMBOS)
    rng.shuffle(combos)
    it = itertools.cycle(combos)
    while len(cases) < n:
        a, s, e, u, i = next(it)
        if a == "greedy" and len(cases) % 3 == 0:
            # head-room of a finite-rate EVSE a few mA below one of its levels (39.995 A breaker ...)
            cases.append(mk_case(sc.gen_level_edge(rng, tier, sort=s, unint=u), "edge"))
            continue
        scn = sc.gen_scenario(rng, tier, algo=a, sort=s, est=e, unint=u, inc=i,
                              user_bounds=rng.random() < 0.35)
        cases.append(mk_case(scn))
    # the same inputs in a second process with another PYTHONHASHSEED
    for k, msg in sm.hashseed_recheck(cases[len(cases) // 2:], limit=14).items():
        cases[len(cases) // 2 + k]["hash_violation"] = msg
    return cases


def extra_streams(rng, tier):
    """in-simulator stream: every scheduler invocation of real Simulator runs, as unit cases"""
    cases = []
    if os.path.isdir(CORPUS):          # past failing simulations are always replayed first
        for f in sorted(os.listdir(CORPUS)):
            if f.endswith(".json"):
                with open(os.path.join(CORPUS, f)) as fh:
                    d = json.load(fh)
                if d.get("level") == "sim":
                    v = sm.replay_sim(d["sim"])
                    cases.append(dict(input=dict(sim=d["sim"]), impl=dict(violation=v), coq=None, ambiguous=True,
                                      kind="corpus-sim", sig=f, nontrivial=True, sim_violation=v))
    cases += sm.sim_stream(rng, SIMS[tier], SIM_CALLS[tier], tier, mk_case)
    seq = []
    for k in range(SEQS[tier]):
        run = sc.run_interleaved(rng, tier) if k % 3 == 2 else sc.run_sequence(rng, tier)
        for scn, impl, tag in run:
            seq.append(mk_case(scn, tag, impl=impl))
    return [("sim", CORR_HEADER, CHECK_FN, cases), ("seq", CORR_HEADER, CHECK_FN, seq)]


def monitor(case):
    if case.get("sim_violation"):
        return case["sim_violation"]
    if case.get("hash_violation"):
        return case["hash_violation"]
    if case.get("replay_mismatch"):
        return ("a scheduler call captured inside the Simulator returned %r, but the same algorithm on the same "
                "sessions / infrastructure through the stub interface returns %r" % (case.get("sim_out"), case["impl"]["sched"]))
    if case.get("ambiguous"):
        return None
    return sm.monitor_c07(case["input"], case["impl"])


def search(rng, budget_s, broken):
    t0 = time.time()
    while time.time() - t0 < budget_s:
        a, s, e, u, i = rng.choice(COMBOS)
        if rng.random() < 0.5:
            scn = sc.gen_level_edge(rng, "quick", sort=s, unint=u)
        else:
            scn = sc.gen_scenario(rng, "quick", algo=a, sort=s, est=e, unint=u, inc=i, user_bounds=rng.random() < 0.5)
        impl = sc.run_impl(scn)
        r = sm.monitor_c07(scn, impl)
        if r and not sc.Twin(scn).run()["amb"]:
            return dict(case=scn, impl=impl, why=r)
        if rng.random() < 0.05:
            w = sm.sim_search_once(rng)
            if w:
                return w
    return None


def replay(w):
    if "sim" in w.get("case", {}):
        return sm.replay_sim(w["case"]["sim"], w["case"].get("plan"))
    if "sim" in w:
        return sm.replay_sim(w["sim"])
    scn, impl = sc.replay_with_history(w["case"])
    return sm.monitor_c07(scn, impl)
