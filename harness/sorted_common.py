"""Shared machinery for C07 / C08 (sorting-based algorithms).

* scenario generator: random InfrastructureInfo data (three-phase, mixed-sign constraint matrices, mixed
  continuous / finite-rate EVSEs, unequal voltages) + active SessionInfo sets with session_id != station_id
  + estimator state + options;
* run_impl: runs the REAL SortedSchedulingAlgo / RoundRobin / UncontrolledCharging from $ACN_REPO through the
  repo's own TestingInterface stub and records the schedule, the exception, the preprocessed sessions,
  the processing order and the estimator's store;
* Twin: an exact/float "dual number" re-execution used ONLY to decide whether some float-computed decision of
  the run is within 1e-9 of flipping (=> the case is skipped as ambiguous).  It never passes a check;
* coq_case: the Coq term of the correspondence record (Model/Sorted.v :: sortcase).
"""
import fractions
import json
import re
import math

import numpy as np

from harness.core import q, z, coq_list, coq_bool, coq_opt, coq_str

F = fractions.Fraction
TOL = F(2, 10 ** 9)
SORTS = ["fcfs", "lcfs", "edf", "llf", "lrpt"]
SORT_COQ = dict(fcfs="FCFS", lcfs="LCFS", edf="EDF", llf="LLF", lrpt="LRPT")


def _algos():
    import acnportal.algorithms as alg
    return alg


def sort_fn(name):
    alg = _algos()
    return dict(fcfs=alg.first_come_first_served, lcfs=alg.last_come_first_served,
                edf=alg.earliest_deadline_first, llf=alg.least_laxity_first,
                lrpt=alg.largest_remaining_processing_time)[name]


# =============================================================================================
# scenario generation
# =============================================================================================
PHASE_SETS = [
    [0.0, 120.0, -120.0],          # wye
    [30.0, 150.0, -90.0],          # delta (caltech / jpl style)
    [0.0, 0.0, 0.0],               # single phase
    [0.0, 180.0, 90.0],            # exact rational phasors (0, pi, pi/2)
]
FINITE_SETS = [
    [0.0, 8.0, 16.0, 24.0, 32.0],
    [0.0] + [float(x) for x in range(6, 33)],
    [0.0, 6.0, 12.0, 18.0, 24.0, 30.0],
    [0.0, 6.5, 13.0, 19.5, 26.0],
    [0.0, 7.25, 16.0, 31.5],
    [0.0, 16.0],
    [8.0, 16.0, 24.0, 32.0],       # a hand-made table without 0 (data dict only)
]


def gen_infra(rng, tier, n=None):
    N = n if n is not None else rng.choice([1, 2, 2, 3, 3, 4, 4, 5, 6] + ([8, 10] if tier == "thorough" else []))
    pset = rng.choice(PHASE_SETS + PHASE_SETS[:2])
    phases, volt, maxp, minp, allow, cont, etype = [], [], [], [], [], [], []
    for i in range(N):
        ph = rng.choice(pset) if rng.random() < 0.93 else round(rng.uniform(-180, 180), 1)
        phases.append(float(ph))
        volt.append(float(rng.choice([208, 208, 240, 120, 277, 200.5])))
        t = rng.random()
        if t < 0.45:        # continuous from zero
            mx = float(rng.choice([32, 32, 16, 40, 64, 80, 12.5]))
            allow.append([0.0, mx]); minp.append(0.0); maxp.append(mx); cont.append(True); etype.append("C0")
        elif t < 0.58:      # continuous with a positive minimum (outside the EVSE clause of C07; unit level only)
            mx = float(rng.choice([32, 16, 40]))
            mn = float(rng.choice([6, 8, 1.5]))
            allow.append([mn, mx]); minp.append(mn); maxp.append(mx); cont.append(True); etype.append("Cm")
        else:
            rates = list(rng.choice(FINITE_SETS))
            pos = [r for r in rates if r > 0]
            allow.append(rates); minp.append(min(pos)); maxp.append(max(rates)); cont.append(False)
            etype.append("F" if 0.0 in rates else "Fn")
    M = rng.choice([0, 1, 1, 2, 2, 3, 3, 4, 5, 6])
    A, L = [], []
    cosv = [math.cos(math.radians(p)) for p in phases]
    sinv = [math.sin(math.radians(p)) for p in phases]
    for j in range(M):
        style = rng.random()
        row = [0.0] * N
        if style < 0.35:     # line constraint: +1 on one phase group, -1 on another
            pa, pb = rng.sample(range(3), 2) if len(set(pset)) >= 2 else (0, 0)
            for i in range(N):
                if phases[i] == pset[pa]:
                    row[i] = 1.0
                elif phases[i] == pset[pb]:
                    row[i] = -1.0 if rng.random() < 0.9 else 1.0
        elif style < 0.55:   # aggregate of everything (same sign, different phases: non-monotone)
            for i in range(N):
                row[i] = 1.0 if rng.random() < 0.85 else 0.0
        elif style < 0.75:   # transformer-style fractional mixed signs
            for i in range(N):
                row[i] = rng.choice([0.0, 0.25, -0.25, 0.5, -0.5, 1.0, -1.0, 0.25, -0.25])
        elif style < 0.9:    # single station / pair
            for i in rng.sample(range(N), min(N, rng.choice([1, 2]))):
                row[i] = rng.choice([1.0, -1.0, 0.5])
        else:                # arbitrary rationals
            for i in range(N):
                row[i] = round(rng.uniform(-1.5, 1.5), 3) if rng.random() < 0.7 else 0.0
        # full-load magnitude of this row, to place the limit where it binds
        re = sum(row[i] * cosv[i] * maxp[i] for i in range(N))
        im = sum(row[i] * sinv[i] * maxp[i] for i in range(N))
        full = math.hypot(re, im)
        lin = sum(abs(row[i]) * maxp[i] for i in range(N))
        t = rng.random()
        if t < 0.15:
            lim = float(rng.choice([1000, 400]))                    # never binds
        elif t < 0.75:
            lim = round(max(full, 0.3 * lin, 4.0) * rng.uniform(0.15, 1.1), rng.choice([0, 1, 3]))
        elif t < 0.9:
            lim = float(rng.choice([8, 16, 20, 32, 40, 50, 64, 80]))
        else:
            lim = round(rng.uniform(0, 12), 2)                      # very tight
        A.append(row)
        L.append(float(lim))
    return dict(N=N, A=A, L=L, phases=phases, volt=volt, maxp=maxp, minp=minp, allow=allow, cont=cont, etype=etype)


def gen_sessions(rng, infra, now, period, distinct_keys=False, user_bounds=True, plenty=0.45):
    N = infra["N"]
    k = rng.choice([0, 1] + list(range(1, N + 1)) * 3)
    k = min(k, N)
    stations = rng.sample(range(N), k)
    if k >= 1 and not distinct_keys and rng.random() < 0.04:
        stations.append(rng.choice(stations))          # two sessions on one station (never in a simulation)
    sess = []
    used_sid = set()
    arrivals = rng.sample(range(max(0, now - 40), now + 1), min(len(stations), min(now, 40) + 1)) \
        if distinct_keys and min(now, 40) + 1 >= len(stations) else None
    for n_, st in enumerate(stations):
        while True:
            sid = rng.randint(0, 60)
            if sid not in used_sid and sid != st:
                used_sid.add(sid)
                break
        arr = arrivals[n_] if arrivals is not None else rng.randint(max(0, now - 30), now)
        dep = now + rng.randint(1, 12)
        edep = dep if rng.random() < 0.5 else max(arr + 1, dep + rng.randint(-8, 8))
        V = infra["volt"][st]
        mp, mn = infra["maxp"][st], infra["minp"][st]
        per_amp = V * period / 60.0 / 1000.0            # kWh delivered by 1 A for one period
        req = round(rng.uniform(1, 40), rng.choice([0, 1, 3]))
        t = rng.random()
        if t < plenty:                                   # plenty left
            rem = rng.uniform(0.3, 1.0) * req
            t = 0.0
        else:
            t = 0.45 + (t - plenty) / (1 - plenty) * 0.55
        if t == 0.0:
            pass
        elif t < 0.6:                                    # remaining demand between two levels / below max pilot
            rem = per_amp * rng.uniform(0.05, 1.0) * mp
        elif t < 0.8:                                    # nearly finished: around the minimum pilot / threshold
            base = mn if mn > 0 else rng.choice([1.0, 6.0])
            rem = per_amp * base * (1 + rng.choice([-1, 1]) * rng.choice([0.0, 1e-6, 1e-3, 0.05, 0.3]))
        elif t < 0.88:                                   # around a level of the station
            lv = rng.choice(infra["allow"][st])
            rem = per_amp * lv * (1 + rng.choice([-1, 1]) * rng.choice([0.0, 1e-6, 1e-4, 0.01]))
        elif t < 0.94:
            rem = rng.choice([0.0, -0.5, 1e-6])          # finished / over-delivered
        else:
            rem = per_amp * rng.uniform(0.0, 2.0)
        deliv = req - rem
        rt = min(dep - arr, dep - now)
        # min_rates / max_rates as handed to SessionInfo
        u = rng.random()
        if not user_bounds or u < 0.7:
            mins = 0                                     # the Interface default: an INTEGER array of zeros
        elif u < 0.8:
            mins = 0.0
        elif u < 0.9:
            mins = [float(rng.choice([0, 0, mn, 6, 3.3, 8]))] + [0.0] * (rt - 1)
        else:
            mins = [float(rng.choice([0, mn, 2.5])) for _ in range(rt)]
        if user_bounds and infra["cont"][st] and rng.random() < 0.12:
            # the session's OWN minimum rate exceeds what is still missing (nearly finished session)
            m_ = float(rng.choice([6, 8, 12, 3.3]))
            rem = per_amp * m_ * rng.uniform(0.15, 0.9)
            deliv = req - rem
            mins = [m_] + [0.0] * (rt - 1)
        u = rng.random()
        if not user_bounds or u < 0.65:
            maxs = float("inf")
        elif u < 0.85:
            maxs = float(rng.choice([16, 24, 40, 12.5, 5, mp]))
        else:
            maxs = [float(rng.choice([16, 32, 8, 40, 3])) for _ in range(rt)]
        sess.append(dict(st=st, sid=sid, req=float(req), deliv=float(deliv), arr=arr, dep=dep, edep=edep,
                         mins=mins, maxs=maxs))
    rng.shuffle(sess)
    return sess


def gen_fixed_est(rng, infra, sess):
    """a NON-SimpleRampdown estimator: fixed bounds, with missing entries, bounds above the EVSE maximum (a 48 A on-board
    charger on a 32 A EVSE), zero bounds and entries for foreign session ids.  In the model it is the store of a rampdown
    estimator with no history (a missing entry then defaults to the EVSE maximum, which is what min(max_pilot, +inf) gives)"""
    store = {}
    for s in sess:
        mp = infra["maxp"][s["st"]]
        t = rng.random()
        if t < 0.3:
            continue                                       # no bound for this session
        elif t < 0.55:
            store[s["sid"]] = float(rng.choice([48.0, mp + 16, mp * 1.5, 80.0]))
        elif t < 0.7:
            store[s["sid"]] = 0.0
        else:
            store[s["sid"]] = float(round(rng.uniform(0, mp), 2))
    for _ in range(rng.choice([0, 1, 2])):
        store[900 + rng.randint(0, 50)] = float(rng.choice([5.0, 64.0, 0.0]))      # foreign ids
    return dict(up_thr=1.0, down_thr=1.0, up_inc=1.0, store=store, prev_pilot={}, prev_rate={}, custom=True)


def gen_ramp(rng, infra, sess):
    if rng.random() < 0.6:
        thr = (1.0, 1.0, 1.0)
    else:
        thr = (float(rng.choice([1, 0.5, 2, 0])), float(rng.choice([1, 0.5, 3, 0])), float(rng.choice([1, 2, 0.25, 0])))
    store, pp, pr = {}, {}, {}
    for s in sess:
        mp = infra["maxp"][s["st"]]
        if rng.random() < 0.7:
            store[s["sid"]] = float(rng.choice([mp, round(rng.uniform(0, mp), 2), 10.6, 3.0, 0.0]))
        if rng.random() < 0.75:
            p = float(rng.choice([mp, round(rng.uniform(0, mp), 1), 16.0, 0.0]))
            t = rng.random()
            if t < 0.4:
                r = p
            elif t < 0.7:
                r = round(p * rng.uniform(0.2, 0.99), 3)
            elif t < 0.85:
                r = max(0.0, p - thr[1] + rng.choice([-1, 1]) * rng.choice([1e-6, 0.01]))
            else:
                r = 0.0
            pp[s["sid"]] = p
            pr[s["sid"]] = float(r)
        elif rng.random() < 0.3:
            pr[s["sid"]] = 5.0                      # rate known but no previous pilot (new arrival)
    if rng.random() < 0.3:
        store[97] = 12.0                            # stale entry of a departed session
    return dict(up_thr=thr[0], down_thr=thr[1], up_inc=thr[2], store=store, prev_pilot=pp, prev_rate=pr)


def gen_scenario(rng, tier, algo=None, sort=None, est=None, unint=None, inc=None, distinct_keys=False,
                 user_bounds=True, plenty=0.45):
    infra = gen_infra(rng, tier)
    period = float(rng.choice([1, 5, 5, 15, 5, 7, 2.5, 0.5, 12, 60]))       # incl. periods that do not divide 60, fractional
    now = rng.randint(0, 60)
    sess = gen_sessions(rng, infra, now, period, distinct_keys=distinct_keys, user_bounds=user_bounds, plenty=plenty)
    # place most limits where they bind for the sessions that are actually present
    cosv = [math.cos(math.radians(p)) for p in infra["phases"]]
    sinv = [math.sin(math.radians(p)) for p in infra["phases"]]
    load = [0.0] * infra["N"]
    for s in sess:
        rap_ = (s["req"] - s["deliv"]) * 1000 / infra["volt"][s["st"]] * 60 / period
        load[s["st"]] = max(0.0, min(infra["maxp"][s["st"]], rap_))
    for j, row in enumerate(infra["A"]):
        if rng.random() < 0.65:
            re = sum(row[i] * cosv[i] * load[i] for i in range(infra["N"]))
            im = sum(row[i] * sinv[i] * load[i] for i in range(infra["N"]))
            act = max(math.hypot(re, im), 0.5 * sum(abs(row[i]) * load[i] for i in range(infra["N"])))
            if act > 2.0:
                infra["L"][j] = float(round(act * rng.uniform(0.15, 0.95), rng.choice([0, 1, 2])))
    est_on = rng.random() < 0.5 if est is None else est
    scn = dict(infra=infra, period=period, now=now, sessions=sess,
               algo=algo or rng.choice(["greedy", "rr"]),
               sort=sort or rng.choice(SORTS),
               est=(gen_fixed_est(rng, infra, sess) if rng.random() < 0.35 else gen_ramp(rng, infra, sess)) if est_on else None,
               unint=(rng.random() < 0.5) if unint is None else unint,
               inc=inc if inc is not None else rng.choice([0.1, 0.5, 1.0, 3.0, 5.0, 7.0, 0.3, 2.5]))
    if rng.random() < 0.5:
        scn["max_recompute"] = rng.choice([None, 1, 2, 3, 5])      # the algorithm's public attribute
    # identifiers whose sorted order differs from registration order / falsy / numeric-looking; value types
    if rng.random() < 0.4:
        infra["names"] = make_names(rng.choice(NAME_STYLES), infra["N"])
    if rng.random() < 0.4:
        scn["sid_style"] = rng.choice(SID_STYLES)
    if rng.random() < 0.35:
        scn["dtype"] = rng.choice(["int", "np"])
    return scn


# =============================================================================================
# running the real implementation
# =============================================================================================
def station_name(i):
    return "ST-%d" % i


NAME_STYLES = ["default", "default", "default", "offset", "case", "numeric", "falsy"]


def make_names(style, N, rng=None):
    """station ids whose lexicographic order differs from the registration order, mixed case, numeric-looking, falsy"""
    if style == "offset":
        return ["S-%d" % (9 + i) for i in range(N)]                 # S-9, S-10, S-11: sorted() != registration order
    if style == "case":
        base = ["b", "A", "c", "B", "a", "C", "Zz", "zZ", "d", "D", "e", "E"]
        return base[:N]
    if style == "numeric":
        base = ["10", "9", "08", "7", "100", "1e1", "6.0", "-5", "04", "3", "20", "2"]
        return base[:N]
    if style == "falsy":
        base = ["", "0", "00", " ", "None", "False", "0.0", "nan", "[]", "{}", "-0", "+0"]
        return base[:N]
    return [station_name(i) for i in range(N)]


def snames(infra):
    return infra.get("names") or [station_name(i) for i in range(infra["N"])]


SID_STYLES = ["sess%d", "sess%d", "%d", "EV-%03d", "%d.0x"]


def session_name(sid, style="sess%d"):
    return style % sid


def sstyle(scn):
    return scn.get("sid_style") or "sess%d"


def _as_dtype(x, kind):
    """the same VALUE handed over as another type (int when integral, numpy scalar)"""
    if not isinstance(x, float) or x != x or abs(x) == INF:
        return x
    if kind == "int" and abs(x) < 1e9 and x == int(x):
        return int(x)
    if kind == "np":
        if abs(x) < 1e9 and x == int(x):
            return np.int64(int(x))
        if isinstance(x, float) and x != INF:
            return np.float64(x)
    return x


def iface_data(scn):
    infra = scn["infra"]
    names = snames(infra)
    st = sstyle(scn)
    kind = scn.get("dtype") or "float"
    cv = (lambda x: _as_dtype(float(x), kind)) if kind != "float" else float

    def rates(v):
        if isinstance(v, list):
            out = [_as_dtype(float(x), kind) for x in v]
            return np.array(out) if kind == "np" else out
        return _as_dtype(v, kind) if isinstance(v, float) else v
    sessions = []
    for s in scn["sessions"]:
        sessions.append(dict(station_id=names[s["st"]], session_id=session_name(s["sid"], st),
                             requested_energy=cv(s["req"]), energy_delivered=s["deliv"], arrival=s["arr"],
                             departure=s["dep"], estimated_departure=s["edep"],
                             min_rates=rates(s["mins"]), max_rates=rates(s["maxs"])))
    A = np.array(infra["A"], dtype=float).reshape(len(infra["L"]), infra["N"])
    L = np.array(infra["L"], dtype=float)
    if kind != "float":
        if np.all(A == np.round(A)):
            A = A.astype(int)
        if np.all(L == np.round(L)):
            L = L.astype(int)
    data = dict(active_sessions=sessions,
                infrastructure_info=dict(
                    constraint_matrix=A,
                    constraint_limits=L,
                    phases=np.array(infra["phases"], dtype=float) if kind == "float" else [cv(x) for x in infra["phases"]],
                    voltages=[cv(v) for v in infra["volt"]],
                    constraint_ids=["c%d" % j for j in range(len(infra["L"]))],
                    station_ids=list(names),
                    max_pilot=[cv(x) for x in infra["maxp"]],
                    min_pilot=[cv(x) for x in infra["minp"]],
                    allowable_pilots=[[cv(x) for x in a] for a in infra["allow"]],
                    is_continuous=[bool(b) for b in infra["cont"]]),
                current_time=scn["now"], period=cv(scn["period"]))
    if scn["est"] is not None:
        data["last_applied_pilot_signals"] = {session_name(k, st): cv(v) for k, v in scn["est"]["prev_pilot"].items()}
        data["last_actual_charging_rate"] = {session_name(k, st): cv(v) for k, v in scn["est"]["prev_rate"].items()}
    return data


def sid_of(name):
    """session number from any of the id styles (the digits before an optional '.0x' suffix)"""
    m = re.search(r"(\d+)(?:\.0x)?$", str(name))
    return int(m.group(1))


def fixed_estimator(bounds):
    """an estimator other than SimpleRampdown: UpperBoundEstimatorBase.get_maximum_rates returns a fixed
    {session_id: bound} (entries may be missing, above the EVSE maximum, zero, or for foreign sessions)"""
    alg = _algos()

    class FixedEstimator(alg.UpperBoundEstimatorBase):
        def __init__(self, b):
            super().__init__()
            self.bounds = dict(b)

        def get_maximum_rates(self, sessions):
            return dict(self.bounds)
    return FixedEstimator(bounds)


def make_algo(scn):
    alg = _algos()
    est = None
    if scn["est"] is not None:
        e = scn["est"]
        if e.get("custom"):
            est = fixed_estimator({session_name(k, sstyle(scn)): v for k, v in e["store"].items()})
        else:
            est = alg.SimpleRampdown(up_threshold=e["up_thr"], down_threshold=e["down_thr"], up_increment=e["up_inc"])
            est.upper_bounds = {session_name(k, sstyle(scn)): v for k, v in e["store"].items()}
    kw = dict(estimate_max_rate=est is not None, max_rate_estimator=est, uninterrupted_charging=scn["unint"])
    if scn["algo"] == "rr":
        a = alg.RoundRobin(sort_fn(scn["sort"]), continuous_inc=scn["inc"], **kw)
    elif scn["algo"] == "greedy":
        a = alg.SortedSchedulingAlgo(sort_fn(scn["sort"]), **kw)
    else:
        a = alg.UncontrolledCharging()
    if "max_recompute" in scn:
        a.max_recompute = scn["max_recompute"]         # public attribute: None, 1, 2, 3, 5 ...
    return a, est


class Observed:
    """Observers installed ONCE on a real algorithm object (stub-driven or inside the Simulator).  They only watch:
    the real methods still do all the work.  Per call (`begin` ... `end`) they record the output of
    run_preprocessing, the order in which sorting_algorithm / round_robin actually walk the sessions (the sequence of
    get_station_index calls of their first loop -- independent of how the queue was obtained), the sort function's
    output when it is called, and for round robin every vector handed to the feasibility check."""

    def __init__(self, algo, est, kind):
        self.algo, self.est, self.kind = algo, est, kind
        self.rec = {}
        if kind == "unc":
            return
        orig_pre = algo.run_preprocessing

        def pre(active_sessions, infrastructure):
            out = orig_pre(active_sessions, infrastructure)
            self.rec["pre"] = [[sid_of(x.session_id), [float(v) for v in np.asarray(x.min_rates, dtype=float)],
                                [float(v) for v in np.asarray(x.max_rates, dtype=float)]] for x in out]
            return out
        algo.run_preprocessing = pre
        orig_sort = algo._sort_fn

        def srt(evs, ifc):
            out = orig_sort(evs, ifc)
            self.rec["sort_out"] = [sid_of(x.session_id) for x in out]
            return out
        algo._sort_fn = srt
        name = "round_robin" if kind == "rr" else "sorting_algorithm"
        orig_alg = getattr(algo, name)

        def alg(active_sessions, infrastructure):
            seen = []
            orig_idx = infrastructure.get_station_index

            def idx(station_id):
                i = orig_idx(station_id)
                seen.append(i)
                return i
            infrastructure.get_station_index = idx
            self.rec["alg_sessions"] = [(sid_of(x.session_id), orig_idx(x.station_id)) for x in active_sessions]
            self.rec["seen"] = seen
            self.rec["in_alg"] = True
            try:
                return orig_alg(active_sessions, infrastructure)
            finally:
                self.rec["in_alg"] = False
        setattr(algo, name, alg)

    def begin(self):
        self.rec = dict(pre=None, sort_out=None, alg_sessions=None, seen=None, in_alg=False, trace=[] if self.kind == "rr" else None)
        if self.kind == "rr":
            import acnportal.algorithms.sorted_algorithms as sa_mod
            self._sa_mod, self._orig_feas = sa_mod, sa_mod.infrastructure_constraints_feasible
            rec, orig = self.rec, self._orig_feas

            def feas(rates, infrastructure, *a, **k):
                r = orig(rates, infrastructure, *a, **k)
                if rec["in_alg"] and rec["trace"] is not None:
                    if len(rec["trace"]) <= 3000:
                        rec["trace"].append(([float(x) for x in np.asarray(rates, dtype=float)], bool(r)))
                    else:
                        rec["trace"] = None
                return r
            sa_mod.infrastructure_constraints_feasible = feas

    def end(self, raw, err, names):
        if self.kind == "rr":
            self._sa_mod.infrastructure_constraints_feasible = self._orig_feas
        rec = self.rec
        N = len(names)
        index = {n: k for k, n in enumerate(names)}
        shape_ok, sched = True, None
        if raw is not None:
            if self.kind == "unc":
                sched = [None] * N
                for k_, v in raw.items():
                    if not (isinstance(v, list) and len(v) == 1) or k_ not in index:
                        shape_ok = False
                        continue
                    sched[index[k_]] = float(v[0])
            else:
                sched, rows = [], []
                if len(raw) != N or any(k_ not in index for k_ in raw):
                    shape_ok = False
                for i in range(N):
                    v = raw.get(names[i], [float("nan")])
                    if not isinstance(v, list) or len(v) == 0:
                        shape_ok = False
                        v = [float("nan")]
                    rows.append([float(x) for x in v])         # the WHOLE emitted schedule of the station
                    sched.append(float(v[0]))
                rec["rows"] = rows
        order = rec.get("sort_out")
        als = rec.get("alg_sessions")
        if als is not None and rec.get("seen") is not None:
            sts = [st for _, st in als]
            if len(set(sts)) == len(sts) and len(rec["seen"]) >= len(als):
                by_st = {st: sid for sid, st in als}
                walked = rec["seen"][:len(als)]
                if sorted(walked) == sorted(sts):
                    order = [by_st[st] for st in walked]       # the order actually walked
        store = None
        if self.est is not None and hasattr(self.est, "upper_bounds"):
            store = {sid_of(k): float(v) for k, v in self.est.upper_bounds.items()}
        return dict(err=err, sched=sched, rows=rec.get("rows"), pre=rec.get("pre"), order=order, store=store,
                    shape_ok=shape_ok, rr_trace=rec.get("trace"))


def _freeze(o):
    """structural snapshot of interface data (numpy arrays -> nested tuples, with dtype) to detect mutation by the callee"""
    if isinstance(o, np.ndarray):
        return ("nd", str(o.dtype), tuple(o.ravel().tolist()), o.shape)
    if isinstance(o, dict):
        return ("d", tuple((repr(k), _freeze(v)) for k, v in o.items()))
    if isinstance(o, (list, tuple)):
        return ("l", tuple(_freeze(v) for v in o))
    return repr(o)


class StubDriver:
    """ONE real algorithm object driven through consecutive run() calls via the repo's TestingInterface.  Between calls
    only the interface's data changes (the algorithm is neither re-created nor re-registered) unless
    `reregister=True` (the same object moved to another network).  Around every call: the caller-owned interface data
    must be left untouched by the call; the returned dictionary is kept (and optionally vandalised by the caller) so that
    later calls can be checked not to alias or depend on it."""

    def __init__(self, scn):
        from acnportal.algorithms.tests.testing_interface import TestingInterface
        self.iface = TestingInterface(iface_data(scn))
        self.algo, self.est = make_algo(scn)
        self.algo.register_interface(self.iface)
        self.obs = Observed(self.algo, self.est, scn["algo"])
        self.calls = 0
        self.held = []          # (raw dict as returned, float copy taken immediately)

    def call(self, scn, reregister=False, direct=False, vandalise=False):
        from acnportal.algorithms.tests.testing_interface import TestingInterface
        if self.calls > 0:
            if scn.get("est") is not None and self.est is not None and hasattr(self.est, "upper_bounds"):
                # the model is fed the estimator's TRUE state at this call
                scn["est"]["store"] = {sid_of(k): float(v) for k, v in self.est.upper_bounds.items()}
            if reregister:
                self.iface = TestingInterface(iface_data(scn))
                self.algo.register_interface(self.iface)
            else:
                self.iface.data = iface_data(scn)
        self.calls += 1
        before = _freeze(self.iface.data)
        self.obs.begin()
        raw, err = None, None
        try:
            # two public entry points: run(), or schedule() on sessions fetched by the caller
            raw = self.algo.schedule(self.iface.active_sessions()) if direct else self.algo.run()
        except Exception as e:  # noqa
            err = type(e).__name__
        out = self.obs.end(raw, err, snames(scn["infra"]))
        out["data_mutated"] = _freeze(self.iface.data) != before
        # results handed out earlier must still read the same (no aliasing with internal / later state)
        out["held_changed"] = any(
            {k: [float(x) for x in v] for k, v in r.items()} != c for r, c in self.held)
        if raw is not None:
            self.held.append((raw, {k: [float(x) for x in v] for k, v in raw.items()}))
            if vandalise:            # the caller scribbles over what it was given; the component must not care
                for k in list(raw.keys()):
                    raw[k][:] = [-777.0]
                self.held[-1] = (raw, {k: [-777.0] for k in raw})
        return out


def run_impl(scn):
    """run the real algorithm once on a fresh object; everything recorded is plain python data"""
    return StubDriver(scn).call(scn)


# =============================================================================================
# dual numbers (float as the implementation computes it / exact rational as the model computes it)
# =============================================================================================
class D:
    __slots__ = ("fl", "ex")

    def __init__(self, fl, ex=None):
        self.fl = float(fl)
        if ex is None:
            ex = F(BIG) if self.fl == INF else F(fl)
        self.ex = ex

    @staticmethod
    def of(x):
        return x if isinstance(x, D) else D(x)

    def __add__(self, o):
        o = D.of(o)
        return D(self.fl + o.fl, self.ex + o.ex)
    __radd__ = __add__

    def __sub__(self, o):
        o = D.of(o)
        return D(self.fl - o.fl, self.ex - o.ex)

    def __rsub__(self, o):
        return D.of(o) - self

    def __mul__(self, o):
        o = D.of(o)
        return D(self.fl * o.fl, self.ex * o.ex)
    __rmul__ = __mul__

    def __truediv__(self, o):
        o = D.of(o)
        return D(self.fl / o.fl, self.ex / o.ex)

    def __repr__(self):
        return "D(%r)" % self.fl


INF = float("inf")
BIG = 10 ** 12     # float('inf') as a session max rate: any value above every max pilot behaves identically


class Ctx:
    def __init__(self):
        self.amb = None

    def flag(self, why):
        if self.amb is None:
            self.amb = why

    def _cmp(self, a, b, opf, what):
        a, b = D.of(a), D.of(b)
        df, de = opf(a.fl, b.fl), opf(a.ex, b.ex)
        diff = abs(a.ex - b.ex)
        if df != de:
            self.flag("%s: float and exact decisions differ (%r vs %r)" % (what, a.fl, b.fl))
        elif diff <= TOL * max(1, abs(b.ex)) and not (diff == 0 and a.fl == b.fl):
            self.flag("%s: %r within 1e-9 of %r" % (what, a.fl, b.fl))
        return df

    def le(self, a, b, what="<="):
        return self._cmp(a, b, lambda x, y: x <= y, what)

    def lt(self, a, b, what="<"):
        return self._cmp(a, b, lambda x, y: x < y, what)

    def dmin(self, a, b, what="min"):
        return a if self.le(a, b, what) else b

    def dmax(self, a, b, what="max"):
        return b if self.le(a, b, what) else a


class TwinError(Exception):
    pass


class Twin:
    """Exact/float re-execution of run_preprocessing + sorting_algorithm / round_robin.  Mirrors the code
    line by line; every comparison on a computed quantity goes through Ctx so that near-threshold decisions
    are detected.  Sessions are dicts with dual `mins`/`maxs` lists."""

    def __init__(self, scn):
        self.scn = scn
        self.ctx = Ctx()
        inf = scn["infra"]
        self.inf = inf
        self.N = inf["N"]
        self.cos = [math.cos(math.radians(p)) for p in inf["phases"]]
        self.sin = [math.sin(math.radians(p)) for p in inf["phases"]]
        self.Af = np.array(inf["A"], dtype=float).reshape(len(inf["L"]), self.N)
        self.re_f = self.Af * np.array(self.cos)
        self.im_f = self.Af * np.array(self.sin)
        self.rhs_f = [l + max(1e-5, 1e-7 * l) for l in inf["L"]]
        self.rhs_e = [F(l) + max(F(1, 10 ** 5), F(1, 10 ** 7) * F(l)) for l in inf["L"]]
        self.period = D(scn["period"])
        self.nfeas = 0

    # ---- feasibility ----
    def feasible(self, rates):
        self.nfeas += 1
        x = np.array([r.fl for r in rates])
        if len(self.rhs_f) == 0:
            return True
        re = self.re_f @ x
        im = self.im_f @ x
        norm = np.hypot(re, im)
        ok = True
        for j in range(len(self.rhs_f)):
            rhs = self.rhs_f[j]
            if abs(norm[j] - rhs) <= 1e-6 * max(1.0, abs(rhs)):
                re_e = sum(F(self.inf["A"][j][i]) * F(self.cos[i]) * rates[i].ex for i in range(self.N))
                im_e = sum(F(self.inf["A"][j][i]) * F(self.sin[i]) * rates[i].ex for i in range(self.N))
                n2 = re_e * re_e + im_e * im_e
                r_e = self.rhs_e[j]
                d = TOL * max(1, abs(r_e))
                lo = max(F(0), r_e - d)
                if lo * lo <= n2 <= (r_e + d) * (r_e + d):
                    self.ctx.flag("feasibility of constraint %d within 1e-9 of its limit" % j)
            if not (norm[j] <= rhs):
                ok = False
                break
        return ok

    # ---- helpers ----
    def rap(self, s):
        V = D(self.inf["volt"][s["st"]])
        return (s["req"] - s["deliv"]) * 1000 / V * 60 / self.period

    def sessions0(self):
        out = []
        now = self.scn["now"]
        for s in self.scn["sessions"]:
            rt = max(min(s["dep"] - s["arr"], s["dep"] - now), 0)
            mins, maxs = s["mins"], s["maxs"]
            mins = [D(mins)] * rt if not isinstance(mins, list) else [D(x) for x in mins]
            maxs = [D(maxs)] * rt if not isinstance(maxs, list) else [D(x) for x in maxs]
            out.append(dict(st=s["st"], sid=s["sid"], req=D(s["req"]), deliv=D(s["deliv"]), arr=s["arr"],
                            dep=s["dep"], edep=s["edep"], rt=rt, mins=list(mins), maxs=list(maxs)))
        return out

    def reconcile(self, s):
        c = self.ctx
        for t in range(len(s["maxs"])):
            if c.lt(s["maxs"][t], s["mins"][t], "reconcile max<min"):
                s["maxs"][t] = s["mins"][t]

    # ---- preprocessing ----
    def rampdown(self, sess):
        e = self.scn["est"]
        c = self.ctx
        store = {k: D(v) for k, v in e["store"].items()}
        for s in sess:
            sid = s["sid"]
            mp = D(self.inf["maxp"][s["st"]])
            if sid not in store:
                store[sid] = mp
            if sid in e["prev_pilot"]:
                if sid not in e["prev_rate"]:
                    raise TwinError("KeyError")
                pp, pr = D(e["prev_pilot"][sid]), D(e["prev_rate"][sid])
                ub = store[sid]
                if c.lt(D(e["down_thr"]), pp - pr, "rampdown down test"):
                    ub = pr + D(e["up_inc"])
                elif c.lt(ub - pr, D(e["up_thr"]), "rampdown up test"):
                    ub = ub + D(e["up_inc"])
                ub = c.dmin(c.dmax(ub, D(0), "clip low"), mp, "clip high")
                store[sid] = ub
        return store

    def preprocess(self):
        c = self.ctx
        scn = self.scn
        inf = self.inf
        sess = self.sessions0()
        # remove_finished_sessions
        kept = []
        for s in sess:
            thr = D(inf["minp"][s["st"]]) * D(inf["volt"][s["st"]]) / (D(60) / self.period) / 1000
            if c.lt(thr, s["req"] - s["deliv"], "remove_finished threshold"):
                kept.append(s)
        sess = kept
        # enforce_pilot_limit
        for s in sess:
            mp = D(inf["maxp"][s["st"]])
            s["maxs"] = [c.dmin(x, mp, "pilot limit") if x.fl != INF else mp for x in s["maxs"]]
        self.store = None
        if scn["est"] is not None:
            store = self.rampdown(sess)
            self.store = store
            for s in sess:
                if s["sid"] in store:
                    b = store[s["sid"]]
                    s["maxs"] = [c.dmin(x, b, "estimator bound") for x in s["maxs"]]
                self.reconcile(s)
        if scn["unint"]:
            queue = sorted(sess, key=lambda s: s["rt"])
            rates = [D(0)] * self.N
            for s in queue:
                if not s["mins"]:
                    raise TwinError("IndexError")
                i = s["st"]
                rates = list(rates)
                rates[i] = D(inf["minp"][i])
                if c.le(rates[i], self.rap(s), "min pilot <= remaining amp periods") and self.feasible(rates):
                    s["mins"][0] = c.dmax(rates[i], s["mins"][0], "max(min pilot, min_rates[0])")
                    self.reconcile(s)
                else:
                    rates[i] = D(0)
                    s["mins"][0] = D(0)
                    s["maxs"][0] = D(0)
            sess = queue
        for s in sess:
            if not s["mins"] or not s["maxs"]:
                raise TwinError("IndexError")
        return sess

    # ---- sort ----
    def sort(self, sess):
        c = self.ctx
        kind = self.scn["sort"]
        now = self.scn["now"]

        def key(s):
            if kind in ("fcfs", "lcfs"):
                return D(s["arr"])
            if kind == "edf":
                return D(s["edep"])
            mp = D(self.inf["maxp"][s["st"]])
            if mp.ex == 0:
                raise TwinError("ZeroDivisionError")
            if kind == "llf":
                return (D(s["edep"]) - D(now)) - self.rap(s) / mp
            return self.rap(s) / mp
        keys = [key(s) for s in sess]
        for a in range(len(keys)):
            for b in range(a + 1, len(keys)):
                c.le(keys[a], keys[b], "sort keys")
        rev = kind in ("lcfs", "lrpt")
        idx = sorted(range(len(sess)), key=lambda i: keys[i].fl, reverse=rev)
        self.keys_distinct = len({k.ex for k in keys}) == len(keys)
        return [sess[i] for i in idx]

    # ---- greedy ----
    def greedy(self, sess):
        c = self.ctx
        inf = self.inf
        queue = self.sort(sess)
        sched = [D(0)] * self.N
        for s in queue:
            sched[s["st"]] = c.dmax(D(0), s["mins"][0], "lb")
        if not self.feasible(sched):
            raise TwinError("ValueError")
        for s in queue:
            i = s["st"]
            ub = c.dmin(s["maxs"][0], self.rap(s), "ub=min(max_rate, rap)")
            lb = c.dmax(D(0), s["mins"][0], "lb")
            if inf["cont"][i]:
                r = self.max_feasible_rate(i, ub, sched, D(F("0.01").__float__(), F("0.01")), lb)
            else:
                allowable = [D(a) for a in inf["allow"][i] if c.le(lb, D(a), "lb<=level") and c.le(D(a), ub, "level<=ub")]
                if not allowable:
                    r = D(0)
                else:
                    r = self.discrete_max(i, allowable, sched)
            sched = list(sched)
            sched[i] = r
        return sched

    def max_feasible_rate(self, i, ub, sched, eps, lb):
        c = self.ctx
        if not self.feasible(sched):
            raise TwinError("ValueError")
        new = list(sched)
        new[i] = ub
        if self.feasible(new):
            return ub
        lo, hi = lb, ub
        for _ in range(5000):
            mid = (hi + lo) / 2
            new = list(sched)
            new[i] = mid
            if c.le(hi - lo, eps, "bisection stop"):
                return lo
            if self.feasible(new):
                lo = mid
            else:
                hi = mid
        raise TwinError("RecursionError")

    def discrete_max(self, i, allowable, sched):
        if not self.feasible(sched):
            raise TwinError("ValueError")
        new = list(sched)
        k = len(allowable) - 1
        new[i] = allowable[k]
        while not self.feasible(new):
            k -= 1
            if k < 0:
                new[i] = D(0)
                break
            new[i] = allowable[k]
        return new[i]

    # ---- round robin ----
    def arange(self, start, stop, step):
        c = self.ctx
        if step.ex <= 0:
            raise TwinError("arange step")
        n_f = math.ceil((stop.fl - start.fl) / step.fl)
        n_e = math.ceil((stop.ex - start.ex) / step.ex)
        xq = (stop.ex - start.ex) / step.ex
        if n_f != n_e or abs(xq - round(xq)) <= TOL:
            c.flag("np.arange length within 1e-9 of changing")
        n = max(n_f, 0)
        fl = np.arange(start.fl, stop.fl, step.fl)
        if len(fl) != n:
            c.flag("np.arange length")
            n = min(n, len(fl))
        return [D(fl[k], start.ex + k * step.ex) for k in range(n)]

    def round_robin(self, sess):
        c = self.ctx
        inf = self.inf
        inc = self.scn["inc"]
        inc = D(inc, F(repr(inc)))          # the increment is the decimal literal (1/10), see notes/C07.md
        queue = self.sort(sess)
        sched = [D(0)] * self.N
        ridx = [0] * self.N
        levels = [[D(a) for a in al] for al in inf["allow"]]
        for s in queue:
            i = s["st"]
            if inf["cont"][i]:
                levels[i] = self.arange(s["mins"][0], s["maxs"][0] + inc / 2, inc)
            ub = c.dmin(c.dmin(s["maxs"][0], D(inf["maxp"][i]), "rr ub"), self.rap(s), "rr ub")
            lb = c.dmax(D(0), s["mins"][0], "lb")
            levels[i] = [a for a in levels[i] if c.le(lb, a, "rr lb<=level")]
            levels[i] = [a for a in levels[i] if c.le(a, ub, "rr level<=ub")]
            sched[i] = levels[i][0] if levels[i] else D(0)
        if not self.feasible(sched):
            raise TwinError("ValueError")
        from collections import deque
        dq = deque(queue)
        while dq:
            s = dq.popleft()
            i = s["st"]
            if ridx[i] < len(levels[i]) - 1:
                sched[i] = levels[i][ridx[i] + 1]
                if self.feasible(sched):
                    ridx[i] += 1
                    dq.append(s)
                else:
                    sched[i] = levels[i][ridx[i]]
        return sched

    def run(self):
        """returns dict(err, sched (floats), amb)"""
        err, sched = None, None
        try:
            sess = self.preprocess()
            self.pre = sess
            sched = self.greedy(sess) if self.scn["algo"] == "greedy" else self.round_robin(sess)
        except TwinError as e:
            err = str(e)
        return dict(err=err, sched=None if sched is None else [r.fl for r in sched], amb=self.ctx.amb,
                    nfeas=self.nfeas)


# =============================================================================================
# Coq terms
# =============================================================================================
def qdec(x):
    """decimal-exact rational of a float written as a short decimal (used for continuous_inc)"""
    return q(F(repr(float(x))))


def qlist(xs):
    return coq_list([q(x) for x in xs])


def zq_list(d):
    return coq_list(["(%s, %s)" % (zl(k), q(v)) for k, v in d.items()])


def zl(n):
    return "(%s)%%Z" % z(n)


def infra_coq(inf):
    cos = [math.cos(math.radians(p)) for p in inf["phases"]]
    sin = [math.sin(math.radians(p)) for p in inf["phases"]]
    return ("{| i_A := %s; i_L := %s; i_cos := %s; i_sin := %s; i_volt := %s; i_maxp := %s; i_minp := %s; "
            "i_allow := %s; i_cont := %s |}") % (
        coq_list([qlist(r) for r in inf["A"]]), qlist(inf["L"]), qlist(cos), qlist(sin), qlist(inf["volt"]),
        qlist(inf["maxp"]), qlist(inf["minp"]), coq_list([qlist(a) for a in inf["allow"]]),
        coq_list([coq_bool(b) for b in inf["cont"]]))


def session_coq(s, now):
    rt = max(min(s["dep"] - s["arr"], s["dep"] - now), 0)
    mins, maxs = s["mins"], s["maxs"]
    mins = [mins] * rt if not isinstance(mins, list) else mins
    maxs = [maxs] * rt if not isinstance(maxs, list) else maxs
    maxs = [BIG if x == INF else x for x in maxs]
    return ("{| s_station := %d; s_id := %s; s_req := %s; s_del := %s; s_arr := %s; s_dep := %s; s_edep := %s; "
            "s_cur := %s; s_min := %s; s_max := %s |}") % (
        s["st"], zl(s["sid"]), q(s["req"]), q(s["deliv"]), zl(s["arr"]), zl(s["dep"]), zl(s["edep"]), zl(now),
        qlist(mins), qlist(maxs))


def ramp_coq(e):
    if e is None:
        return "None"
    return ("(Some {| r_up_thr := %s; r_down_thr := %s; r_up_inc := %s; r_store := %s; r_prev_pilot := %s; "
            "r_prev_rate := %s |})") % (q(e["up_thr"]), q(e["down_thr"]), q(e["up_inc"]), zq_list(e["store"]),
                                        zq_list(e["prev_pilot"]), zq_list(e["prev_rate"]))


def cfg_coq(scn):
    return ("{| c_rr := %s; c_sort := %s; c_est := %s; c_unint := %s; c_inc := %s; c_period := %s; c_now := %s |}") % (
        coq_bool(scn["algo"] == "rr"), SORT_COQ[scn["sort"]], ramp_coq(scn["est"]), coq_bool(scn["unint"]),
        qdec(scn["inc"]), q(scn["period"]), zl(scn["now"]))


def clean(x):
    return 0.0 if x is None or x != x or abs(x) == INF else x


def case_coq(scn, impl):
    sched = impl["sched"] or []
    pre = impl["pre"] or []
    pre_s = coq_list(["(%s, %s, %s)" % (zl(p[0]), qlist([clean(x) for x in p[1]]), qlist([clean(x) for x in p[2]]))
                      for p in pre])
    return ("{| k_infra := %s;\n   k_cfg := %s;\n   k_sessions := %s;\n   o_err := %s; o_sched := %s;\n"
            "   o_rows := %s; o_has_store := %s;\n"
            "   o_pre := %s; o_order := %s; o_store := %s |}") % (
        infra_coq(scn["infra"]), cfg_coq(scn),
        coq_list([session_coq(s, scn["now"]) for s in scn["sessions"]]),
        coq_opt(impl["err"], coq_str), qlist([clean(x) for x in sched]),
        coq_list([qlist([clean(x) for x in r]) for r in (impl.get("rows") or [[x] for x in sched])]),
        coq_bool(impl["store"] is not None or scn["est"] is None),
        pre_s, coq_list([zl(k) for k in (impl["order"] or [])]),
        zq_list(impl["store"] or {}))


def scn_from_json(d):
    """inverse of json.dump on a scenario (dict keys of the estimator maps back to int)"""
    d = json.loads(json.dumps(d))
    if d.get("est") is not None:
        for k in ("store", "prev_pilot", "prev_rate"):
            d["est"][k] = {int(a): b for a, b in d["est"][k].items()}
    for s in d["sessions"]:
        if s["maxs"] is None:
            s["maxs"] = INF
    return d


# =============================================================================================
# targeted family: finite-rate EVSE whose head-room under a binding constraint is `delta` A below a level
# =============================================================================================
EDGE_DELTAS = [1e-3, 5e-3, 9e-3, 2e-2, 2e-3, 7e-3, 1.5e-2, 1e-4, 3e-2, -1e-3]
EDGE_LEVELS = [[0.0] + [float(x) for x in range(6, 33)], [0.0, 8.0, 16.0, 24.0, 32.0],
               [0.0, 6.0, 12.0, 18.0, 24.0, 30.0], [0.0, 6.5, 13.0, 19.5, 26.0], [0.0, 16.0, 32.0]]


def _row_norm(row, cosv, sinv, x):
    re = sum(row[i] * cosv[i] * x[i] for i in range(len(x)))
    im = sum(row[i] * sinv[i] * x[i] for i in range(len(x)))
    return math.hypot(re, im)


def gen_level_edge(rng, tier, sort=None, unint=None, algo="greedy", deltas=None):
    """Sessions are served in priority order on a constraint that is monotone in every station (single phase,
    or a delta line row +1/-1 on the 30/150 degree groups); the limit is placed so that, with the higher-priority
    sessions at the pilots they obtain, the head-room of one finite-rate session is `delta` A below one of its
    levels, delta in EDGE_DELTAS (e.g. a 39.995 A breaker with one EV at 32 A: 7.995 A left for levels 6,7,8,...)."""
    for _attempt in range(50):
        N = rng.choice([2, 2, 3, 3, 4])
        style = rng.choice(["single", "single", "delta", "delta", "mixed-phase"])
        if style == "single":
            phases = [0.0] * N
            row = [1.0] * N
        elif style == "delta":
            phases = [rng.choice([30.0, 150.0]) for _ in range(N)]
            if len(set(phases)) == 1:
                phases[0] = 180.0 - phases[0]
            row = [1.0 if p == 30.0 else -1.0 for p in phases]
        else:
            phases = [rng.choice([0.0, 0.0, 60.0]) for _ in range(N)]       # less than 90 degrees apart: still monotone
            row = [rng.choice([1.0, 1.0, 0.5]) for _ in range(N)]
        volt = [float(rng.choice([208, 240, 120])) for _ in range(N)]
        allow, cont, maxp, minp, etype = [], [], [], [], []
        for i in range(N):
            if rng.random() < 0.8:
                lv = list(rng.choice(EDGE_LEVELS))
                allow.append(lv); cont.append(False); maxp.append(max(lv)); minp.append(min(a for a in lv if a > 0)); etype.append("F")
            else:
                mx = float(rng.choice([32, 16, 40]))
                allow.append([0.0, mx]); cont.append(True); maxp.append(mx); minp.append(0.0); etype.append("C0")
        A, L = [row], [1000.0]
        for _ in range(rng.choice([0, 0, 1, 2])):          # additional rows that never bind
            A.append([rng.choice([0.0, 1.0, -1.0, 0.25]) for _ in range(N)])
            L.append(float(rng.choice([400, 1000])))
        infra = dict(N=N, A=A, L=L, phases=phases, volt=volt, maxp=maxp, minp=minp, allow=allow, cont=cont, etype=etype)
        period = float(rng.choice([1, 5, 15]))
        now = rng.randint(5, 60)
        k = rng.choice([N, N, N - 1]) if N > 2 else N
        stations = rng.sample(range(N), k)
        arrs = rng.sample(range(max(0, now - 30), now + 1), k)
        sess = []
        for n_, st in enumerate(stations):
            dep = now + rng.randint(2, 12)
            sess.append(dict(st=st, sid=100 + n_ * 7 + rng.randint(0, 5), req=float(rng.choice([20, 30, 45.5])),
                             deliv=float(rng.choice([0.0, 1.25, 3.0])), arr=arrs[n_], dep=dep,
                             edep=dep + rng.randint(-1, 6) if rng.random() < 0.5 else dep, mins=0, maxs=INF))
        nozero = rng.random() < 0.35
        if nozero:
            # level tables WITHOUT 0 (legal: "a pilot of 0 is allowed regardless of the table"; FiniteRatesEVSE always adds
            # 0, a hand-built InfrastructureInfo need not): the lowest level lies above the rate the station holds
            for i in range(N):
                if not cont[i]:
                    allow[i] = [a for a in allow[i] if a > 0]
                    etype[i] = "Fn"
        scn = dict(infra=infra, period=period, now=now, sessions=sess, algo=algo,
                   sort=sort or rng.choice(SORTS), est=None,
                   unint=((rng.random() < 0.3) if unint is None else unint) and not nozero, inc=rng.choice([0.5, 1.0]), edge=None)
        tw = Twin(scn)
        try:
            q = tw.sort(tw.preprocess())
        except TwinError:
            continue
        cand = [j for j, s in enumerate(q) if not cont[s["st"]] and row[s["st"]] != 0]
        if not cand:
            continue
        j = rng.choice(cand)
        x = [0.0] * N
        for s in q:
            x[s["st"]] = max(0.0, s["mins"][0].fl)
        for s in q[:j]:                                   # higher-priority sessions obtain their maximum
            i = s["st"]
            ub = min(s["maxs"][0].fl, tw.rap(s).fl)
            x[i] = ub if cont[i] else max([a for a in allow[i] if x[i] <= a <= ub] or [x[i]])
        s = q[j]
        i = s["st"]
        ub = min(s["maxs"][0].fl, tw.rap(s).fl)
        levels = [a for a in allow[i] if x[i] < a <= ub]
        if not levels:
            continue
        target = rng.choice(levels)
        delta = rng.choice(deltas or EDGE_DELTAS)
        if nozero and rng.random() < 0.8:
            # the head-room left by the higher-priority sessions is smaller than the station's LOWEST level
            target = min(levels)
            delta = rng.choice([0.5, 2.0, 5.0, 1e-3, 0.25 * target, 0.9 * target])
        cosv = [math.cos(math.radians(p)) for p in phases]
        sinv = [math.sin(math.radians(p)) for p in phases]
        x[i] = target - delta
        T = _row_norm(row, cosv, sinv, x)
        lim = T - 1e-5 if T - 1e-5 <= 100 else T / (1 + 1e-7)
        if lim <= 0:
            continue
        if rng.random() < 0.3:
            lim = round(lim, 4)                          # e.g. 39.995
        infra["L"][0] = float(lim)
        scn["edge"] = dict(station=i, level=target, delta=delta, style=style)
        return scn
    return gen_scenario(rng, tier, algo=algo, sort=sort, unint=unint, est=False, user_bounds=False)


# =============================================================================================
# multi-call sequences: ONE algorithm object, consecutive periods, optionally moved to another network
# =============================================================================================
import copy as _copy


def gen_flip_scenario(rng, tier, algo=None, sort=None):
    """Two or three sessions behind one binding single-phase limit, keys built so that the LLF / LRPT order flips after a
    few periods: the session served first keeps its laxity (resp. loses processing time) while the waiting one loses
    laxity (resp. keeps its processing time)."""
    N = rng.choice([2, 2, 3])
    sort = sort or rng.choice(["llf", "lrpt", "llf", "lrpt", "edf", "fcfs"])
    algo = algo or rng.choice(["greedy", "greedy", "rr"])
    finite = rng.random() < 0.4
    maxp = [float(rng.choice([32, 32, 16, 40])) for _ in range(N)]
    if rng.random() < 0.6:
        maxp = [maxp[0]] * N
    allow, cont, minp, etype = [], [], [], []
    for i in range(N):
        if finite:
            lv = [0.0] + [float(x) for x in range(8, int(maxp[i]) + 1, 8)]
            allow.append(lv); cont.append(False); minp.append(8.0); etype.append("F"); maxp[i] = max(lv)
        else:
            allow.append([0.0, maxp[i]]); cont.append(True); minp.append(0.0); etype.append("C0")
    volt = [float(rng.choice([208, 240]))] * N if rng.random() < 0.6 else [float(rng.choice([208, 240, 120])) for _ in range(N)]
    lim = float(rng.choice([max(maxp), max(maxp), max(maxp) + 8, round(max(maxp) * rng.uniform(0.6, 1.4), 1)]))
    infra = dict(N=N, A=[[1.0] * N], L=[lim], phases=[0.0] * N, volt=volt, maxp=maxp, minp=minp, allow=allow,
                 cont=cont, etype=etype)
    period = float(rng.choice([5, 5, 15, 1]))
    now = rng.randint(3, 30)
    sess = []
    base_rpt = rng.uniform(4.0, 7.0)
    arrs = rng.sample(range(0, now + 1), N)
    for j in range(N):
        st = j
        d = rng.uniform(0.4, 2.6) * j
        dep = now + rng.randint(14, 20)
        edep = now + 10 + 2 * j
        if sort == "llf":
            lax0 = 10 - base_rpt                   # laxity of the first-served session
            rpt = (edep - now) - (lax0 + d)
        else:
            rpt = base_rpt - d if sort == "lrpt" else base_rpt + rng.uniform(-1, 1)
        rpt = max(rpt, 1.5)
        rap = rpt * maxp[st]
        req = rap * volt[st] / 1000.0 * period / 60.0
        sess.append(dict(st=st, sid=200 + 3 * j + rng.randint(0, 2), req=float(req), deliv=0.0, arr=arrs[j], dep=dep,
                         edep=edep, mins=0, maxs=INF))
    rng.shuffle(sess)
    return dict(infra=infra, period=period, now=now, sessions=sess, algo=algo, sort=sort, est=None,
                unint=rng.random() < 0.25, inc=rng.choice([0.5, 1.0]))


def other_network(rng, infra):
    """another network with the SAME station ids: different ratings, limits, phases, voltages"""
    inf = _copy.deepcopy(infra)
    N = inf["N"]
    for i in range(N):
        if inf["cont"][i]:
            mx = float(rng.choice([16, 24, 40, 64, 12.5]))
            inf["maxp"][i] = mx
            inf["allow"][i] = [inf["allow"][i][0] if inf["allow"][i][0] < mx else 0.0, mx]
            inf["minp"][i] = inf["allow"][i][0]
        else:
            lv = list(rng.choice(FINITE_SETS[:6]))
            inf["allow"][i] = lv
            inf["maxp"][i] = max(lv)
            inf["minp"][i] = min(a for a in lv if a > 0)
            inf["etype"][i] = "F"
        inf["volt"][i] = float(rng.choice([208, 240, 120, 277]))
        inf["phases"][i] = float(rng.choice([0.0, 120.0, -120.0, 30.0]))
    inf["L"] = [float(round(l * rng.uniform(0.4, 1.6), 1)) for l in inf["L"]]
    return inf


def advance(scn, impl, rng=None):
    """the state the next period's call sees when every EV draws exactly its pilot"""
    nxt = _copy.deepcopy(scn)
    inf = scn["infra"]
    nxt["now"] = scn["now"] + 1
    kept = []
    pp, pr = {}, {}
    for s in nxt["sessions"]:
        p = impl["sched"][s["st"]] if impl["sched"] is not None else 0.0
        p = p or 0.0
        s["deliv"] = float(s["deliv"] + p * inf["volt"][s["st"]] / 1000.0 * scn["period"] / 60.0)
        pp[s["sid"]] = float(p)
        pr[s["sid"]] = float(p if rng is None or rng.random() < 0.7 else p * rng.uniform(0.3, 0.95))
        if s["dep"] > nxt["now"]:
            if isinstance(s["mins"], list):
                rt = max(min(s["dep"] - s["arr"], s["dep"] - nxt["now"]), 0)
                s["mins"] = s["mins"][:rt] + [0.0] * (rt - len(s["mins"]))
            if isinstance(s["maxs"], list):
                rt = max(min(s["dep"] - s["arr"], s["dep"] - nxt["now"]), 0)
                s["maxs"] = s["maxs"][:rt] + [s["maxs"][-1]] * (rt - len(s["maxs"]))
            kept.append(s)
    nxt["sessions"] = kept
    if nxt.get("est") is not None and not nxt["est"].get("custom"):
        nxt["est"]["prev_pilot"] = pp
        nxt["est"]["prev_rate"] = pr
    return nxt


def run_sequence(rng, tier, steps=6, algo=None, sort=None):
    """returns [(scenario_t, impl_t, tag)]: every call of ONE algorithm object over consecutive periods"""
    if rng.random() < 0.65:
        scn = gen_flip_scenario(rng, tier, algo=algo, sort=sort)
        if rng.random() < 0.3:
            scn["est"] = gen_ramp(rng, scn["infra"], scn["sessions"]) if rng.random() < 0.6 else \
                gen_fixed_est(rng, scn["infra"], scn["sessions"])
        if rng.random() < 0.4:
            scn["max_recompute"] = rng.choice([None, 2, 3, 5])
    else:
        scn = gen_scenario(rng, tier, algo=algo or rng.choice(["greedy", "rr"]), sort=sort, user_bounds=False, plenty=0.8)
        if scn["inc"] == 0.1:
            scn["inc"] = 0.5
    driver = StubDriver(scn)
    out, hist = [], []
    switch_at = rng.choice([None, None, 2, 3])
    for t in range(steps):
        rereg = False
        if t > 0 and t == switch_at:
            scn["infra"] = other_network(rng, scn["infra"])
            rereg = True
        elif t > 0 and rng.random() < 0.25 and scn["infra"]["L"]:
            # the network is modified between two calls on the same objects (update / remove / add a constraint)
            inf = scn["infra"] = _copy.deepcopy(scn["infra"])
            op = rng.choice(["update", "update", "remove", "add"])
            j = rng.randrange(len(inf["L"]))
            if op == "update":
                inf["L"][j] = float(round(inf["L"][j] * rng.uniform(0.5, 1.5), 2))
            elif op == "remove":
                del inf["L"][j]
                del inf["A"][j]
            else:
                inf["A"].append([float(rng.choice([0.0, 1.0, 1.0, -1.0, 0.5])) for _ in range(inf["N"])])
                inf["L"].append(float(rng.choice([16, 24, 40, 12.5])))
        scn = _copy.deepcopy(scn)
        scn.pop("history", None)
        mode = dict(direct=rng.random() < 0.3, vandalise=rng.random() < 0.3)
        impl = driver.call(scn, reregister=rereg, **mode)
        rec = _copy.deepcopy(scn)
        # what the same object was asked before (needed to replay a state-dependent failure)
        scn["history"] = list(hist)
        scn["rereg"] = rereg
        hist.append(dict(scn=rec, rereg=rereg))
        out.append((scn, impl, "seq%d%s" % (t, "*" if rereg else "")))
        if impl["err"] is not None or not scn["sessions"]:
            break
        scn = advance(rec, impl, rng)
    return out


def replay_with_history(scn):
    """re-drive ONE fresh algorithm object through the recorded earlier calls, then the call itself"""
    scn = scn_from_json(scn)
    hist = [dict(scn=scn_from_json(h["scn"]), rereg=h["rereg"]) for h in scn.get("history", [])]
    if not hist:
        return scn, run_impl(scn)
    driver = StubDriver(hist[0]["scn"])
    for h in hist:
        driver.call(h["scn"], reregister=h["rereg"], vandalise=True)
    return scn, driver.call(scn, reregister=bool(scn.get("rereg")))


def run_unc_pair(rng, tier):
    """ONE UncontrolledCharging object used on a network and then on another network with the same station ids"""
    a = gen_scenario(rng, tier)
    a = dict(a, algo="unc", est=None)
    driver = StubDriver(a)
    out = [(a, driver.call(a), "unc-first")]
    b = _copy.deepcopy(a)
    b["infra"] = other_network(rng, a["infra"])
    rereg = rng.random() < 0.7          # a new Simulator registers a new interface; or the network is re-rated in place
    implb = driver.call(b, reregister=rereg)
    b["history"] = [dict(scn=_copy.deepcopy(a), rereg=False)]
    b["rereg"] = rereg
    out.append((b, implb, "unc-second"))
    return out


def run_interleaved(rng, tier, rounds=3):
    """TWO live instances (algorithm + interface + estimator each) on networks of the same shape and station ids but
    different values, called alternately over consecutive periods; earlier results are held and re-read"""
    a = gen_flip_scenario(rng, tier) if rng.random() < 0.5 else gen_scenario(rng, tier, user_bounds=False, plenty=0.8)
    if a["inc"] == 0.1:
        a["inc"] = 0.5
    if rng.random() < 0.5:
        a["est"] = gen_ramp(rng, a["infra"], a["sessions"])
    b = _copy.deepcopy(a)
    b["infra"] = other_network(rng, a["infra"])
    b["infra"]["names"] = a["infra"].get("names")
    for s_ in b["sessions"]:
        s_["deliv"] = float(s_["deliv"] + rng.uniform(0, 0.3) * max(0.0, s_["req"] - s_["deliv"]))
    b["sort"] = rng.choice(SORTS)
    da, db = StubDriver(a), StubDriver(b)
    out = []
    for t in range(rounds):
        for tag, drv in (("A", da), ("B", db)):
            scn = _copy.deepcopy(a if tag == "A" else b)
            scn.pop("history", None)
            impl = drv.call(scn, vandalise=rng.random() < 0.3)
            out.append((scn, impl, "ilv%s%d" % (tag, t)))
            nxt = advance(scn, impl, rng) if impl["err"] is None else scn
            if tag == "A":
                a = nxt
            else:
                b = nxt
    return out
