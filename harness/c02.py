"""C02 — energy ledger: recorded rates, EV energy and battery charge agree.

Correspondence: generated histories are run on the REAL Simulator (scripted scheduler, recording
ChargingNetwork subclass); the recorded operation sequence (plugin / unplug calls, the pilot
column handed to update_pilots each period) is replayed in the Coq model (Model/Ledger.v, Q
instance, vm_compute) and every observable of the ledger is compared."""
import fractions
import json
import time
import warnings

from harness.core import q, z, zlit, coq_list, coq_bool, coq_opt

PID = "C02"
GEN_GROUPS = ["Battery", "Ledger", "Evse", "EvseZ"]
TARGETS = ["coq/Props/C02.vo", "coq/Model/LedgerQc.vo"]
CASES = {"quick": 256, "thorough": 2000}
SHARD = 16
CORR_HEADER = ("From Coq Require Import ZArith QArith List String.\n"
               "From ACN Require Import Base.Num Model.EVSE Model.Ledger Model.LedgerQ Model.LedgerQc.\nImport ListNotations.\n"
               "Open Scope Q_scope.\n")
CHECK_FN = "check_c02_qc"      # the canonical-rational instance: the model of the axiom-free theorems
RULE = ("one case = one complete Simulator.run(): 1-6 stations (EVSE / DeadbandEVSE / FiniteRatesEVSE, voltages "
        "120/208/240/277), period 1/5/15, sessions per station with back-to-back reuse and gaps, Battery / "
        "Linear2StageBattery continuous / stepwise (noise 0 and, with a patched np.random.normal, noise > 0) at initial "
        "SoC around every regime boundary, scripted scheduler (max_recompute 1 / k / None, multi-period schedules, "
        "non-zero pilots addressed to vacant stations); cross-cutting families on fractions of the runs: earlier simulation on the same network / reused EV objects, interleaved decoy simulation, returned objects scribbled on, re-registered stations, periods 7/0.5/2.5/4.1/(1/3), estimated_departure, scheduler failures (Exception/BaseException) with resume by run()/fresh scheduler/JSON, pilot dtypes and mapping order, a second interpreter with another PYTHONHASHSEED, Interface / DataFrame / direct network entry points, analysis helpers asked on the interrupted simulator (post-mortem) and mid-run, first periods advanced with Simulator.step() on a simulator that starts with an EV connected; station ids whose lexicographic order differs from the registration order (S-8..S-11, mixed case, numeric strings, descending); ~30% of the plain-network runs pass through to_json()/from_json() (finished run reloaded, or check-pointed mid-run, reloaded, fresh scheduler, continued) and are observed on the reloaded object by station name; a quarter of the runs on contrib StochasticNetwork (random assignment, waiting queue, swaps, early departure; attach/detach logged per EVSE); ~10% malformed histories (one invalid pilot / a session plugged into an occupied station / an unregistered station): run() aborts and the model must fail at exactly that operation. "
        "Distinct = distinct (network, sessions, pilot script); non-trivial = at least one period delivers energy")
ASSUMPTIONS = ["theorems are over R (exact arithmetic); the implementation computes in IEEE doubles (values compared to 1e-9 relative)",
               "every session id is plugged at most once (C01) and station ids are distinct",
               "numpy reductions (np.sum, dot) are modelled as exact sums",
               "exp in the executable Q twin is Num.qexp (validated here, not relied on by theorems)"]
TRUSTED_EXTRA = ["recording subclass of ChargingNetwork (plugin/unplug/update_pilots/post_charging_update wrappers) and the scripted scheduler used to drive the real Simulator"]

F = fractions.Fraction
VOLTS = [120, 208, 240, 277]


# ------------------------------------------------------------------------------------------------
# building and running one history on the real implementation
# ------------------------------------------------------------------------------------------------
def make_evse(sid, kind):
    from acnportal.acnsim.models import EVSE, DeadbandEVSE, FiniteRatesEVSE
    if kind[0] == "C":
        return EVSE(sid, max_rate=kind[2], min_rate=kind[1])
    if kind[0] == "D":
        return DeadbandEVSE(sid, deadband_end=kind[1], max_rate=kind[2])
    return FiniteRatesEVSE(sid, list(kind[1]))


def make_battery(b):
    from acnportal.acnsim.models import Battery, Linear2StageBattery
    if b["kind"] == "ideal":
        return Battery(b["cap"], b["init"], b["maxp"])
    return Linear2StageBattery(b["cap"], b["init"], b["maxp"], noise_level=b.get("noise", 0),
                               transition_soc=b["tsoc"],
                               charge_calculation="continuous" if b["kind"] == "cont" else "stepwise")


class NoiseScript:
    """deterministic replacement of np.random.normal: returns scripted draws and records them"""

    def __init__(self, draws):
        self.draws = list(draws)
        self.k = 0
        self.log = []

    def __call__(self, loc=0.0, scale=1.0, size=None):
        v = self.draws[self.k % len(self.draws)] * scale if self.draws else 0.0
        self.k += 1
        self.log.append(float(v))
        return v


# ------------------------------------------------------------------------------------------------
# recording network classes.  They are MODULE-LEVEL (so that Simulator.from_json can locate them) and log into the
# module-global _REC, so a network rebuilt by from_json keeps recording.  Everything is keyed by station NAME and
# emitted in REGISTRATION order (inp["names"]), never by the network's internal row order.
# ------------------------------------------------------------------------------------------------
_REC = None
from acnportal.acnsim.network.charging_network import ChargingNetwork as _ChargingNetwork      # noqa: E402
from acnportal.contrib.acnsim import StochasticNetwork as _StochasticNetwork                    # noqa: E402


def _sidx(name):
    return _REC["names"].index(name) if name in _REC["names"] else -1


def _batt_desc(ev):
    b = ev._battery
    return dict(kind=_REC["batt_kind"][ev.session_id], cap=b._capacity, cur=b._current_charge,
                pow=b._current_charging_power, maxp=b._max_power,
                noise=getattr(b, "_noise_level", 0), tsoc=getattr(b, "_transition_soc", 0))


class _Recording:
    # plain ChargingNetwork: plugin / unplug are logged at the network entry points (so KeyError /
    # StationOccupiedError paths are part of the recorded sequence).
    def plugin(self, ev, station_id=None):
        if not _REC["stochastic"]:
            _REC["ops"].append(["plugin", _sidx(ev.station_id), _REC["sess_num"][ev.session_id], _batt_desc(ev)])
        return super().plugin(ev)

    def unplug(self, station_id, session_id=None):
        if not _REC["stochastic"]:
            _REC["ops"].append(["unplug", _sidx(station_id), _REC["sess_num"][session_id]])
        return super().unplug(station_id, session_id)

    def update_pilots(self, pilots, i, period):
        names, sess_num, draw_log = _REC["names"], _REC["sess_num"], _REC["draw_log"]
        ids = self.station_ids                      # the pilot that station NAME receives is row ids.index(NAME)
        col = [float(pilots[ids.index(nm), i]) if nm in ids else 0.0 for nm in names]
        step_op = ["step", col, None]
        _REC["ops"].append(step_op)
        mark = len(draw_log)
        where = {sess_num[self._EVSEs[nm].ev.session_id]: k for k, nm in enumerate(names)
                 if nm in self._EVSEs and self._EVSEs[nm].ev is not None}
        before = pilots.copy() if _REC.get("probe") else None
        try:
            return super().update_pilots(pilots, i, period)
        finally:
            if before is not None and not (before == pilots).all():
                _REC["flags"]["mutated"] = "update_pilots modified the caller's pilot matrix in period %d" % i
            per_station = [[] for _ in names]
            for sid, draws in draw_log[mark:]:
                per_station[where[sid]] = draws
            step_op[2] = per_station

    def post_charging_update(self):
        _REC["occ"].append([None if self._EVSEs[nm].ev is None else _REC["sess_num"][self._EVSEs[nm].ev.session_id]
                            for nm in _REC["names"]])
        if _REC.get("probe"):
            # entry point: the direct network call; then scribble on everything that was returned -- returned
            # arrays / lists / dicts are the caller's, changing them must not change the component
            ids = self.station_ids
            arr = self.current_charging_rates
            _REC["net_rates"].append([float(arr[ids.index(nm)]) if nm in ids else None for nm in _REC["names"]])
            arr[:] = 999.0
            ids.reverse()
            v = self.voltages
            for k in list(v):
                v[k] = -1.0
            ph = self.phase_angles
            ph.clear()
        return super().post_charging_update()


class RecordingNetwork(_Recording, _ChargingNetwork):
    pass


class RecordingStochasticNetwork(_Recording, _StochasticNetwork):
    pass


class _Checkpoint(Exception):
    """raised by the scripted scheduler at a chosen invocation (args[0] = how the run is resumed)"""


class _BaseCheckpoint(BaseException):
    """the same as a BaseException subclass (KeyboardInterrupt-like)"""


def run_decoy(inp, names):
    """a complete second simulation on ANOTHER network of the same shape (same station ids, other voltages, other
    sessions), executed from inside the scheduler of the recorded one: two live instances interleaved.  Its own ledger
    is audited here; returns a message if it does not balance."""
    import numpy as np
    from datetime import datetime
    from acnportal.acnsim import ChargingNetwork, Simulator, EventQueue, PluginEvent
    from acnportal.acnsim.models import EV, Battery, EVSE
    from acnportal.algorithms import BaseAlgorithm
    volts = [float(st["voltage"]) + 7.0 for st in reversed(inp["stations"])]
    net = ChargingNetwork()
    for nm, v in zip(names, volts):
        net.register_evse(EVSE(nm, max_rate=100), v, 0)

    class Flat(BaseAlgorithm):
        def __init__(self):
            super().__init__()
            self.max_recompute = 1

        def schedule(self, active):
            return {nm: [11.0] for nm in names}
    evs = [EV(k, k + 3, 50, names[k % len(names)], "d%d" % k, Battery(100, 1, 50)) for k in range(0, 2 * len(names), 4)]
    sim = Simulator(net, Flat(), EventQueue([PluginEvent(e.arrival, e) for e in evs]), datetime(2021, 1, 1),
                    period=inp["period"], verbose=False)
    sim.run()
    for e in evs:
        k = names.index(e.station_id)
        want = 3 * 11.0 * volts[k] / 1000 * (inp["period"] / 60)
        if abs(e.energy_delivered - want) > 1e-9 * max(1, want):
            return "decoy simulation: session %s received %r kWh, 3 periods x 11 A x %r V give %r" % (
                e.session_id, float(e.energy_delivered), volts[k], want)
        row = np.array(sim.charging_rates)[k]
        if abs(row[e.arrival:e.departure].sum() - 33.0) > 1e-9:
            return "decoy simulation: recorded rates of station %s are %r" % (e.station_id, row.tolist())
    return None


NAME_SCHEMES = [
    lambda i: "st%d" % i,                                         # already sorted
    lambda i: "S-%d" % (i + 8),                                   # S-8, S-9, S-10, S-11 ...: numeric, not lexicographic
    lambda i: ["b2", "B10", "10", "9", "", "A-1"][i],             # mixed case / numeric-looking strings / the empty string
    lambda i: "PS-%d" % (11 - i),                                 # descending
]


def station_names(inp):
    return [NAME_SCHEMES[inp.get("name_scheme", 0)](i) for i in range(len(inp["stations"]))]


def run_history(inp, extra=None, midrun=None):
    """Run the real Simulator on the history `inp`; returns the recorded ops and observables.
    `extra(sim, station_ids, sess_num)` (optional) is evaluated on the finished simulator (used by C18);
    `midrun(sim, station_ids, sess_num)` (optional) is evaluated from inside the scheduling algorithm, every time
    it is invoked while the run is in progress (results in out["midrun"]).
    inp["json"] = "final": the completed simulator is passed through to_json()/from_json() and everything is observed
    on the RELOADED object; "midrun": the run is interrupted at scheduler invocation inp["json_at"], dumped, reloaded,
    given a fresh scheduler (update_scheduler) and continued."""
    global _REC
    import numpy as np
    from datetime import datetime
    from acnportal import acnsim
    from acnportal.acnsim import Simulator, EventQueue, PluginEvent
    from acnportal.acnsim.models import EV
    from acnportal.algorithms import BaseAlgorithm
    import acnportal.acnsim.models.battery as battery_mod

    station_ids = station_names(inp)
    stochastic = inp.get("net_class") == "stochastic"
    noise = NoiseScript(inp.get("noise_draws", []))
    flags = dict(ambiguous=False, reloaded=0, interrupted=0)
    _REC = dict(ops=[], occ=[], names=station_ids, sess_num={}, batt_kind={}, draw_log=[], stochastic=stochastic,
                probe=bool(inp.get("probe")), net_rates=[], flags=flags)
    ops, occ, sess_num, ev_batt_kind, draw_log = _REC["ops"], _REC["occ"], _REC["sess_num"], _REC["batt_kind"], _REC["draw_log"]
    any_json = bool(inp.get("json"))

    if stochastic:
        # the contrib subclass (random space assignment, waiting queue, swaps, early departure) detaches and
        # attaches EVs through the EVSE objects directly: there the attach / detach calls are logged per EVSE
        import random as _random
        _rand_state = _random.getstate()
        _random.seed(inp.get("rand_seed", 0))
        net = RecordingStochasticNetwork(*inp.get("tolerances", [1e-5, 1e-7]),
                                         early_departure=bool(inp.get("early_departure")))
    else:
        net = RecordingNetwork(*inp.get("tolerances", [1e-5, 1e-7]))
    for k, (sid, st) in enumerate(zip(station_ids, inp["stations"])):
        evse = make_evse(sid, tuple(st["kind"]))
        if stochastic:
            def _plugin(ev, _orig=evse.plugin, _k=k):
                ops.append(["plugin", _k, sess_num[ev.session_id], _batt_desc(ev)])
                return _orig(ev)

            def _unplug(_orig=evse.unplug, _k=k, _evse=evse):
                if _evse.ev is not None:
                    ops.append(["unplug", _k, sess_num[_evse.ev.session_id]])
                return _orig()
            evse.plugin, evse.unplug = _plugin, _unplug
        for r_idx, r_kind, r_volt in inp.get("rereg", []):
            if r_idx == k:
                # the station is first registered with other values and then re-registered (replaced in place)
                net.register_evse(make_evse(sid, tuple(r_kind)), r_volt, 77.0)
        net.register_evse(evse, st["voltage"], st.get("phase", 0))

    for c in inp.get("constraints", []):
        from acnportal.acnsim.network.current import Current
        net.add_constraint(Current({station_ids[int(k)]: v for k, v in c["coefs"].items()}), c["limit"], name=c["name"])

    # ---- object reuse: a complete first simulation on the SAME network object (not recorded), optionally handing its
    # EV / battery objects (after ev.reset()) to the recorded simulation
    warm_evs = []
    if inp.get("warmup"):
        w = inp["warmup"]
        wscript = w["script"]

        class Warm(BaseAlgorithm):
            def __init__(self):
                super().__init__()
                self.max_recompute = 1

            def schedule(self, active_sessions):
                t = self.interface.current_time
                return {} if t >= len(wscript) else {station_ids[int(k)]: list(v) for k, v in wscript[t].items()}
        for k, s in enumerate(w["sessions"]):
            sess_num["sess%d" % k] = k
            ev_batt_kind["sess%d" % k] = s["battery"]["kind"]
            warm_evs.append(EV(s["arrival"], s["departure"], s["requested"], station_ids[s["station"]], "sess%d" % k,
                               make_battery(s["battery"])))
        with warnings.catch_warnings():
            warnings.simplefilter("ignore")
            Simulator(net, Warm(), EventQueue([PluginEvent(e.arrival, e) for e in warm_evs]), datetime(2021, 3, 3),
                      period=inp["period"], verbose=False).run()
        del ops[:], occ[:], draw_log[:], _REC["net_rates"][:]

    events = []
    preplugged = []
    for k, s in enumerate(inp["sessions"]):
        name = "sess%d" % k
        sess_num[name] = k
        ev_batt_kind[name] = s["battery"]["kind"]
        if inp.get("reuse_evs") and k < len(warm_evs):
            # the same EV and battery objects serve a second session after reset()
            ev = warm_evs[k]
            ev.reset()
            ev.arrival, ev.departure = s["arrival"], s["departure"]
            ev.estimated_departure = s.get("est_dep", s["departure"])
            ev.update_station_id(station_ids[s["station"]])
            events.append(PluginEvent(s["arrival"], ev))
            continue
        batt = make_battery(s["battery"])

        def charge(pilot, voltage, period, _orig=batt.charge, _k=k):
            # instance-level recording wrapper: which session consumed which noise draws
            before = len(noise.log)
            b = _orig.__self__
            if getattr(b, "_noise_level", 0) > 0 and getattr(b, "charge_calculation", "") == "stepwise":
                # with noise the two regimes of the stepwise law differ at soc == transition_soc:
                # a float-computed decision within 1e-9 of its threshold is ambiguous
                if abs(F(b._current_charge) / F(b._capacity) - F(b._transition_soc)) < F(1, 10**9):
                    flags["ambiguous"] = True
            try:
                return _orig(pilot, voltage, period)
            finally:
                draw_log.append((_k, noise.log[before:]))
        if not any_json:
            # (an instance attribute would be serialised as an opaque stub by to_json; JSON cases are noise-free)
            batt.charge = charge
        ev = EV(s["arrival"], s["departure"], s["requested"],
                station_ids[s["station"]] if s["station"] >= 0 else "not-registered", name, batt,
                estimated_departure=s.get("est_dep"))
        if inp.get("preplug") and inp["preplug"]["session"] == k:
            preplugged.append(ev)          # connected before the simulator starts, see below
            continue
        events.append(PluginEvent(s["arrival"], ev))

    script = inp["script"]           # list of (length, {station index: [pilots]}) per iteration
    json_mode = inp.get("json")
    calls = dict(n=0)

    interrupts = {int(i[0]): i for i in inp.get("interrupts", [])}
    probe_log = []
    import random as _pyrandom
    drng = _pyrandom.Random(inp["dtypes"]) if inp.get("dtypes") is not None else None

    def cast(v):
        # the same pilot handed over as python int / float, numpy scalar of several widths
        c = drng.randrange(6)
        if c == 0 and float(v).is_integer():
            return int(v)
        if c == 1:
            return np.float64(v)
        if c == 2 and float(v).is_integer():
            return np.int64(v)
        if c == 3 and float(v).is_integer():
            return np.int32(v)
        if c == 4 and float(np.float32(v)) == float(v):
            return np.float32(v)
        return float(v)

    class Scripted(BaseAlgorithm):
        def __init__(self):
            super().__init__()
            self.max_recompute = inp["max_recompute"]

        def schedule(self, active_sessions):
            t = self.interface.current_time
            calls["n"] += 1
            it_ = interrupts.pop(calls["n"], None)
            if it_ is not None:
                # the scheduling algorithm fails in this period (Exception or BaseException subclass)
                raise (_BaseCheckpoint if it_[1] == "base" else _Checkpoint)(it_[2])
            if inp.get("decoy_at") == calls["n"]:
                flags["decoy"] = run_decoy(inp, station_ids)
            if inp.get("probe"):
                _REC["post_mortem"](self.interface._simulator, "scheduler")
                # entry points through the Interface; the returned objects are scribbled on afterwards
                lr = self.interface.last_actual_charging_rate
                ses = self.interface.active_sessions()
                probe_log.append(dict(t=int(t), rates={sess_num[k]: float(v) for k, v in lr.items()},
                                      peak=float(self.interface.get_prev_peak()),
                                      energy={sess_num[x.session_id]: float(x.energy_delivered) for x in ses}))
                for k in list(lr):
                    lr[k] = 999.0
                for x in ses:
                    x.energy_delivered = -5.0
                    x.station_id = "scribble"
                for x in active_sessions:
                    x.energy_delivered = -7.0
            if midrun is not None:
                mid_results.append(midrun(self.interface._simulator, station_ids, sess_num))
            if t >= len(script):
                return {}
            ent = script[t]
            if drng is None:
                return {station_ids[int(k)]: list(v) for k, v in ent.items()}
            # dtypes / containers / entry order of the mapping
            keys = list(ent)
            drng.shuffle(keys)
            out_ = {}
            for k in keys:
                vals = [cast(x) for x in ent[k]]
                c = drng.randrange(3)
                out_[station_ids[int(k)]] = vals if c == 0 else (tuple(vals) if c == 1 else np.array([float(x) for x in vals]))
            return out_

    mid_results = []
    old_normal = battery_mod.np.random.normal
    battery_mod.np.random.normal = noise
    err = None
    try:
        with warnings.catch_warnings():
            warnings.simplefilter("ignore")
            def post_mortem(sim_, where):
                # the analysis helpers are asked on the SAME simulator object in the middle of its life (post-mortem of an
                # interrupted run, or a monitoring scheduler); what they say must match the record at that moment, and
                # must not be remembered wrongly when they are asked again later
                rn = np.array(sim_.charging_rates)
                pm_log.append(dict(where=where, iteration=int(sim_.iteration),
                                   agg_current=[float(x) for x in acnsim.analysis.aggregate_current(sim_)],
                                   agg_power=[float(x) for x in acnsim.analysis.aggregate_power(sim_)],
                                   total=float(acnsim.analysis.total_energy_delivered(sim_)),
                                   want_current=[float(x) for x in rn.sum(axis=0)],
                                   want_power=[float(x) for x in (np.array(sim_.network._voltages) @ rn) / 1000],
                                   want_total=float(sum(ev.energy_delivered for ev in sim_.ev_history.values()))))
            pm_log = []
            _REC["post_mortem"] = post_mortem
            signals = None
            if inp.get("sim_tariff") is not None:
                # the simulator's own tariff ("" = a signals dict without one)
                from acnportal.signals.tariffs import TimeOfUseTariff
                signals = {"tariff": TimeOfUseTariff(inp["sim_tariff"])} if inp["sim_tariff"] else {}
            sim = Simulator(net, Scripted(), EventQueue(events), datetime(2021, 3, 4, *inp.get("start_hm", [0, 0])),
                            period=inp["period"], signals=signals, verbose=False)
            try:
                for ev in preplugged:
                    # a simulation that starts with an EV already connected: what processing its PluginEvent would do
                    from acnportal.acnsim.events import UnplugEvent
                    sim.network.plugin(ev)
                    sim.ev_history[ev.session_id] = ev
                    sim.event_queue.add_event(UnplugEvent(ev.departure, ev))
                if inp.get("preplug"):
                    # the first periods (up to the next queued event) are advanced by hand with Simulator.step(schedule),
                    # the rest is left to run()
                    sim.step({station_ids[inp["sessions"][inp["preplug"]["session"]]["station"]]: [inp["preplug"]["pilot"]]})
                    flags["stepped"] = int(sim.iteration)
                while True:
                    try:
                        sim.run()
                        break
                    except (_Checkpoint, _BaseCheckpoint) as cp:
                        # the scheduler failed in the middle of the run; resume: run() again with the same scheduler
                        # object / with a fresh one / after a to_json()-from_json() round trip with a fresh one
                        flags["interrupted"] += 1
                        post_mortem(sim, "interrupted")
                        mode = cp.args[0] if cp.args else "json"
                        if mode == "json":
                            sim = Simulator.from_json(sim.to_json())
                            flags["reloaded"] += 1
                            sim.update_scheduler(Scripted())
                        elif mode == "fresh":
                            sim.update_scheduler(Scripted())
            except Exception as e:  # noqa
                err = type(e).__name__
            if json_mode == "final" and err is None:
                # a finished run reloaded for analysis
                sim = Simulator.from_json(sim.to_json())
                flags["reloaded"] += 1
            it = sim.iteration
            # everything below is what the (possibly reloaded) objects report about themselves, by station NAME
            ids_now = list(sim.network.station_ids)
            rates_now = np.array(sim.charging_rates)
            rates = np.array([rates_now[ids_now.index(nm)] if nm in ids_now else np.zeros(rates_now.shape[1])
                              for nm in station_ids]).reshape(len(station_ids), rates_now.shape[1])
            volts_now = sim.network.voltages
            out = dict(ok=err is None, error=err, iteration=int(it), ops=ops, occ=occ, ambiguous=flags["ambiguous"],
                       reloaded=flags["reloaded"], station_names=station_ids, station_ids_now=ids_now,
                       swaps=int(getattr(sim.network, "swaps", 0)), early_unplug=int(getattr(sim.network, "early_unplug", 0)),
                       volts_reported=[float(volts_now[nm]) if nm in volts_now else None for nm in station_ids],
                       width=int(rates.shape[1]),
                       rates=[[float(x) for x in rates[:, t]] for t in range(min(it, rates.shape[1]))],
                       tail_zero=bool(np.all(rates[:, it:] == 0)),
                       peak=float(sim.peak))
            sess = []
            for name, ev in sim.ev_history.items():
                d = json.loads(ev.to_json())
                bj = [v for v in d["context_dict"].values() if "Battery" in v["class"]][0]["attributes"]
                sess.append(dict(sid=sess_num[name],
                                 station=station_ids.index(ev.station_id) if ev.station_id in station_ids else -1,
                                 plugged=any(o[0] == "plugin" and o[2] == sess_num[name] for o in ops),
                                 energy=float(ev.energy_delivered), charge=float(ev._battery._current_charge),
                                 charge_json=float(bj["_current_charge"]), init=float(ev._battery._init_charge),
                                 rate=float(ev.current_charging_rate), requested=float(ev.requested_energy)))
            out["sessions"] = sess
            out["interrupted"] = flags["interrupted"]
            out["stepped"] = flags.get("stepped", 0)
            out["post_mortem"] = pm_log
            out["probe"] = probe_log
            out["net_rates"] = _REC["net_rates"]
            out["flag_msgs"] = [flags[k] for k in ("mutated", "decoy") if flags.get(k)]
            if inp.get("probe") and err is None:
                df = sim.charging_rates_as_df()          # entry point: the DataFrame view, columns = station ids
                out["df_rates"] = [[float(df[nm].iloc[t]) for nm in station_ids] for t in range(min(it, len(df)))]
                df.iloc[:, :] = 123.0
                out["rates_after_scribble"] = [[float(x) for x in np.array(sim.charging_rates)[
                    [ids_now.index(nm) for nm in station_ids], t]] for t in range(min(it, rates.shape[1]))]
            if err is None:
                out["total"] = float(acnsim.analysis.total_energy_delivered(sim))
                out["agg_current"] = [float(x) for x in acnsim.analysis.aggregate_current(sim)[:it]]
                out["agg_power"] = [float(x) for x in acnsim.analysis.aggregate_power(sim)[:it]]
            else:
                out["total"], out["agg_current"], out["agg_power"] = 0.0, [], []
            if extra is not None and err is None:
                out["extra"] = extra(sim, station_ids, sess_num)
            out["midrun"] = mid_results
    finally:
        battery_mod.np.random.normal = old_normal
        if stochastic:
            _random.setstate(_rand_state)
    return out


# ------------------------------------------------------------------------------------------------
# generator
# ------------------------------------------------------------------------------------------------
# the last three accept NEGATIVE pilots (bidirectional EVSE: min_rate < 0, finite levels below zero): the scheduler may
# discharge a connected EV; the batteries only warn on negative pilots
KINDS = [("C", 0, 32), ("C", 0, 80), ("C", 0, 40), ("D", 6, 32), ("D", 8, 64), ("F", (8, 16, 24, 32)),
         ("F", (6, 12.5, 48)), ("C", -32, 32), ("C", -16, 80), ("F", (-16, -8, 8, 16))]


def valid_pilots(kind):
    if kind[0] == "C":
        out = [kind[2], kind[2] / 2, 6, 13.37, 1, 0.25, kind[2] - 0.5]
        if kind[1] < 0:
            out += [kind[1], kind[1] / 2, -6, -0.25, -13.37, -1]
        return out
    if kind[0] == "D":
        return [kind[1], kind[2], (kind[1] + kind[2]) / 2, kind[1] + 0.125]
    return list(kind[1])


def invalid_pilot(kind):
    if kind[0] == "C":
        return kind[2] + 1
    if kind[0] == "D":
        return kind[1] / 2
    return kind[1][0] + 1.5


def rand_battery(rng, noisy):
    kind = rng.choice(["ideal", "cont", "step", "step", "ideal", "cont", "step"])
    cap = rng.choice([8, 24, 40, 60, 85, 100, 33.3, 12.5])
    tsoc = rng.choice([0.8, 0.8, 0.5, 0.9, 0.0, 0.65])
    soc = rng.choice([0.0, 0.1, 0.5, tsoc, max(tsoc - 0.01, 0.0), min(tsoc + 0.02, 1.0), 0.95, 0.999, 1.0,
                      round(rng.uniform(0, 1), 3)])
    maxp = rng.choice([3.3, 6.6, 7.2, 11, 50, 1.5])
    b = dict(kind=kind, cap=cap, init=min(cap * soc, cap), maxp=maxp, tsoc=tsoc if kind != "ideal" else 0, noise=0)
    if noisy and kind != "ideal" and rng.random() < 0.7:
        b["noise"] = rng.choice([0.1, 0.5, 2.0])
        if kind == "step" and abs(soc - tsoc) < 1e-9:
            # the noisy stepwise law is discontinuous at soc == transition_soc: probe both sides at 1e-6
            b["init"] = min(cap * min(max(tsoc + rng.choice([-1e-6, 1e-6]), 0.0), 1.0), cap)
    return b


def gen_history(rng, tier, force=None):
    n = rng.randint(1, 6)
    # whole minutes, and periods that do not divide 60 / fractional / float-inexact ones
    period = rng.choice([1, 5, 15, 1, 5, 15, 7, 0.5, 2.5, 4.1, 1 / 3])
    H = rng.randint(2, 12 if tier == "quick" else 24)
    stations = [dict(kind=rng.choice(KINDS), voltage=rng.choice(VOLTS), phase=rng.choice([30, -90, 150, 0]))
                for _ in range(n)]
    noisy = rng.random() < 0.3
    # JSON round trips (plain ChargingNetwork, noise-free so that nothing depends on instance-level wrappers):
    # "final" = the finished run is reloaded and observed on the reloaded object; "midrun" = the run is check-pointed
    # at a scheduler invocation, reloaded, given a fresh scheduler and continued
    json_mode = None
    interrupts = []
    if force == "json-final" or (force is None and rng.random() < 0.12):
        json_mode = "final"
    elif force == "json-midrun" or (force is None and rng.random() < 0.3):
        # the scheduling algorithm fails (Exception / BaseException subclass) at one or two of its invocations; the run
        # is resumed by run() with the same scheduler object, with a fresh one, or after to_json()/from_json()
        for at in sorted(rng.sample(range(1, 9), rng.choice([1, 1, 2]))):
            interrupts.append([at, rng.choice(["exc", "base"]),
                               "json" if force == "json-midrun" else rng.choice(["rerun", "fresh", "json", "json"])])
        if any(i[2] == "json" for i in interrupts):
            json_mode = "midrun"
    if json_mode:
        noisy = False
    name_scheme = rng.choice([0, 1, 1, 2, 2, 3])
    sessions = []
    for s in range(n):
        if rng.random() < 0.15:
            continue                      # station never used
        t = rng.randint(0, 3)
        while t < H and len(sessions) < 25:
            dur = rng.randint(1, 5)
            b = rand_battery(rng, noisy)
            sessions.append(dict(station=s, arrival=t, departure=t + dur,
                                 requested=round(rng.uniform(0.1, max(0.2, b["cap"] - b["init"])), 3), battery=b))
            if rng.random() < 0.3:
                sessions[-1]["est_dep"] = t + rng.randint(1, dur + 3)       # estimated_departure != departure
            t = t + dur + (0 if rng.random() < 0.5 else rng.randint(1, 3))
    # a quarter of the histories run on the contrib subclass StochasticNetwork (random free station, waiting
    # queue, swaps, optional early departure): it attaches / detaches EVs through the EVSEs directly.  Extra
    # overlapping sessions create queueing; sessions still draw current when they leave, stations stay vacant after
    stoch = force == "stochastic" or (force is None and json_mode is None and rng.random() < 0.3)
    if stoch and json_mode is None:
        interrupts = [i for i in interrupts if i[2] != "json"]
    if stoch:
        # saturate the site: more simultaneous sessions than stations (waiting queue, swaps); small requests so
        # that sessions reach their requested energy while still drawing current (early departure swaps an EV in
        # from the queue inside post_charging_update)
        for _ in range(rng.randint(1, 4)):
            t = rng.randint(0, min(H, 3))
            b = rand_battery(rng, noisy)
            sessions.append(dict(station=rng.randrange(n), arrival=t, departure=t + rng.randint(3, 8),
                                 requested=round(rng.uniform(0.1, max(0.2, b["cap"] - b["init"])), 3), battery=b))
        for s_ in sessions:
            if rng.random() < 0.5:
                s_["requested"] = rng.choice([0.02, 0.05, 0.2, 0.5, 1.0])
    rng.shuffle(sessions)
    last = max([s["departure"] for s in sessions], default=0)
    mode = rng.random()
    max_recompute = 1 if mode < 0.6 else (None if mode < 0.8 else rng.choice([2, 3]))
    script = []
    for t in range(last + 2):
        L = 1 if rng.random() < 0.6 else rng.randint(1, 4)
        ent = {}
        for s in range(n):
            r = rng.random()
            if r < 0.12:
                continue                   # station omitted from the schedule -> 0
            ent[str(s)] = [0.0 if rng.random() < 0.15 else float(rng.choice(valid_pilots(stations[s]["kind"])))
                           for _ in range(L)]
        if rng.random() < 0.05:
            ent = {}
        script.append(ent)
    if rng.random() < 0.15:
        # very light load: a top-up residual of 6e-8 A (and 1e-3 A) on the continuous-range stations
        for ent in script:
            for k in ent:
                if stations[int(k)]["kind"][0] == "C" and rng.random() < 0.5:
                    ent[k] = [rng.choice([6e-8, 6e-8, 1e-3]) if v else v for v in ent[k]]
    bad = None
    if (force == "invalid") or (force is None and not stoch and rng.random() < 0.05 and last > 0):
        t = rng.randint(0, last)
        s = rng.randrange(n)
        script[t][str(s)] = [float(invalid_pilot(stations[s]["kind"]))] * max(
            [len(v) for v in script[t].values()] + [1])
        # all schedules of one call must have equal length
        L = len(script[t][str(s)])
        for k in script[t]:
            script[t][k] = (script[t][k] + [0.0] * L)[:L]
        bad = [t, s]
    else:
        for t in range(len(script)):
            if script[t]:
                L = max(len(v) for v in script[t].values())
                for k in script[t]:
                    script[t][k] = (script[t][k] + [0.0] * L)[:L]
    # malformed histories (the run must abort, the model must return None at the same point):
    # a session plugged into an occupied station / into a station that is not registered
    if force == "overlap" or (force is None and not stoch and bad is None and sessions and rng.random() < 0.03):
        if sessions:
            s0 = rng.choice(sessions)
            b = rand_battery(rng, False)
            t = rng.randint(s0["arrival"], s0["departure"] - 1)
            sessions.append(dict(station=s0["station"], arrival=t, departure=t + 2, requested=1.0, battery=b))
            bad = ["overlap", s0["station"]]
    elif force == "unknown" or (force is None and not stoch and bad is None and sessions and rng.random() < 0.02):
        b = rand_battery(rng, False)
        sessions.append(dict(station=-1, arrival=rng.randint(0, last), departure=last + 1, requested=1.0, battery=b))
        bad = ["unknown-station", -1]
    draws = [round(rng.gauss(0, 1), 4) for _ in range(17)] if noisy else []
    out = dict(stations=stations, period=period, sessions=sessions, script=script,
               max_recompute=max_recompute, noise_draws=draws, bad=bad, name_scheme=name_scheme)
    if json_mode and bad is None:
        out.update(json=json_mode)
    if interrupts and bad is None:
        out.update(interrupts=interrupts)
    if stoch:
        out.update(net_class="stochastic", rand_seed=rng.randint(0, 10**6), early_departure=rng.random() < 0.65)
    if rng.random() < 0.3:
        # non-default network tolerances (violation_tolerance, relative_tolerance), coarse ones included
        out["tolerances"] = [rng.choice([1.0, 0.5, 1e-3, 0.0]), rng.choice([1e-7, 1e-2, 0.0])]
    if force in (None, "stochastic", "json-final", "json-midrun", "step") and bad is None:
        # ---- cross-cutting families, each on a fraction of the histories
        if rng.random() < 0.35:
            out["probe"] = True                    # every entry point that reports the quantity; returned objects scribbled on
        if rng.random() < 0.3:
            out["dtypes"] = rng.randint(0, 10**6)  # int / float / numpy scalars, list / tuple / array, shuffled mapping
        if rng.random() < 0.2:
            out["decoy_at"] = rng.randint(1, 5)    # a second live simulation of the same shape run in between
        if rng.random() < 0.15:
            # stations first registered with other values, then re-registered
            out["rereg"] = [[k, rng.choice(KINDS), rng.choice(VOLTS)] for k in rng.sample(range(n), rng.randint(1, min(2, n)))]
        if (force == "step" or (force is None and not stoch and not json_mode and not interrupts and rng.random() < 0.12)) and sessions:
            # Simulator.step(): every session is shifted by a0 periods; one extra session is already connected when the
            # simulator starts (period 0) and the periods before the first queued event are advanced with step(schedule)
            # at a high pilot; run() does the rest.  (step() needs max_recompute None.)
            a0 = rng.randint(2, 4)
            for s_ in sessions:
                s_["arrival"] += a0
                s_["departure"] += a0
                if "est_dep" in s_:
                    s_["est_dep"] += a0
            out["script"] = [dict() for _ in range(a0)] + script
            s0 = rng.randrange(n)
            first = min([s_["arrival"] for s_ in sessions if s_["station"] == s0], default=last + a0 + 1)
            b = rand_battery(rng, False)
            b.update(kind="ideal", cap=100, init=10.0, maxp=50, tsoc=0)
            sessions.append(dict(station=s0, arrival=0, departure=rng.randint(1, first), requested=20.0, battery=b))
            out["preplug"] = dict(session=len(sessions) - 1,
                                  pilot=float(max(abs(x) for x in valid_pilots(stations[s0]["kind"]))))
            out["max_recompute"] = None
            for k_ in ("warmup", "reuse_evs", "decoy_at"):
                out.pop(k_, None)
        elif not stoch and rng.random() < 0.15:
            # a complete earlier simulation on the same network object; half of the time its EV / battery objects
            # are reset() and serve the recorded simulation as well
            wses, t0 = [], 0
            for s in range(n):
                if rng.random() < 0.7:
                    b = rand_battery(rng, False)
                    a = rng.randint(0, 2)
                    wses.append(dict(station=s, arrival=a, departure=a + rng.randint(1, 4),
                                     requested=round(rng.uniform(0.1, max(0.2, b["cap"] - b["init"])), 3), battery=b))
            wlast = max([s["departure"] for s in wses], default=0)
            wscript = [{str(s): [float(rng.choice(valid_pilots(stations[s]["kind"])))] for s in range(n)}
                       for _ in range(wlast + 1)]
            out["warmup"] = dict(sessions=wses, script=wscript)
            if rng.random() < 0.5 and wses:
                out["reuse_evs"] = True
                for k in range(min(len(wses), len(sessions))):
                    sessions[k]["battery"] = dict(wses[k]["battery"])
                    sessions[k]["requested"] = wses[k]["requested"]
    return out


# ------------------------------------------------------------------------------------------------
# Coq term of one case
# ------------------------------------------------------------------------------------------------
def kind_coq(kind):
    if kind[0] == "C":
        return "(Continuous %s %s)" % (q(kind[1]), q(kind[2]))
    if kind[0] == "D":
        return "(Deadband %s %s)" % (q(kind[1]), q(kind[2]))
    return "(Finite %s)" % coq_list([q(r) for r in kind[1]])


BK = {"ideal": "BIdeal", "cont": "BL2cont", "step": "BL2step"}


def batt_coq(b):
    return "(mk_batt %s %s %s %s %s %s %s)" % (BK[b["kind"]], q(b["cap"]), q(b["cur"]), q(b["pow"]), q(b["maxp"]),
                                               q(b["noise"]), q(b["tsoc"]))


def noise_pair(kind_draws):
    """the draws consumed by one battery.charge call -> the (noise, noise2) pair of the generated kernel.
    continuous: one draw (noise); stepwise: one draw, bound to `noise` in the pre-transition branch and to
    `noise2` in the post-transition branch -- the same value is passed for both."""
    if not kind_draws:
        return "(0, 0)"
    return "(%s, %s)" % (q(kind_draws[0]), q(kind_draws[0]))


def op_coq(o):
    if o[0] == "plugin":
        return "(Plugin %s %s %s)" % (zlit(o[1]), zlit(o[2]), batt_coq(o[3]))
    if o[0] == "unplug":
        return "(Unplug %s %s)" % (zlit(o[1]), zlit(o[2]))
    ns = o[2] or []
    if any(ns):
        return "(Step %s %s)" % (coq_list([q(x) for x in o[1]]), coq_list([noise_pair(d) for d in ns]))
    return "(Step %s [])" % coq_list([q(x) for x in o[1]])


def case_coq(inp, impl):
    net = coq_list(["(%s, %s, %s)" % (zlit(i), q(st["voltage"]), kind_coq(tuple(st["kind"])))
                    for i, st in enumerate(inp["stations"])])
    return ("{| c_period := %s; c_net := %s;\n   c_ops := %s;\n   i_ok := %s; i_rates := %s; i_occ := %s; i_peak := %s;\n"
            "   i_evs := %s; i_total := %s; i_agg_current := %s; i_agg_power := %s |}") % (
        q(inp["period"]), net, coq_list([op_coq(o) for o in impl["ops"]]), coq_bool(impl["ok"]),
        coq_list([coq_list([q(x) for x in col]) for col in impl["rates"]]),
        coq_list([coq_list([coq_opt(x, zlit) for x in row]) for row in impl["occ"]]),
        q(impl["peak"]),
        coq_list(["(%s, (%s, %s, %s, %s))" % (zlit(s["sid"]), q(s["energy"]), q(s["charge"]), q(s["charge_json"]), q(s["rate"]))
                  for s in impl["sessions"] if s.get("plugged", True)]),
        q(impl["total"]), coq_list([q(x) for x in impl["agg_current"]]), coq_list([q(x) for x in impl["agg_power"]]))


def tiny_pilot_on_continuous(ops):
    """the continuous two-stage law computes `pilot_transition_soc - 1` by cancellation; for a non-zero pilot below
    1e-3 A the float result of that difference has a relative error up to ~1e-3, which the exponential turns into a
    rate error far above 1e-9: such a call is float-ambiguous (exact arithmetic and IEEE doubles legitimately differ)"""
    at = {}
    for o in ops:
        if o[0] == "plugin":
            at[o[1]] = o[3]["kind"]
        elif o[0] == "unplug":
            at.pop(o[1], None)
        else:
            for k, p in enumerate(o[1]):
                if at.get(k) == "cont" and 0 < abs(p) < 1e-3:
                    return True
    return False


def make_case(inp):
    impl = run_history(inp)
    if tiny_pilot_on_continuous(impl["ops"]):
        impl["ambiguous"] = True
    delivered = any(s["energy"] != 0 for s in impl["sessions"])
    nb = sum(1 for s in inp["sessions"] if s["battery"]["kind"] != "ideal")
    kind = "%s/%s/%s%s" % ("ok" if impl["ok"] else "abort:" + str(impl["error"]),
                           "noisy" if inp.get("noise_draws") else "noiseless",
                           "mr=%s" % inp["max_recompute"],
                           ("/stochastic" if inp.get("net_class") == "stochastic" else "")
                           + ("/json-%s%s" % (inp["json"], "" if impl.get("reloaded") else "(not reached)") if inp.get("json") else "")
                           + ("/interrupted" if impl.get("interrupted") else "")
                           + ("/stepped%d" % impl["stepped"] if impl.get("stepped") else "")
                           + "".join("/" + k for k in ("probe", "dtypes", "decoy_at", "rereg", "warmup", "reuse_evs") if inp.get(k)))
    return dict(input=inp, impl={k: v for k, v in impl.items()}, coq=case_coq(inp, impl), ambiguous=bool(impl.get("ambiguous")),
                kind=kind, sig=[inp["stations"], inp["sessions"], inp["script"], inp["period"]],
                nontrivial=delivered)


def pmap(fn, items, workers=8):
    """run the real implementation on many inputs in parallel worker processes (inputs are drawn sequentially
    from the seeded rng by the caller, results keep their order, so a run is reproducible)"""
    import concurrent.futures
    import multiprocessing
    if len(items) < 16:
        return [fn(x) for x in items]
    try:
        ctx = multiprocessing.get_context("fork")
        with concurrent.futures.ProcessPoolExecutor(max_workers=workers, mp_context=ctx) as ex:
            return list(ex.map(fn, items, chunksize=4))
    except (OSError, concurrent.futures.process.BrokenProcessPool):
        return [fn(x) for x in items]


def gen_cases(rng, n, tier):
    inputs = [gen_history(rng, tier, {3: "invalid", 5: "overlap", 7: "unknown", 9: "stochastic", 11: "json-final",
                                      13: "json-midrun", 15: "step"}.get(k)) for k in range(n)]
    cases = pmap(make_case, inputs)
    hashseed_check(cases)
    return cases


# ------------------------------------------------------------------------------------------------
# monitor: C02 stated directly on the implementation's outputs
# ------------------------------------------------------------------------------------------------
def close(a, b, tol=1e-9):
    return abs(a - b) <= tol * max(1.0, abs(a), abs(b))


def monitor(case):
    inp, impl = case["input"], case["impl"]
    if not impl["ok"]:
        if inp.get("bad") is None:
            return "run() raised %s on a valid history" % impl["error"]
        return None
    T = inp["period"]
    rates, occ = impl["rates"], impl["occ"]
    volts = [st["voltage"] for st in inp["stations"]]
    for msg in impl.get("flag_msgs", []) + ([impl["hashseed_mismatch"]] if impl.get("hashseed_mismatch") else []):
        return msg
    if len(rates) != impl["iteration"] or len(occ) != impl["iteration"]:
        return "charging_rates has %d columns for %d periods" % (len(rates), impl["iteration"])
    if not impl["tail_zero"]:
        return "non-zero recorded rate in a column that was never simulated"
    for t, (col, oc) in enumerate(zip(rates, occ)):
        for s, (r, o) in enumerate(zip(col, oc)):
            if o is None and r != 0:
                return "station %d is vacant in period %d but its recorded rate is %r" % (s, t, r)
    for s in impl["sessions"]:
        if not s.get("plugged", True):
            # a session that waited in the queue and never got a station: nothing delivered, battery untouched
            if s["energy"] != 0 or s["charge"] != s["init"]:
                return "session %d was never connected but reports energy %r / charge gain %r" % (
                    s["sid"], s["energy"], s["charge"] - s["init"])
            continue
        led = sum(F(rates[t][k]) * F(volts[k]) / 1000 * F(T) / 60
                  for t in range(len(rates)) for k in range(len(volts)) if occ[t][k] == s["sid"])
        if not close(s["energy"], float(led)):
            return "session %d: energy_delivered %r but the recorded rates integrate to %r" % (s["sid"], s["energy"], float(led))
        if not close(s["energy"], s["charge"] - s["init"]):
            return "session %d: energy_delivered %r but the battery gained %r" % (s["sid"], s["energy"], s["charge"] - s["init"])
        if not close(s["charge"], s["charge_json"]):
            return "session %d: to_json() reports charge %r, object holds %r" % (s["sid"], s["charge_json"], s["charge"])
    agg = [float(sum(F(x) for x in col)) for col in rates]
    want_peak = max([0.0] + agg)
    if not close(impl["peak"], want_peak):
        return "peak %r but the maximum recorded aggregate current is %r" % (impl["peak"], want_peak)
    for t, col in enumerate(rates):
        if not close(impl["agg_current"][t], agg[t]):
            return "aggregate_current[%d] = %r, station sum %r" % (t, impl["agg_current"][t], agg[t])
        pw = float(sum(F(x) * F(v) for x, v in zip(col, volts)) / 1000)
        if not close(impl["agg_power"][t], pw):
            return "aggregate_power[%d] = %r, voltage-weighted sum %r" % (t, impl["agg_power"][t], pw)
    integral = float(sum(F(p) for p in impl["agg_power"]) * F(T) / 60)
    if not close(impl["total"], integral):
        return "total_energy_delivered %r but aggregate power integrates to %r" % (impl["total"], integral)
    tot = float(sum(F(s["energy"]) for s in impl["sessions"]))
    if not close(impl["total"], tot):
        return "total_energy_delivered %r but the sessions sum to %r" % (impl["total"], tot)
    if "volts_reported" in impl:
        for k, (v, w) in enumerate(zip(volts, impl["volts_reported"])):
            if w is None or float(v) != float(w):
                return "station %r was registered at %r V but the %snetwork reports %r V for it" % (
                    impl["station_names"][k], v, "reloaded " if impl.get("reloaded") else "", w)
        if sorted(impl["station_ids_now"]) != sorted(impl["station_names"]):
            return "station ids %r differ from the registered ones %r" % (impl["station_ids_now"], impl["station_names"])
    r = monitor_probes(inp, impl)
    if r:
        return r
    return None


def monitor_probes(inp, impl):
    """the same quantities read through the other public entry points (direct network call each period, the
    DataFrame view, the Interface inside the scheduler), and robustness against the caller scribbling on them"""
    rates, occ = impl["rates"], impl["occ"]
    for pm in impl.get("post_mortem", []):
        for key, label in (("current", "aggregate_current"), ("power", "aggregate_power")):
            got, want = pm["agg_" + key], pm["want_" + key]
            if len(got) != len(want) or any(not close(g, w) for g, w in zip(got, want)):
                return "%s asked at iteration %d (%s) = %r, the record at that moment gives %r" % (
                    label, pm["iteration"], pm["where"], got[:8], want[:8])
        if not close(pm["total"], pm["want_total"]):
            return "total_energy_delivered asked at iteration %d (%s) = %r, sessions so far received %r" % (
                pm["iteration"], pm["where"], pm["total"], pm["want_total"])
    for t, row in enumerate(impl.get("net_rates", [])[:len(rates)]):
        if [float(x) for x in row] != [float(x) for x in rates[t]]:
            return "network.current_charging_rates in period %d was %r but Simulator.charging_rates records %r" % (t, row, rates[t])
    if "df_rates" in impl and impl["df_rates"] != rates:
        return "charging_rates_as_df() differs from charging_rates"
    if "rates_after_scribble" in impl and impl["rates_after_scribble"] != rates:
        return "writing into the DataFrame returned by charging_rates_as_df() changed Simulator.charging_rates"
    agg = [float(sum(F(x) for x in col)) for col in rates]
    volts = [st["voltage"] for st in inp["stations"]]
    for p in impl.get("probe", []):
        t = p["t"]
        if t > len(rates):
            continue
        want_peak = max([0.0] + agg[:t])
        if not close(p["peak"], want_peak):
            return "Interface.get_prev_peak() at period %d is %r, maximum recorded aggregate so far %r" % (t, p["peak"], want_peak)
        for sid, r in p["rates"].items():
            sid = int(sid)
            if t >= 1 and sid in occ[t - 1]:
                k = occ[t - 1].index(sid)
                if not close(r, rates[t - 1][k]):
                    return ("Interface.last_actual_charging_rate at period %d reports %r A for session %d, recorded rate of "
                            "its station in period %d is %r" % (t, r, sid, t - 1, rates[t - 1][k]))
        for sid, e in p["energy"].items():
            sid = int(sid)
            led = sum(F(rates[tau][k]) * F(volts[k]) / 1000 * F(inp["period"]) / 60
                      for tau in range(min(t, len(rates))) for k in range(len(volts)) if occ[tau][k] == sid)
            if not close(e, float(led)):
                return ("Interface.active_sessions() at period %d reports %r kWh delivered to session %d, its recorded "
                        "rates so far integrate to %r" % (t, e, sid, float(led)))
    return None


def hashseed_check(cases, k=3):
    """re-run the first k histories in a second interpreter with another PYTHONHASHSEED: the recorded trajectory
    must be identical"""
    import os
    import subprocess
    import sys
    picked = [c for c in cases if c["impl"].get("ok") and not c["input"].get("decoy_at")][:k]
    if not picked:
        return
    code = ("import json,sys\nfrom harness import c02\nout=[]\n"
            "for inp in json.load(sys.stdin):\n"
            "    r=c02.run_history(inp)\n"
            "    out.append([r['rates'], r['peak'], [[s['sid'], s['energy'], s['charge']] for s in r['sessions']]])\n"
            "print('HASHSEED-RESULT'+json.dumps(out))\n")
    env = dict(os.environ, PYTHONHASHSEED="4242")
    try:
        p = subprocess.run([sys.executable, "-c", code], input=json.dumps([c["input"] for c in picked]), env=env,
                           stdout=subprocess.PIPE, stderr=subprocess.PIPE, text=True, timeout=120)
        line = [l for l in p.stdout.splitlines() if l.startswith("HASHSEED-RESULT")]
        res = json.loads(line[0][len("HASHSEED-RESULT"):]) if line else None
    except Exception:  # noqa
        res = None
    if res is None:
        return
    for c, r in zip(picked, res):
        mine = [c["impl"]["rates"], c["impl"]["peak"], [[s["sid"], s["energy"], s["charge"]] for s in c["impl"]["sessions"]]]
        if json.loads(json.dumps(mine)) != r:
            c["impl"]["hashseed_mismatch"] = "the same history gives a different trajectory in a process with another PYTHONHASHSEED"


def search(rng, budget_s, broken):
    t0 = time.time()
    while time.time() - t0 < budget_s:
        for _ in range(50):
            inp = gen_history(rng, "quick")
            impl = run_history(inp)
            r = monitor(dict(input=inp, impl=impl))
            if r:
                return dict(case=inp, impl=impl, why=r)
    return None


def replay(w):
    inp = w["case"]
    impl = run_history(inp)
    return monitor(dict(input=inp, impl=impl))
