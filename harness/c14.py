"""C14 — battery models follow their documented charging laws (ideal: min of three; two-stage continuous,
noise off: flow of d soc/dt = min(requested, max*(1-soc)/(1-ts)))."""
import math
import time

from harness import batt, c03
from harness.batt import F
from harness.core import q

PID = "C14"
GEN_GROUPS = ["Battery", "BatteryGuard"]
TARGETS = ["coq/Props/C14.vo", "coq/Model/Battery.vo"]
CASES = {"quick": 170, "thorough": 4000}
CORR_HEADER = batt.CORR_HEADER
CHECK_FN = "check_batt"
SHARD = 25
RULE = ("ideal and two-stage continuous batteries with noise off; initial charge aimed at every regime boundary "
        "(knee = pilot_transition_soc, transition_soc, crossing exactly at the end of T and of T/2, exactly filling, "
        "full, empty) +- {0,1e-12,1e-9,1e-6,1e-3}; each case is ONE probe sequence on one object: charge(T); reset(c); "
        "charge(T/2) twice; reset(c); charge(T/3) three times; reset(c); charge with a larger pilot; reset(c); charge for "
        "a longer period; reset(c); charge; charge(pilot 0); charge; reset() — so the implementation outputs of every law are recorded "
        "and the model is compared on all of them (the object is constructed with an initial charge different from c, so "
        "the final reset() is distinguishable from reset(c)); `life` cases: arbitrary interleavings of charge / reset(x) / "
        "reset(x > capacity) / refused charge / reset() on ideal, continuous and stepwise batteries, always ending with "
        "reset(x), charging, reset() and a state-revealing tail whose answers are compared with a freshly constructed "
        "battery's, plus EV.reset(); JSON round trips and deep copies (battery / EV / list of EVs) as operations, 20% of the "
        "probes and 15% of the life sequences run entirely on a deep copy; non-trivial = distinct (battery, probe parameters); second stream: "
        "model vs RK4 integration of the documented ODE; third: rational exp vs math.exp")
ASSUMPTIONS = c03.ASSUMPTIONS + [
    "C14 covers the default 'continuous' calculation; the legacy 'stepwise' calculation is documented as an approximation and does not satisfy the period-splitting identity"]
TRUSTED_EXTRA = c03.TRUSTED_EXTRA

REL = 1e-9


def probe_ops(c, p, p_hi, V, T, T_long):
    n = 0.0
    # the battery is constructed with an initial charge DIFFERENT from c; every reset(c) below is an explicit
    # level, and the final reset() must come back to the constructor's value, not to c
    return [("reset", c),
            ("charge", p, V, T, n), ("reset", c),
            ("charge", p, V, T / 2, n), ("charge", p, V, T / 2, n), ("reset", c),
            ("charge", p, V, T / 3, n), ("charge", p, V, T / 3, n), ("charge", p, V, T / 3, n), ("reset", c),
            ("charge", p_hi, V, T, n), ("reset", c),
            ("charge", p, V, T_long, n), ("reset", c),
            ("charge", p, V, T, n), ("charge", 0, V, T, n), ("charge", p, V, T, n), ("reset", None)]


I_FULL, I_HALF2, I_THIRD3, I_HI, I_LONG, I_PRE_ZERO, I_ZERO, I_LAST, I_RESET = 1, 4, 8, 10, 12, 14, 15, 16, -1


def other_init(rng, cap, c):
    """a constructor init charge different from c (so that reset(c) is distinguishable from reset())"""
    for _ in range(20):
        x = rng.choice([0.0, cap / 4.0, cap / 2.0, float(cap), round(rng.uniform(0, cap), 3)])
        if abs(x - c) > 1e-3 * max(1.0, cap):
            return x
    return 0.0 if c > cap / 2.0 else float(cap)


def rand_probe(rng):
    kind = "ideal" if rng.random() < 0.25 else "l2"
    spec = c03.rand_spec(rng, kind)
    if kind == "l2":
        spec["nl"] = 0
        spec["mode"] = "continuous"
    V = rng.choice(c03.VS)
    T = rng.choice([1, 5, 5, 15, 60, 3, 12, 7, 9, 45, 90, 0.7, 2.5])      # incl. periods that do not divide an hour
    p = c03.rand_pilot(rng, spec, V)
    if p < 0 or (0 < p < 0.05):
        p = rng.choice([6, 16, 32])
    t = rng.random()
    if t < 0.8:
        cands = c03.boundary_charges(spec, p, V, T) + c03.boundary_charges(spec, p, V, T / 2)
        c = float(rng.choice(cands) + F(rng.choice([1, -1]) * rng.choice(c03.OFFS)) * F(spec["cap"]) / 64)
    else:
        c = round(rng.uniform(0, spec["cap"]), 4)
    if rng.random() < 0.12:                            # one ulp next to the boundary
        c = math.nextafter(c, rng.choice([-math.inf, math.inf]))
    c = min(max(c, 0.0), float(spec["cap"]))
    spec["init"] = other_init(rng, spec["cap"], c)
    if rng.random() < 0.2:
        spec["dtype"] = rng.choice(c03.DTYPES)         # same numbers as numpy scalars / python ints / floats
    if rng.random() < 0.2:
        spec["copy_first"] = rng.choice(["battery", "ev", "evlist"])      # the probed object is a deep copy
    p_hi = p + rng.choice([0, 1e-6, 0.5, 1, 8, 40])
    T_long = T * rng.choice([1, 1.000001, 1.5, 2, 7])
    ops = probe_ops(c, p, p_hi, V, T, T_long)
    if rng.random() < 0.3:
        ops.insert(len(ops) - 1, ("json",))            # reload the object from JSON before the final reset()
    return spec, ops, dict(c=c, p=p, p_hi=p_hi, V=V, T=T, T_long=T_long)


# ---- life sequences: arbitrary interleavings of charge / reset(x) / reset(x > capacity) / reset() ----
TAIL = [(16.0, 5.0), (32.0, 5.0), (0.0, 5.0), (80.0, 600.0), (32.0, 5.0)]     # state-revealing calls (long, high pilot)


def rand_life(rng):
    kind = rng.choice(["ideal", "l2", "l2", "l2s"])
    spec = c03.rand_spec(rng, "ideal" if kind == "ideal" else "l2")
    if spec["kind"] == "l2":
        spec["nl"] = 0
        spec["mode"] = "stepwise" if kind == "l2s" else "continuous"
    cap = float(spec["cap"])
    spec["init"] = rng.choice([0.0, cap / 2, round(rng.uniform(0, cap), 3), cap * 0.9, cap])
    V = rng.choice(c03.VS)

    def charge():
        return ("charge", rng.choice([0, 6, 16, 32, 32, 80, round(rng.uniform(0.1, 60), 2)]), V, rng.choice([1, 5, 5, 15, 60, 600]), 0.0)

    def level():
        return rng.choice([0.0, cap / 4, cap / 2, cap * 0.85, cap, round(rng.uniform(0, cap), 3)])
    ops = []
    for _ in range(rng.randint(0, 6)):
        t = rng.random()
        if t < 0.5:
            ops.append(charge())
        elif t < 0.7:
            ops.append(("reset", level()))
        elif t < 0.78:
            ops.append(("reset", cap + rng.choice([1e-6, 1, 50])))          # refused: nothing may change
        elif t < 0.88:
            ops.append(("reset", None))
        elif t < 0.93:
            ops.append(("json",))
        elif t < 0.97:
            ops.append(("copy", rng.choice(["battery", "ev", "evlist"])))
        else:
            ops.append(("charge", 16, rng.choice([0, -1]), 5, 0.0))         # refused call
    # always: an explicit level, some charging, (maybe another level / a refused one), then reset() and the tail
    ops.append(("reset", level()))
    ops += [charge() for _ in range(rng.randint(0, 2))]
    if rng.random() < 0.3:
        ops.append(("reset", cap + 1) if rng.random() < 0.5 else ("reset", level()))
        ops += [charge() for _ in range(rng.randint(0, 1))]
    u = rng.random()
    if u < 0.25:
        ops.append(("json",))                           # reload from JSON between reset(x) and reset()
    elif u < 0.5:
        ops.append(("copy", rng.choice(["battery", "ev", "evlist"])))     # ... or continue on a deep copy
    ops.append(("reset", None))
    ops += [("charge", p, V, T, 0.0) for p, T in TAIL]
    if rng.random() < 0.4:
        ops += [("reset", None), charge()]
    if rng.random() < 0.2:
        spec["dtype"] = rng.choice(c03.DTYPES)
    if rng.random() < 0.15:
        spec["copy_first"] = rng.choice(["battery", "ev", "evlist"])
    if spec["kind"] == "l2" and rng.random() < 0.5:
        spec["ts"] = rng.choice([0, 0.25, 0.5, 0.9, 0.95])               # options a careless copy would lose
    return spec, ops


def pair_cases(rng):
    """two live noiseless batteries that differ in ONE constructor argument, driven alternately through the same probe
    sequence (charge(T), charge(T/2) x2, another period, reset(), ...): each must follow the law for ITS parameters"""
    spec, ops, probe = rand_probe(rng)
    other = dict(spec)
    what = rng.choice(["maxP", "maxP", "cap", "ts", "class"])
    if what == "maxP" or (what == "ts" and spec["kind"] != "l2"):
        other["maxP"] = spec["maxP"] * rng.choice([0.5, 2, 3])
    elif what == "cap":
        other["cap"] = spec["cap"] * 2
    elif what == "ts":
        other["ts"] = rng.choice([x for x in c03.TSS if x != spec["ts"]])
    else:
        other = dict(kind="ideal", cap=spec["cap"], maxP=spec["maxP"], init=spec["init"]) if spec["kind"] == "l2" else \
            dict(spec, kind="l2", nl=0, ts=rng.choice([0, 0.5, 0.8]), mode="continuous")
    if "dtype" in spec:
        other["dtype"] = spec["dtype"]
    order = [rng.choice([0, 1]) for _ in range(2 * len(ops))]
    a, b = (spec, other) if rng.random() < 0.5 else (other, spec)
    return build_pair(a, b, ops, order, probe)


def build_pair(a, b, ops, order, probe):
    ia, ib = batt.run_pair(a, ops, b, ops, order)
    out = []
    for which, (sp, im) in enumerate(((a, ia), (b, ib))):
        c = build(sp, ops, dict(probe), impl=im)
        c["kind"] += "/pair"
        c["input"]["pair"] = dict(a=a, b=b, ops=[list(o) for o in ops], order=order, which=which)
        out.append(c)
    return out


def fresh_segments(spec, ops):
    """for every reset() in ops: what a freshly constructed battery answers to the charge calls that follow it
    (up to the next reset)"""
    out = {}
    for k, op in enumerate(ops):
        if op[0] == "reset" and op[1] is None:
            seg = []
            for o in ops[k + 1:]:
                if o[0] != "charge":
                    break
                seg.append(o)
            out[str(k)] = batt.run_impl(dict(spec, copy_first=None), seg)["obs"]      # really fresh: no copy
    return out


def ev_reset_obs(spec, ops):
    """EV.reset() after the charge calls of ops: energy delivered and battery state"""
    from acnportal.acnsim.models import EV
    b, err = batt.construct(spec)
    if b is None:
        return None
    ev = EV(0, 10, 20, "S", "sess", b)
    for o in ops:
        if o[0] == "charge" and o[2] > 0 and o[3] > 0:
            ev.charge(o[1], o[2], o[3])
    ev.reset()
    return dict(delivered=batt.fnum(ev.energy_delivered), charge=batt.fnum(b._current_charge), power=batt.fnum(b._current_charging_power))


def build(spec, ops, probe, life=False, impl=None):
    if impl is None:
        impl = batt.run_impl(spec, ops)
    if life and impl["ctor_err"] is None:
        impl["fresh"] = fresh_segments(spec, ops)
        impl["ev_reset"] = ev_reset_obs(spec, ops)
    if probe is not None and impl["ctor_err"] is None and spec["kind"] == "l2" and probe["p"] > 0:
        impl["ode_charge"] = batt.ode_charge(spec["cap"], spec["maxP"], spec["ts"], probe["c"], probe["p"], probe["V"], probe["T"])
    kind = "%s/%s%s" % (spec["kind"], "probe" if probe is not None else "life" if life else "seq", "/dtype" if spec.get("dtype") else "")
    return dict(input=dict(spec=spec, ops=[list(o) for o in ops], probe=probe, life=life), impl=impl,
                coq=batt.case_coq(spec, ops, impl), ambiguous=False, kind=kind,
                sig=[spec, [list(o) for o in ops]], nontrivial=True)


def gen_cases(rng, n, tier):
    cases = []
    for spec, probe in CORPUS:
        ops = probe_ops(probe["c"], probe["p"], probe["p_hi"], probe["V"], probe["T"], probe["T_long"])
        cases.append(build(dict(spec), ops, dict(probe)))
    for spec, ops in LIFE_CORPUS:
        cases.append(build(dict(spec), list(ops), None, life=True))
    while len(cases) < n:
        t = rng.random()
        if t < 0.68:
            spec, ops, probe = rand_probe(rng)
            cases.append(build(spec, ops, probe))
        elif t < 0.90:
            spec, ops = rand_life(rng)
            cases.append(build(spec, ops, None, life=True))
        elif t < 0.95:
            cases.extend(pair_cases(rng))
        else:
            # plain noiseless sequences (ideal / continuous), as in C03
            spec = c03.rand_spec(rng, rng.choice(["ideal", "l2"]))
            if spec["kind"] == "l2":
                spec["nl"], spec["mode"] = 0, "continuous"
            V, T = rng.choice(c03.VS), rng.choice(c03.TS_)
            spec["init"] = round(rng.uniform(0, spec["cap"]), 4)
            ops = [o for o in c03.rand_ops(rng, spec, V, T, rng.choice([6, 16, 32, 0]))
                   if not (o[0] == "charge" and (o[1] < 0 or 0 < o[1] < 0.05))]
            cases.append(build(spec, ops, None))
    return cases[:n]


def law_cases(rng, n):
    """model (exact arithmetic, rational exp) vs RK4 integration of the documented ODE"""
    out = []
    while len(out) < n:
        spec, _ops, pr = rand_probe(rng)
        if spec["kind"] != "l2" or pr["p"] <= 0:
            continue
        y = batt.ode_charge(spec["cap"], spec["maxP"], spec["ts"], pr["c"], pr["p"], pr["V"], pr["T"])
        coq = ("{| l_batt := %s; l_charge := %s; l_pilot := %s; l_V := %s; l_T := %s; l_ode_charge := %s; l_tol := %s |}"
               % (batt.batt_coq(spec), q(pr["c"]), q(pr["p"]), q(pr["V"]), q(pr["T"]), q(y), q(F(1, 10**6))))
        out.append(dict(input=dict(spec=spec, probe=pr), impl=dict(ode_charge=y), coq=coq, ambiguous=False,
                        kind="law-ode", sig=["ode", spec, pr], nontrivial=True))
    return out


def extra_streams(rng, tier):
    return [("law", CORR_HEADER, "check_law", law_cases(rng, 80 if tier == "quick" else 2000)),
            ("qexp", CORR_HEADER, "check_qexp", batt.qexp_cases(rng, 60 if tier == "quick" else 600))]


CORPUS = [
    (dict(kind="l2", cap=50, maxP=7, init=12.5, nl=0, ts=0.8, mode="continuous"),
     dict(c=30, p=32, p_hi=40, V=208, T=5, T_long=10)),
    (dict(kind="l2", cap=50, maxP=7, init=50, nl=0, ts=0.8, mode="continuous"),
     dict(c=39.8, p=32, p_hi=33, V=208, T=5, T_long=7.5)),
    (dict(kind="l2", cap=50, maxP=7, init=0, nl=0, ts=0.8, mode="continuous"),
     dict(c=45, p=8, p_hi=16, V=208, T=5, T_long=5)),
    (dict(kind="ideal", cap=50, maxP=7, init=25),
     dict(c=49.9, p=32, p_hi=64, V=208, T=5, T_long=15)),
]


LIFE_CORPUS = [
    # charge, reset(25), charge, reset(), then the state-revealing tail (ideal: headroom; two-stage: SoC region)
    (dict(kind="ideal", cap=100, maxP=6.656, init=50),
     [("charge", 32, 208, 60, 0.0), ("reset", 25.0), ("charge", 32, 208, 60, 0.0), ("reset", None)]
     + [("charge", p, 208.0, T, 0.0) for p, T in TAIL]),
    (dict(kind="l2", cap=100, maxP=6.656, init=50, nl=0, ts=0.5, mode="continuous"),
     [("reset", 90.0), ("charge", 32, 208, 60, 0.0), ("reset", 150.0), ("reset", None)]
     + [("charge", p, 208.0, T, 0.0) for p, T in TAIL]),
]


def monitor_life(case):
    """reset semantics over arbitrary interleavings, stated on the implementation's recorded behaviour:
    reset() restores the CONSTRUCTOR's state (so that every later call is answered like a fresh battery's),
    reset(x <= capacity) sets charge x / power 0, reset(x > capacity) and charge(V<=0) change nothing"""
    spec, impl, ops = case["input"]["spec"], case["impl"], case["input"]["ops"]
    if impl["ctor_err"] is not None:
        return None
    cap, init = spec["cap"], spec["init"]
    charge, power = init, 0
    for k, (op, ob) in enumerate(zip(ops, impl["obs"])):
        if op[0] in ("json", "copy"):
            if ob["err"] is not None or ob["charge"] != charge or ob["power"] != power:
                return "op %d: %s changed the battery: %r, charge %r -> %r, power %r -> %r" % (
                    k, "JSON round trip" if op[0] == "json" else "deep copy", ob["err"], charge, ob["charge"], power, ob["power"])
        elif op[0] == "reset":
            x = op[1]
            if x is not None and x > cap:
                if ob["err"] != "ValueError" or ob["charge"] != charge or ob["power"] != power:
                    return "op %d: reset(%r) above capacity %r not refused / state changed" % (k, x, cap)
            else:
                want = init if x is None else x
                if ob["err"] is not None or ob["charge"] != want or ob["power"] != 0:
                    return "op %d: reset(%s) left charge %r power %r; expected charge %r (%s), power 0" % (
                        k, "" if x is None else repr(x), ob["charge"], ob["power"], want,
                        "the constructor's initial charge" if x is None else "the given level")
            if x is None:
                fresh = impl.get("fresh", {}).get(str(k), [])
                got = impl["obs"][k + 1:k + 1 + len(fresh)]
                for j, (f, g) in enumerate(zip(fresh, got)):
                    if (f["err"], f["rate"], f["charge"], f["power"]) != (g["err"], g["rate"], g["charge"], g["power"]):
                        return ("after reset() at op %d, call %d (%r) is answered rate %r power %r charge %r; a freshly "
                                "constructed battery answers rate %r power %r charge %r" % (
                                    k, j, ops[k + 1 + j], g["rate"], g["power"], g["charge"], f["rate"], f["power"], f["charge"]))
        elif op[2] <= 0 or op[3] <= 0:
            if ob["err"] != "ValueError" or ob["charge"] != charge or ob["power"] != power:
                return "op %d: refused charge call changed the state" % k
        elif ob["err"] is not None:
            return "op %d: charge raised %s" % (k, ob["err"])
        elif op[1] == 0 and (abs(ob["rate"]) > REL or abs(ob["power"]) > REL or abs(ob["charge"] - charge) > REL * max(1.0, cap)):
            return "op %d: zero pilot delivered something" % k
        charge, power = ob["charge"], ob["power"]
    e = impl.get("ev_reset")
    if e is not None and (e["delivered"] != 0 or e["charge"] != init or e["power"] != 0):
        return "EV.reset() left energy_delivered %r, battery charge %r power %r (expected 0, %r, 0)" % (
            e["delivered"], e["charge"], e["power"], init)
    return None


# ---------------------------------------------------------------------------------------------
# monitor: the laws of C14 on the implementation's recorded outputs
# ---------------------------------------------------------------------------------------------
def monitor(case):
    if case.get("kind") in ("qexp", "law-ode") or case.get("ambiguous"):
        return None
    spec, impl, pr = case["input"]["spec"], case["impl"], case["input"].get("probe")
    if impl.get("originals_untouched") is False:
        return "charging a deep copy changed the battery it was copied from"
    if impl.get("max_charging_power") is not None and impl["max_charging_power"] != spec["maxP"]:
        return "max_charging_power reports %r for a battery constructed with max_power %r" % (impl["max_charging_power"], spec["maxP"])
    if case["input"].get("life"):
        return monitor_life(case)
    if impl["ctor_err"] is not None or not pr:
        return None
    obs = impl["obs"]
    if any(o["err"] for o in obs):
        return "an operation of the probe sequence raised %s" % [o["err"] for o in obs if o["err"]][0]
    cap, maxP = spec["cap"], spec["maxP"]
    c, p, V, T = pr["c"], pr["p"], pr["V"], pr["T"]
    tol = REL * max(1.0, cap)
    full = obs[I_FULL]
    if spec["kind"] == "ideal":
        P = min(p * V / 1000, maxP, (cap - c) / (T / 60))
        if abs(full["power"] - P) > REL * max(1.0, abs(P)) or abs(full["rate"] - P * 1000 / V) > REL * max(1.0, abs(p)) \
                or abs(full["charge"] - (c + P * (T / 60))) > tol:
            return "ideal battery: power %r, expected min(pilot power, max power, power to fill) = %r" % (full["power"], P)
    else:
        if "ode_charge" in impl and abs(full["charge"] - impl["ode_charge"]) > 1e-6 * max(1.0, cap):
            return "two-stage: charge after the period %r differs from the solution of the documented law %r" % (
                full["charge"], impl["ode_charge"])
        if abs(full["charge"] - obs[I_HALF2]["charge"]) > tol:
            return "two-stage: charging for T gives %r, for T/2 twice %r" % (full["charge"], obs[I_HALF2]["charge"])
        if abs(full["charge"] - obs[I_THIRD3]["charge"]) > tol:
            return "two-stage: charging for T gives %r, for T/3 three times %r" % (full["charge"], obs[I_THIRD3]["charge"])
    if obs[I_HI]["charge"] < full["charge"] - tol:
        return "delivered energy decreased when the pilot was raised from %r to %r" % (p, pr["p_hi"])
    if obs[I_LONG]["charge"] < full["charge"] - tol:
        return "delivered energy decreased when the period was extended from %r to %r" % (T, pr["T_long"])
    z, zc = obs[I_ZERO], obs[I_PRE_ZERO]["charge"]
    # (an ideal battery that overshot capacity by one ulp gives -1e-15 back at the next call: not a violation)
    if abs(z["rate"]) > REL or abs(z["power"]) > REL or abs(z["charge"] - zc) > tol:
        return "zero pilot delivered something: rate %r power %r charge %r -> %r" % (z["rate"], z["power"], zc, z["charge"])
    ops_ = case["input"]["ops"]
    if ops_[-2][0] == "json" and (obs[-2]["charge"] != obs[-3]["charge"] or obs[-2]["power"] != obs[-3]["power"]):
        return "JSON round trip changed the battery: charge %r -> %r, power %r -> %r" % (
            obs[-3]["charge"], obs[-2]["charge"], obs[-3]["power"], obs[-2]["power"])
    r = obs[I_RESET]
    if r["charge"] != spec["init"] or r["power"] != 0:
        return "reset() did not restore the initial state: charge %r power %r (constructor: charge %r, power 0)" % (
            r["charge"], r["power"], spec["init"])
    for k in (0, I_FULL + 1):
        if obs[k]["charge"] != c or obs[k]["power"] != 0:
            return "reset(%r) left charge %r power %r" % (c, obs[k]["charge"], obs[k]["power"])
    return None


def search(rng, budget_s, broken):
    t0 = time.time()
    while time.time() - t0 < budget_s:
        for _ in range(200):
            spec, ops, probe = rand_probe(rng)
            c = build(spec, ops, probe)
            r = monitor(c)
            if r:
                return dict(case=c["input"], impl=c["impl"], why=r)
            spec, ops = rand_life(rng)
            c = build(spec, ops, None, life=True)
            r = monitor(c)
            if r:
                return dict(case=c["input"], impl=c["impl"], why=r)
            for c in pair_cases(rng):
                r = monitor(c)
                if r:
                    return dict(case=c["input"], impl=c["impl"], why=r)
    return None


def replay(w):
    inp = w["case"]
    if inp.get("pair"):
        pr = inp["pair"]
        cs = build_pair(dict(pr["a"]), dict(pr["b"]), [tuple(o) for o in pr["ops"]], list(pr["order"]), inp.get("probe"))
        return monitor(cs[pr["which"]]) or monitor(cs[1 - pr["which"]])
    c = build(dict(inp["spec"]), [tuple(o) for o in inp["ops"]], inp.get("probe"), life=bool(inp.get("life")))
    return monitor(c)
