"""C18 — analysis functions equal their first-principles definitions.

Correspondence: completed simulations of the REAL Simulator (the C02 history generator with
heterogeneous voltages, plus three-phase / transformer-style constraints added with add_constraint and
Current objects); every acnsim.analysis function is called on the finished simulator (random subsets /
orders / duplicates / unknown ids for constraint_currents and current_unbalance, random thresholds) and
compared with the implementation-shaped Coq model (Model/Analysis.v, Q instance) evaluated on the
recorded trajectory.  cos / sin of the phase angles are computed here with math.cos / math.sin,
independently of the implementation."""
import fractions
import math
import time

from harness import c02
from harness.core import q, z, zlit, coq_list, coq_bool, coq_opt

PID = "C18"
GEN_GROUPS = ["Analysis", "Battery"]
TARGETS = ["coq/Props/C18.vo", "coq/Model/AnalysisQc.vo"]
CASES = {"quick": 210, "thorough": 2400}
SHARD = 10
CORR_HEADER = ("From Coq Require Import ZArith QArith List.\n"
               "From ACN Require Import Base.Num Model.Ledger Model.LedgerQ Model.Analysis Model.AnalysisQ Model.AnalysisQc.\n"
               "Import ListNotations.\nOpen Scope Q_scope.\n")
CHECK_FN = "check_c18_qc"      # the canonical-rational instance: the model of the axiom-free theorems
RULE = ("(a fifth of the simulations on contrib StochasticNetwork with never-connected sessions; half with a simulator tariff / explicit tariff for energy_cost and demand_charge; 30% with an exactly cancelling charge/discharge station and direct constraint_current queries on period subsets) one simulation of the real Simulator yields up to three cases: every analysis function is called from inside the scheduling algorithm at every invocation while the run is in progress (two of these mid-run snapshots are kept) and again on the completed simulation, each compared with the model for the state at that moment (C02 generator: 1-6 stations, voltages 120/208/240/277, mixed battery "
        "classes, period 1/5/15/0.5/7.5 minutes and fractional-second / float-inexact periods 4.1, 0.1, 1/3, 2.3, 12.5/60, 0.025, 8.2, ...) on a network with 1-5 constraints built from Current objects (three-phase groups on "
        "phases 30/-90/150 and arbitrary angles, signed / fractional / scaled coefficients), then every analysis function: "
        "aggregate_current/power, constraint_currents with both flag values and None / random subsets / permutations / "
        "duplicates / unknown / empty id lists, total_energy_requested/delivered, proportion_of_energy_delivered, "
        "proportion_of_demands_met for 5 thresholds, current_unbalance for phase-id triples (and malformed lists), "
        "datetimes_array. Distinct = distinct (history, constraints, queries); non-trivial = some energy delivered")
ASSUMPTIONS = ["theorems are over R with sqrt; the executable twin uses a 2^-60 integer square root (validated here)",
               "cos/sin of the phase angles are inputs of the model (computed with math.cos/math.sin by the harness); the theorems hold for any phasor pairs",
               "constraint names are distinct (NoDup constraint_index) for the per-id statement",
               "numpy reductions modelled as exact sums; IEEE rounding not modelled"]
TRUSTED_EXTRA = ["name->number encoding of constraint ids, datetime64 -> minutes conversion"]
F = fractions.Fraction
PERIODS = [1, 5, 15, 0.5, 7.5, 4.1, 0.1, 1 / 3, 2.3, 12.5 / 60, 0.025, 8.2, 0.7, 4.35, 2 / 3, 1, 5]


# ------------------------------------------------------------------------------------------------
def rand_constraints(rng, stations):
    n = len(stations)
    cons = []
    m = rng.randint(1, 5)
    if rng.random() < 0.06:
        return []                          # a network that never had a constraint (constraint_matrix is None)
    # three-phase groups first (by phase angle), then arbitrary combinations
    groups = {}
    for i, st in enumerate(stations):
        groups.setdefault(st["phase"], []).append(i)
    for ph, members in list(groups.items())[:3]:
        if len(cons) < m:
            cons.append(dict(coefs={str(i): 1 for i in members}, limit=rng.choice([32, 80, 200])))
    while len(cons) < m:
        k = rng.randint(1, n)
        idx = rng.sample(range(n), k)
        coefs = {str(i): rng.choice([1, 1, -1, 0.5, 1 / math.sqrt(3), -0.25, 2]) for i in idx}
        cons.append(dict(coefs=coefs, limit=rng.choice([40, 100, 500])))
    rng.shuffle(cons)
    return cons


def gen_input(rng, tier):
    # a fifth of the simulations run on the contrib StochasticNetwork (saturated: sessions that arrive while every EVSE is
    # occupied wait in the queue; some leave without ever being connected and stay in ev_history with station_id None)
    stoch = rng.random() < 0.2
    inp = c02.gen_history(rng, tier, force="stochastic" if stoch else "valid")
    for k_ in ("interrupts", "probe", "dtypes", "decoy_at", "rereg"):
        inp.pop(k_, None)
    for st in inp["stations"]:
        st["phase"] = rng.choice([30, -90, 150, 30, -90, 150, 0, 17.5, 180, -33.25])
    cancel = None
    if not stoch and rng.random() < 0.3:
        # EXACT cancellation: one bidirectional station hosts a single session (ideal battery far from its limits, so
        # actual = pilot) that is charged and discharged symmetrically (+p, -p, +p, -p ... on dyadic p): the recorded
        # rates of that station are non-zero but sum to exactly 0 over the run
        s0 = rng.randrange(len(inp["stations"]))
        inp["stations"][s0]["kind"] = ("C", -32, 32)
        inp["sessions"] = [s for s in inp["sessions"] if s["station"] != s0]
        a, k = rng.randint(0, 3), rng.randint(1, 3)
        inp["sessions"].append(dict(station=s0, arrival=a, departure=a + 2 * k, requested=30.0,
                                    battery=dict(kind="ideal", cap=100, init=50.0, maxp=50, tsoc=0, noise=0)))
        p = rng.choice([16.0, 8.0, 0.5, 32.0])
        inp["max_recompute"] = 1
        last = max(s["departure"] for s in inp["sessions"])
        while len(inp["script"]) < last + 2:
            inp["script"].append({})
        inp["script"] = [{key: v[:1] for key, v in ent.items()} for ent in inp["script"]]
        for t in range(len(inp["script"])):
            inp["script"][t][str(s0)] = [(p if (t - a) % 2 == 0 else -p) if a <= t < a + 2 * k else 0.0]
        inp.pop("interrupts", None)
        cancel = dict(station=s0, arrival=a, k=k, p=p)
        inp["cancel"] = cancel
    # whole minutes, whole seconds, FRACTIONAL seconds (0.025 min = 1.5 s, 12.5/60 min = 12.5 s) and periods p for
    # which the float product p*60 is not an integer (4.1*60 == 245.99999999999997, 8.2*60 == 491.99999999999994):
    # all of them are a whole number of microseconds, the resolution of datetime
    inp["period"] = rng.choice(PERIODS)
    inp["constraints"] = rand_constraints(rng, inp["stations"])
    if cancel is not None and not any(str(cancel["station"]) in c["coefs"] for c in inp["constraints"]):
        if len(inp["constraints"]) >= 5:
            inp["constraints"].pop()
        inp["constraints"].append(dict(coefs={str(cancel["station"]): 1, str(rng.randrange(len(inp["stations"]))): 1},
                                       limit=100))
    inp["cname_scheme"] = rng.choice([0, 1, 1, 2, 2, 3])
    for j, c in enumerate(inp["constraints"]):
        c["name"] = cname(j, inp)
    m = len(inp["constraints"])
    # cross-cutting families (fractions of the budget)
    if rng.random() < 0.5:
        inp["styles"] = rng.randint(0, 10**6)     # default / positional / keyword arguments, id containers, dtypes
    if rng.random() < 0.35:
        inp["alias"] = True                       # returned arrays scribbled on, another live simulator queried in between
    if rng.random() < 0.3:
        nst = len(inp["stations"])
        inp["edit"] = dict(kind=rng.choice(["remove", "update", "update", "add"]), target=rng.randrange(max(m, 1)),
                           coefs={str(i): rng.choice([1, -1, 0.5, 2]) for i in rng.sample(range(nst), rng.randint(1, nst))},
                           limit=rng.choice([50, 77.5]), new=rng.choice([None, 50, 52]))
    names = list(range(m))
    if m == 0:
        inp["cc_queries"] = [[False, None], [True, None], [False, []], [False, [900]]]
        inp["nema_queries"] = [[900, 901, 902], []]
        inp["thresholds"] = [0.1, 0.0, -1.0]
        return inp
    queries = [[False, None], [True, None]]
    for _ in range(4):
        k = rng.randint(0, m + 1)
        ids = [rng.choice(names + [900 + rng.randint(0, 3)] * (1 if rng.random() < 0.3 else 0)) for _ in range(k)]
        if rng.random() < 0.5 and m > 1:
            ids = rng.sample(names, rng.randint(1, m))        # a permutation of a subset
        if rng.random() < 0.3 and ids:
            ids = ids + [rng.choice(ids)]                       # duplicate
        queries.append([rng.random() < 0.35, ids])
    inp["cc_queries"] = queries
    nema = []
    for _ in range(3):
        r = rng.random()
        if r < 0.7:
            ids = [rng.choice(names) for _ in range(3)] if rng.random() < 0.4 or m < 3 else rng.sample(names, 3)
        elif r < 0.8:
            ids = [rng.choice(names) for _ in range(rng.choice([1, 2, 4]))]
        elif r < 0.9:
            ids = [rng.choice(names), 901, rng.choice(names)]
        else:
            ids = []
        nema.append(ids)
    inp["nema_queries"] = nema
    inp["thresholds"] = [0.1, 0.0, rng.choice([1e-3, 0.5, 2.0]), round(rng.uniform(0, 20), 3), -1.0]
    inp["snap_pick"] = rng.random()
    # cost functions: the simulator is built with its own tariff / an empty signals dict / no signals; energy_cost and
    # demand_charge are asked without and with an explicit (different) tariff; the run starts shortly before a
    # time-of-use boundary so that the price series varies
    TARIFFS = ["sce_tou_ev_4_march_2019", "pge_a10_tou_aug_2019", "sce_tou_ev_8_june_2019", "sce_tou_ev_8_oct_2018"]
    if rng.random() < 0.5:
        own = rng.choice([None, "", TARIFFS[0], TARIFFS[1], TARIFFS[2]])
        if own is not None:
            inp["sim_tariff"] = own
        inp["cost_queries"] = [None, rng.choice([t for t in TARIFFS if t != own])]
        inp["start_hm"] = rng.choice([[0, 0], [15, 50], [7, 55], [20, 58], [11, 45]])
    # the direct network entry point ChargingNetwork.constraint_current(rates, constraints, time_indices) on a subset of
    # the periods (for the cancellation family: the pairs of periods whose rates cancel)
    if cancel is not None:
        a = cancel["arrival"]
        inp["direct_ti"] = [[a, a + 1], [a + 1, a], list(range(a, a + 2 * cancel["k"]))]
        if m >= 1:
            j = [j for j, c in enumerate(inp["constraints"]) if str(cancel["station"]) in c["coefs"]][0]
            inp["nema_queries"].append([j, rng.choice(names), rng.choice(names)])
            inp["cc_queries"].append([False, [j]])
    else:
        inp["direct_ti"] = [sorted(rng.sample(range(8), rng.randint(1, 3))), [rng.randrange(6)]]
    if not stoch and rng.random() < 0.3:
        # the finished run is passed through to_json()/from_json(); the analysis functions are applied to the reloaded object
        inp["json"] = "final"
    return inp


CNAME_SCHEMES = [
    lambda j: "con%d" % j,                                   # already sorted
    lambda j: "c-%d" % (j + 8),                              # c-8, c-9, c-10, ...: numeric, not lexicographic
    lambda j: ["z", "A", "10", "9", "", "b2"][j],            # mixed case, numeric-looking, and the empty string
    lambda j: "T%d" % (9 - j),                               # descending
]


def cname(i, inp=None):
    """constraint number -> name: 0..m-1 the constraints of the input (naming scheme of the input), 50.. names created
    by later edits, 900.. names that never exist"""
    if i >= 900:
        return "ghost%d" % i
    if i >= 50:
        return "edit%d" % i
    return CNAME_SCHEMES[(inp or {}).get("cname_scheme", 0)](i)


def decoy_sim(inp, names):
    """a finished simulation on ANOTHER network of the same shape (same station ids, one constraint, other voltages):
    queried alternately with the simulation under test"""
    from datetime import datetime
    from acnportal.acnsim import ChargingNetwork, Simulator, EventQueue, PluginEvent
    from acnportal.acnsim.models import EV, Battery, EVSE
    from acnportal.acnsim.network.current import Current
    from acnportal.algorithms import BaseAlgorithm
    net = ChargingNetwork()
    for k, nm in enumerate(names):
        net.register_evse(EVSE(nm, max_rate=100), 100.0 + 10 * k, 0)
    net.add_constraint(Current({nm: 1 for nm in names}), 1000, name=cname(0, inp))

    class Flat(BaseAlgorithm):
        def __init__(self):
            super().__init__()
            self.max_recompute = 1

        def schedule(self, active):
            return {nm: [10.0] for nm in names}
    evs = [EV(0, 2, 50, nm, "d%d" % k, Battery(100, 1, 50)) for k, nm in enumerate(names)]
    sim = Simulator(net, Flat(), EventQueue([PluginEvent(e.arrival, e) for e in evs]), datetime(2021, 1, 1),
                    period=6, verbose=False)
    sim.run()
    return sim


def analyse(inp):
    """extra(sim, ...) callback: call every analysis function on the simulator"""
    import random as _pyrandom
    state = dict(decoy=None, calls=0)

    def extra(sim, station_ids, sess_num, after_edit=False, final=False):
        import warnings
        import numpy as np
        from acnportal.acnsim import analysis as an
        state["calls"] += 1
        srng = _pyrandom.Random((inp.get("styles", 0), state["calls"]).__hash__()) if inp.get("styles") is not None else None
        net = sim.network
        index = list(net.constraint_index)
        stable = {cname(j, inp): j for j in range(len(inp["constraints"]))}
        stable.update({"edit%d" % j: j for j in range(50, 60)})
        num = {nm: stable[nm] for nm in index}
        out = dict(width=int(sim.charging_rates.shape[1]),
                   rates=[[float(x) for x in row] for row in sim.charging_rates],
                   volts=[float(v) for v in net._voltages],
                   phases=[float(p) for p in net._phase_angles],
                   cindex=[num[nm] for nm in index],
                   cmat=[[float(x) for x in row] for row in net.constraint_matrix] if net.constraint_matrix is not None else [],
                   cmat_present=net.constraint_matrix is not None,
                   evh=[[float(ev.requested_energy), float(ev.energy_delivered)] for ev in sim.ev_history.values()],
                   iteration=int(sim.iteration))
        msgs = []

        def container(names_):
            # the requested ids as list / tuple / numpy array (caller-owned: must come back unchanged)
            c = srng.randrange(3) if srng else 0
            return list(names_) if c == 0 else (tuple(names_) if c == 1 else np.array(list(names_), dtype=object))

        r1 = an.aggregate_current(sim)
        out["agg_current"] = [float(x) for x in r1]
        r2 = an.aggregate_power(sim)
        out["agg_power"] = [float(x) for x in r2]
        if inp.get("alias"):
            # results held by the caller are scribbled on, then the functions are asked again; in between the same
            # functions are applied to ANOTHER live simulator of the same shape
            if state["decoy"] is None:
                state["decoy"] = decoy_sim(inp, station_ids)
            dec = state["decoy"]
            np.asarray(r1)[...] = -1.0
            np.asarray(r2)[...] = -1.0
            if [float(x) for x in an.aggregate_current(sim)] != out["agg_current"]:
                msgs.append("aggregate_current changed after the caller wrote into the array it had returned")
            if [float(x) for x in an.aggregate_power(sim)] != out["agg_power"]:
                msgs.append("aggregate_power changed after the caller wrote into the array it had returned")
            want_b = (np.array([100.0 + 10 * k for k in range(len(station_ids))]) @ np.array(dec.charging_rates)) / 1000
            got_b = an.aggregate_power(dec)
            if not np.allclose(got_b, want_b, rtol=1e-12, atol=0):
                msgs.append("aggregate_power of a second simulator queried in between is %r, expected %r" % (
                    [float(x) for x in got_b], [float(x) for x in want_b]))
            an.aggregate_current(dec)
            try:
                an.constraint_currents(dec)
            except Exception as e:  # noqa
                msgs.append("constraint_currents of a second simulator raised %s" % type(e).__name__)
            if [float(x) for x in an.aggregate_current(sim)] != out["agg_current"]:
                msgs.append("aggregate_current changed after the caller wrote into the returned array / queried another simulator")
            if [float(x) for x in an.aggregate_power(sim)] != out["agg_power"]:
                msgs.append("aggregate_power changed after the caller wrote into the returned array / queried another simulator")
        cc = []
        for qi, (flag, ids) in enumerate(inp["cc_queries"]):
            arg = None if ids is None else container([cname(i, inp) for i in ids])
            arg_before = None if arg is None else list(arg)
            try:
                style = srng.randrange(3) if srng else 0
                if style == 1 and not flag and ids is None:
                    d = an.constraint_currents(sim)                               # all defaults
                elif style == 2:
                    d = an.constraint_currents(sim, flag, arg)                    # positional
                else:
                    d = an.constraint_currents(sim, return_magnitudes=flag, constraint_ids=arg)
            except TypeError as e:
                if net.constraint_matrix is not None:
                    raise
                cc.append("raise:TypeError")
                continue
            if arg is not None and list(arg) != arg_before:
                msgs.append("constraint_currents modified the caller's constraint_ids %r -> %r" % (arg_before, list(arg)))
            items = []
            for k, v in d.items():
                v = np.asarray(v)
                if np.iscomplexobj(v):
                    items.append([num[k], "c", [float(x) for x in v.real], [float(x) for x in v.imag]])
                else:
                    items.append([num[k], "m", [float(x) for x in v]])
            cc.append(items)
            if inp.get("alias") and qi == 0:
                for v in d.values():
                    np.asarray(v)[...] = 7e9
                d2 = an.constraint_currents(sim, return_magnitudes=flag, constraint_ids=arg)
                again = [[num[k], [float(abs(x)) for x in np.asarray(v)]] for k, v in d2.items()]
                first = [[it[0], [abs(complex(a, b)) for a, b in zip(it[2], it[3])] if it[1] == "c" else it[2]] for it in items]
                if json_round(again) != json_round(first):
                    msgs.append("constraint_currents changed after the caller wrote into the returned arrays")
        out["cc"] = cc
        out["requested"] = float(an.total_energy_requested(sim))
        out["delivered"] = float(an.total_energy_delivered(sim))
        out["proportion"] = float(an.proportion_of_energy_delivered(sim)) if out["requested"] != 0 else None
        # thresholds: the scripted ones plus the exact remaining demand of up to two sessions (probes `<` vs `<=`)
        ths = list(inp["thresholds"])
        for ev in list(sim.ev_history.values())[:2]:
            ths.append(float(ev.requested_energy - ev.energy_delivered))
        out["thresholds"] = ths

        def met(t):
            if not len(sim.ev_history):
                return None
            c = srng.randrange(4) if srng else 0
            if t == 0.1 and c == 1:
                return float(an.proportion_of_demands_met(sim))                   # default threshold
            if c == 2:
                return float(an.proportion_of_demands_met(sim, np.float64(t)))    # positional numpy scalar
            if c == 3 and float(t).is_integer():
                return float(an.proportion_of_demands_met(sim, threshold=int(t)))
            return float(an.proportion_of_demands_met(sim, threshold=t))
        out["met"] = [met(t) for t in ths]
        nema = []
        with np.errstate(all="ignore"), warnings.catch_warnings():
            warnings.simplefilter("ignore")
            for ids in inp["nema_queries"]:
                arg = container([cname(i, inp) for i in ids])
                arg_before = list(arg)
                try:
                    c = srng.randrange(3) if srng else 0
                    if c == 1:
                        r = an.current_unbalance(sim, arg, unbalance_type="NEMA")
                    elif c == 2:
                        r = an.current_unbalance(sim, arg, type="NEMA")           # deprecated spelling
                    else:
                        r = an.current_unbalance(sim, arg)
                    nema.append([None if (x != x) else float(x) for x in np.asarray(r)])
                except (KeyError, ValueError) as e:
                    nema.append("raise:" + type(e).__name__)
                except TypeError as e:
                    if net.constraint_matrix is not None:
                        raise
                    nema.append("raise:TypeError")
                if list(arg) != arg_before:
                    msgs.append("current_unbalance modified the caller's phase_ids")
        out["nema"] = nema
        dts = an.datetimes_array(sim)
        start = np.datetime64(sim.start.replace(tzinfo=None))
        out["minutes_us"] = [int((d - start).astype("timedelta64[us]").astype("int64")) for d in dts]
        # ---- energy_cost / demand_charge: simulator tariff present / absent  x  explicit tariff argument present / absent
        costs = []
        if inp.get("cost_queries"):
            from acnportal.signals.tariffs import TimeOfUseTariff
            own = sim.signals.get("tariff") if isinstance(sim.signals, dict) else None
            for qn, arg_name in enumerate(inp["cost_queries"]):
                explicit = TimeOfUseTariff(arg_name) if arg_name else None
                applicable = explicit if explicit is not None else own
                ent = dict(explicit=arg_name, own=None if own is None else own.name)
                for fname in ("energy_cost", "demand_charge"):
                    f = getattr(an, fname)
                    try:
                        if explicit is None:
                            v = f(sim) if (qn + state["calls"]) % 2 else f(sim, None)
                        else:
                            v = f(sim, explicit) if (qn + state["calls"]) % 2 else f(sim, tariff=explicit)
                        ent[fname] = float(v)
                    except Exception as e:  # noqa
                        ent[fname] = "raise:" + type(e).__name__
                if applicable is not None:
                    ent["prices"] = [float(x) for x in applicable.get_tariffs(sim.start, int(sim.charging_rates.shape[1]), sim.period)]
                    ent["dc"] = float(applicable.get_demand_charge(sim.start))
                costs.append(ent)
        out["costs"] = costs
        direct = []
        if net.constraint_matrix is not None:
            W_ = int(sim.charging_rates.shape[1])
            for ti in inp.get("direct_ti", []):
                ti = [t for t in ti if t < W_]
                if not ti:
                    continue
                r = net.constraint_current(np.array(sim.charging_rates), constraints=None, time_indices=list(ti))
                r = np.asarray(r)
                direct.append([ti, [[float(x) for x in row.real] for row in r], [[float(x) for x in row.imag] for row in r]])
        out["direct"] = direct
        out["msgs"] = msgs
        ed = inp.get("edit")
        if ed and final and not after_edit and state.get("edited") is None:
            # mutation between queries on the same objects: a constraint is removed / replaced / added on the network of
            # the completed simulation and every function is asked again
            from acnportal.acnsim.network.current import Current
            state["edited"] = True
            try:
                target = cname(ed["target"], inp)
                cur = Current({station_ids[int(k)]: v for k, v in ed["coefs"].items()})
                if ed["kind"] == "remove" and target in net.constraint_index:
                    net.remove_constraint(target)
                elif ed["kind"] == "update" and target in net.constraint_index:
                    net.update_constraint(target, cur, ed["limit"], new_name=("edit%d" % ed["new"]) if ed.get("new") else None)
                else:
                    net.add_constraint(cur, ed["limit"], name="edit%d" % (ed.get("new") or 51))
                out["after_edit"] = extra(sim, station_ids, sess_num, after_edit=True)
            except Exception as e:  # noqa
                import traceback
                out["after_edit"] = dict(error="%s: %s" % (type(e).__name__, e), where=traceback.format_exc().splitlines()[-3:])
        return out
    return extra


def json_round(x):
    import json
    return json.loads(json.dumps(x))


def run_impl(inp):
    base = analyse(inp)

    def guarded(sim, station_ids, sess_num, final=False):
        # an analysis function raising on a completed simulation with existing constraints is itself a finding
        try:
            return base(sim, station_ids, sess_num, final=final)
        except Exception as e:  # noqa
            import traceback
            return dict(error="%s: %s" % (type(e).__name__, e), where=traceback.format_exc().splitlines()[-3:])
    impl = c02.run_history(inp, extra=lambda *a: guarded(*a, final=True), midrun=guarded)
    return impl


FAILING_CASE = ("{| c_traj := mk_traj 0%nat [] [] [] [] [] [] 0%nat 1 true; i_agg_current := [1]; i_agg_power := []; i_cc := [];\n"
                "   i_requested := 0; i_delivered := 0; i_proportion := None; i_met := []; i_nema := []; i_minutes := []; i_costs := [] |}")


# ------------------------------------------------------------------------------------------------
def series_coq(it):
    if it[1] == "m":
        return "(%s, Mag %s)" % (zlit(it[0]), coq_list([q(x) for x in it[2]]))
    return "(%s, Cplx %s %s)" % (zlit(it[0]), coq_list([q(x) for x in it[2]]), coq_list([q(x) for x in it[3]]))


def ids_coq(ids):
    return coq_opt(ids, lambda l: coq_list([zlit(i) for i in l]))


def phasors(phases):
    return [(math.cos(math.radians(p)), math.sin(math.radians(p))) for p in phases]


def case_coq(inp, ex):
    traj = ("{| t_width := %d%%nat; t_rates := %s; t_volts := %s; t_phasor := %s; t_cindex := %s; t_cmat := %s;\n"
            "      t_evh := %s; t_iter := %d%%nat; t_period := %s; t_cmat_present := %s |}") % (
        ex["width"], coq_list([coq_list([q(x) for x in row]) for row in ex["rates"]]),
        coq_list([q(v) for v in ex["volts"]]),
        coq_list(["(%s, %s)" % (q(c), q(s)) for c, s in phasors(ex["phases"])]),
        coq_list([zlit(i) for i in ex["cindex"]]),
        coq_list([coq_list([q(x) for x in row]) for row in ex["cmat"]]),
        coq_list(["(%s, %s)" % (q(a), q(b)) for a, b in ex["evh"]]), ex["iteration"], q(inp["period"]),
        coq_bool(ex["cmat_present"]))
    cc = coq_list(["(%s, %s, %s)" % (coq_bool(flag), ids_coq(ids),
                                     "None" if isinstance(items, str) else "(Some %s)" % coq_list([series_coq(it) for it in items]))
                   for (flag, ids), items in zip(inp["cc_queries"], ex["cc"])])
    met = coq_list(["(%s, %s)" % (q(t), coq_opt(v, q)) for t, v in zip(ex["thresholds_used"], ex["met_used"])])
    nema = coq_list(["(%s, %s)" % (coq_list([zlit(i) for i in ids]),
                                   "None" if isinstance(r, str) else
                                   "(Some %s)" % coq_list([coq_opt(x, q) for x in r]))
                     for ids, r in zip(inp["nema_queries"], ex["nema"])])
    minutes = coq_list([q(F(us, 60 * 10**6)) for us in ex["minutes_us"]])
    costs = coq_list(["(%s, %s, %s, %s)" % (coq_list([q(x) for x in e["prices"]]), q(e["dc"]), q(e["energy_cost"]), q(e["demand_charge"]))
                      for e in ex.get("costs", [])
                      if "prices" in e and not isinstance(e["energy_cost"], str) and not isinstance(e["demand_charge"], str)])
    return ("{| c_traj := %s;\n   i_agg_current := %s; i_agg_power := %s;\n   i_cc := %s;\n"
            "   i_requested := %s; i_delivered := %s; i_proportion := %s; i_met := %s;\n   i_nema := %s; i_minutes := %s; i_costs := %s |}") % (
        traj, coq_list([q(x) for x in ex["agg_current"]]), coq_list([q(x) for x in ex["agg_power"]]), cc,
        q(ex["requested"]), q(ex["delivered"]), coq_opt(ex["proportion"], q), met, nema, minutes, costs)


def finish_case(inp, ex, snapshot):
    """one recorded set of analysis results (mid-run snapshot k, or the completed simulation) -> one case"""
    inp = dict(inp, snapshot=snapshot)
    if "error" in ex:
        return dict(input=inp, impl=dict(extra=ex, ok=True), coq=FAILING_CASE, ambiguous=False, kind="analysis-raised",
                    sig=[inp["stations"], inp["sessions"], inp["script"], inp["constraints"], snapshot], nontrivial=True)
    amb = False
    # thresholds within 1e-9 of a remaining demand are float-ambiguous: drop them
    used_t, used_m = [], []
    for t, v in zip(ex["thresholds"], ex["met"]):
        # a remaining demand whose float value is inexact and within 1e-9 of the threshold is float-ambiguous;
        # an exactly representable one (e.g. nothing delivered) is a legitimate boundary probe
        if any(abs((F(r) - F(d)) - F(t)) < F(1, 10**9) and F(r - d) != F(r) - F(d) for r, d in ex["evh"]):
            continue
        used_t.append(t)
        used_m.append(v)
    ex["thresholds_used"], ex["met_used"] = used_t, used_m
    # a NEMA mean that is tiny but non-zero is decided differently by the 2^-60 square root
    for ids, r in zip(inp["nema_queries"], ex["nema"]):
        if isinstance(r, str):
            continue
        if isinstance(ex["cc"][0], str):
            continue
        mags = [dict((it[0], it[2]) for it in ex["cc"][0])[i] for i in ids]
        for t in range(ex["width"]):
            mean = sum(m[t] for m in mags) / len(mags)
            if 0 < mean < 1e-9:
                amb = True
    return dict(input=inp, impl=dict(extra=ex, ok=True), coq=case_coq(inp, ex), ambiguous=amb,
                kind="m=%d/n=%d/%s" % (len(ex["cindex"]), len(ex["volts"]),
                                       ("final-reloaded" if inp.get("json") else "final") if snapshot == "final"
                                       else ("after-edit" if snapshot == "after-edit" else "mid-run"))
                + "".join("/" + k for k in ("styles", "alias") if inp.get(k)),
                sig=[inp["stations"], inp["sessions"], inp["script"], inp["constraints"], inp["cc_queries"],
                     inp["nema_queries"], snapshot],
                nontrivial=ex["delivered"] != 0 or snapshot != "final")


def make_cases(inp):
    """one simulation -> cases: every analysis function is called from inside the scheduling algorithm at EVERY
    invocation while the run is in progress and again on the completed simulation; the completed one and up to two of
    the mid-run snapshots (the last one, and one picked by inp["snap_pick"]) are compared with the model for the state
    at that moment"""
    impl = run_impl(inp)
    if not impl["ok"] or "extra" not in impl:
        return []
    mids = impl.get("midrun", [])
    keep = []
    if mids:
        keep = sorted({len(mids) - 1, int(inp.get("snap_pick", 0.5) * len(mids)) % len(mids)})
        if any("error" in m for m in mids):
            keep = [k for k, m in enumerate(mids) if "error" in m][:1]
    out = [finish_case(inp, mids[k], k) for k in keep]
    final = impl["extra"]
    edited = final.pop("after_edit", None) if isinstance(final, dict) else None
    out.append(finish_case(inp, final, "final"))
    if edited is not None:
        out.append(finish_case(inp, edited, "after-edit"))
    return out


def make_case(inp):
    cs = make_cases(inp)
    return cs[-1] if cs else None


def gen_cases(rng, n, tier):
    cases = []
    while len(cases) < n:
        inputs = [gen_input(rng, tier) for _ in range(max(4, (n - len(cases)) // 2))]
        for cs in c02.pmap(make_cases, inputs):
            cases.extend(cs)
    return cases[:n]


# ------------------------------------------------------------------------------------------------
# monitor: every analysis function against its first-principles definition, on the implementation
# ------------------------------------------------------------------------------------------------
def close(a, b, tol=1e-9):
    return abs(a - b) <= tol * max(1.0, abs(a), abs(b))


def monitor(case):
    inp, ex = case["input"], case["impl"]["extra"]
    if "error" in ex:
        return "an analysis function raised on a completed simulation: %s (%s)" % (ex["error"], " | ".join(ex.get("where", [])))
    for msg in ex.get("msgs", []):
        return msg
    rates, volts, W = ex["rates"], ex["volts"], ex["width"]
    n = len(volts)
    ph = phasors(ex["phases"])
    if len(ex["agg_current"]) != W or len(ex["agg_power"]) != W:
        return "aggregate series have the wrong length"
    for t in range(W):
        a = float(sum(F(rates[s][t]) for s in range(n)))
        if not close(ex["agg_current"][t], a):
            return "aggregate_current[%d] = %r, station sum is %r" % (t, ex["agg_current"][t], a)
        p = float(sum(F(rates[s][t]) * F(volts[s]) for s in range(n)) / 1000)
        if not close(ex["agg_power"][t], p):
            return "aggregate_power[%d] = %r, voltage-weighted station sum / 1000 is %r" % (t, ex["agg_power"][t], p)

    def phase_sum(j, t):
        re = sum(ex["cmat"][j][s] * rates[s][t] * ph[s][0] for s in range(n))
        im = sum(ex["cmat"][j][s] * rates[s][t] * ph[s][1] for s in range(n))
        return re, im
    index = ex["cindex"]
    for ti, res_re, res_im in ex.get("direct", []):
        if len(res_re) != len(index):
            return "network.constraint_current(time_indices=%r) returned %d rows for %d constraints" % (ti, len(res_re), len(index))
        for j in range(len(index)):
            for col, t in enumerate(ti):
                re, im = phase_sum(j, t)
                if not (close(res_re[j][col], re) and close(res_im[j][col], im)):
                    return ("network.constraint_current(rates, time_indices=%r) row %d, period %d = %r, phase-aware sum = %r"
                            % (ti, j, t, complex(res_re[j][col], res_im[j][col]), complex(re, im)))
    for ent in ex.get("costs", []):
        if "prices" not in ent:
            # neither the caller nor the simulator names a tariff: both functions must refuse
            for fname in ("energy_cost", "demand_charge"):
                if not isinstance(ent[fname], str):
                    return "%s returned %r although no tariff is specified" % (fname, ent[fname])
            continue
        fp = [float(sum(F(rates[s][t]) * F(volts[s]) for s in range(n)) / 1000) for t in range(W)]
        which = ("the explicit tariff argument %r" % ent["explicit"]) if ent["explicit"] else ("the simulator's tariff %r" % ent["own"])
        want_e = sum(p * a for p, a in zip(ent["prices"], fp)) * (inp["period"] / 60)
        want_d = ent["dc"] * max(fp)
        if isinstance(ent["energy_cost"], str) or not close(ent["energy_cost"], want_e):
            return "energy_cost = %r, but sum_t price_t * aggregate power_t * period/60 with %s is %r (simulator tariff %r)" % (
                ent["energy_cost"], which, want_e, ent["own"])
        if isinstance(ent["demand_charge"], str) or not close(ent["demand_charge"], want_d):
            return "demand_charge = %r, but rate * max aggregate power with %s is %r (simulator tariff %r)" % (
                ent["demand_charge"], which, want_d, ent["own"])
    for (flag, ids), items in zip(inp["cc_queries"], ex["cc"]):
        if isinstance(items, str):
            if ex["cmat_present"]:
                return "constraint_currents(ids=%r) raised %s" % (ids, items)
            continue          # observation: TypeError on a network without constraint matrix (outside the property's scope)
        want = [c for c in index if ids is None or c in ids]
        got = [it[0] for it in items]
        if sorted(got) != sorted(want):
            return "constraint_currents(ids=%r) returned keys %r, requested existing ids are %r" % (ids, got, want)
        for it in items:
            j = index.index(it[0])
            for t in range(W):
                re, im = phase_sum(j, t)
                if it[1] == "m":
                    if not close(it[2][t], math.hypot(re, im)):
                        return "constraint_currents(ids=%r)[%d][%d] = %r, |phase-aware sum of its own row| = %r" % (
                            ids, it[0], t, it[2][t], math.hypot(re, im))
                else:
                    if not (close(it[2][t], re) and close(it[3][t], im)):
                        return "constraint_currents(ids=%r)[%d][%d] = %r, phase-aware sum = %r" % (
                            ids, it[0], t, complex(it[2][t], it[3][t]), complex(re, im))
    req = float(sum(F(a) for a, _ in ex["evh"]))
    dele = float(sum(F(b) for _, b in ex["evh"]))
    if not close(ex["requested"], req):
        return "total_energy_requested %r, sessions request %r" % (ex["requested"], req)
    if not close(ex["delivered"], dele):
        return "total_energy_delivered %r, sessions received %r" % (ex["delivered"], dele)
    if ex["proportion"] is not None and not close(ex["proportion"], dele / req):
        return "proportion_of_energy_delivered %r, delivered/requested = %r" % (ex["proportion"], dele / req)
    for t, v in zip(ex.get("thresholds_used", []), ex.get("met_used", [])):
        cnt = sum(1 for a, b in ex["evh"] if F(a) - F(b) < F(t))
        if v is not None and not close(v, cnt / len(ex["evh"])):
            return "proportion_of_demands_met(threshold=%r) = %r, %d of %d sessions are within the threshold" % (
                t, v, cnt, len(ex["evh"]))
    for ids, r in zip(inp["nema_queries"], ex["nema"]):
        bad = (not ids) or any(i not in index for i in ids) or not ex["cmat_present"]
        if isinstance(r, str):
            if not bad:
                return "current_unbalance(%r) raised %s" % (ids, r)
            continue
        if bad:
            return "current_unbalance(%r) did not raise" % (ids,)
        for t in range(W):
            mags = [math.hypot(*phase_sum(index.index(i), t)) for i in ids]
            mean = sum(mags) / len(mags)
            if mean < 1e-9:
                continue
            w = (max(mags) - mean) / mean
            if r[t] is None or not close(r[t], w, 1e-7):
                return "current_unbalance(%r)[%d] = %r, NEMA (max-mean)/mean = %r" % (ids, t, r[t], w)
    if len(ex["minutes_us"]) != ex["iteration"]:
        return "datetimes_array has %d entries for %d periods" % (len(ex["minutes_us"]), ex["iteration"])
    # entry k = start + k * period, exactly, at the microsecond resolution of datetime
    for k, us in enumerate(ex["minutes_us"]):
        want_us = F(inp["period"]) * k * 60 * 10**6
        if abs(us - want_us) > F(501, 1000):
            return ("datetimes_array[%d] is %d us after start, start + %d * period (period = %r min) is %s us"
                    % (k, us, k, inp["period"], float(want_us)))
    return None


def search(rng, budget_s, broken):
    t0 = time.time()
    # targeted probes first: one tiny simulation per period class (datetimes_array)
    for p in PERIODS:
        inp = gen_input(rng, "quick")
        inp["period"] = p
        for c in make_cases(inp):
            r = monitor(c)
            if r:
                return dict(case=c["input"], impl=c["impl"], why=r)
    while time.time() - t0 < budget_s:
        for _ in range(30):
            for c in make_cases(gen_input(rng, "quick")):
                r = monitor(c)
                if r:
                    return dict(case=c["input"], impl=c["impl"], why=r)
    return None


def replay(w):
    cs = make_cases(w["case"])
    if not cs:
        return "the simulation itself no longer completes"
    for c in cs:
        r = monitor(c)
        if r:
            return r
    return None
