"""C10 — results are deterministic and independent of incidental ordering.

Paired REAL runs of acnportal.acnsim.Simulator on one scenario: original / stations registered in a
permuted order / constraints added in a permuted order / session (event) list permuted / every
event shifted by k periods / the original again in a second process with another PYTHONHASHSEED.
Every run is replayed by the id-keyed Coq model (Model/SimPerm.v) on the same — permuted —
input and must agree on per-station pilots and rates, per-session energies and on the
"invalid schedule" warnings; the theorems (Props/C10.v) say that the model runs of the paired
inputs are equal, so any order dependence of the implementation shows up as a disagreement.
The monitor states the property directly on the paired implementation outputs."""
import fractions
import json
import math
import os
import subprocess
import sys
import time
import warnings

from harness.core import q, coq_list, coq_bool, coq_opt

PID = "C10"
GEN_GROUPS = ["Evse", "EvseZ", "Battery"]
TARGETS = ["coq/Props/C10.vo", "coq/Model/SimPerm.vo", "coq/Proofs/SimShift.vo"]
CASES = {"quick": 360, "thorough": 3600}          # runs (nine variants per scenario)
CORR_HEADER = ("From Coq Require Import ZArith QArith List String.\n"
               "From ACN Require Import Base.Num Model.EVSE Model.SimPerm.\nImport ListNotations.\n"
               "Open Scope Q_scope.\n")
CHECK_FN = "check_c10"
SHARD = 24
RULE = ("one scenario = 1-5 stations (continuous or finite-rate EVSEs, shuffled names, mixed voltages / phase angles), "
        "0-3 constraints with mixed-sign coefficients, 1-9 non-overlapping sessions (back-to-back stays, arrival ties across "
        "stations), scheduler in {uncontrolled, scripted multi-period, sorted FCFS/EDF/LLF/LRPT with distinct keys}; "
        "40% of the sorted scenarios use estimate_max_rate with a SimpleRampdown estimator and chargers below the pilot (no arrival in "
        "period 0 there: open known finding rampdown-period0-shift); 9 runs per scenario (deep-copied clone run beside the live original, stored-and-reloaded before the run, interrupted-and-resumed, original, stations permuted, constraints permuted, sessions permuted, shifted by k, other "
        "PYTHONHASHSEED); every 5th scenario is a single-phase site (equal phase angles) with a feeder row of ones over all "
        "stations and tighter 0/1 pod rows that bind, every 7th a three-phase site with binding constraints; stream 2: in-process sequences A, <unrelated / re-wired sites with the same ids>, A on three-phase "
        "sites with binding constraints and sorted schedulers - the second run of A must equal the first exactly; "
        "each run is one correspondence case; distinct = distinct (scenario, variant); cases in which a "
        "feasibility or fully-charged decision is within 1e-6 / 1e-9 of its threshold are skipped as float-ambiguous")
ASSUMPTIONS = ["open known finding rampdown-period0-shift (replayed on the real code on every run): with a SimpleRampdown estimator a "
               "session arriving in period 0 is ramped down one period later than the same session shifted by k >= 1; the "
               "generator therefore lets nobody arrive in period 0 in its `rampdown` scenarios - exactly that input class and "
               "nothing else; every other difference between a shifted and an unshifted run is reported",
               "exact rational arithmetic in the model; values compared to 1e-9 relative",
               "sessions at one station do not overlap (otherwise plugin raises StationOccupiedError) and arrival < departure",
               "in the correspondence the sorted schedulers' emitted schedules are recorded and replayed as a scripted oracle "
               "(their equivariance is the theorem C10_sorted_equivariant about Model/Sorted.v, tied to the code by C07/C08); "
               "their own order-independence is observed on the paired real runs (monitor), with distinct sort keys",
               "the event queue is modelled by its contract (due events sorted by timestamp and precedence, C11)"]
TRUSTED_EXTRA = ["harness/c10.py scenario builder (applies the same permutation to the real run and to the model input)"]
F = fractions.Fraction
PERIOD = 5


def z(n):
    return "(%d)%%Z" % int(n)


# ---------------------------------------------------------------------------------------------
# scenarios
# ---------------------------------------------------------------------------------------------
def rand_scenario(rng, idx=0):
    n = rng.choice([1, 2, 2, 3, 3, 4, 5])
    kind = rng.choice(["unc", "unc", "scr", "scr", "scr", "sorted", "sorted", "sorted"])
    names = rng.sample(["CA-%03d" % i for i in range(300, 340)], n)
    finite = kind == "sorted" and rng.random() < 0.5
    stations = []
    for nm in names:
        if finite or (kind != "sorted" and rng.random() < 0.3):
            k = ["F", rng.choice([[8, 16, 24, 32], [6, 12, 18, 24, 30], [16, 32]])]
        else:
            k = ["C", 0, rng.choice([16, 32, 32, 40])]
        stations.append(dict(id=nm, kind=k, voltage=rng.choice([208, 208, 240]),
                             phase=rng.choice([0, 0, 30, -30, 150, -90, 120, -120])))
    if finite:
        for st in stations:
            st["kind"] = ["F", rng.choice([[8, 16, 24, 32], [6, 12, 18, 24, 30], [16, 32]])]
    constraints = []
    for c in range(rng.choice([0, 1, 2, 2, 3])):
        members = rng.sample(names, rng.randint(1, n))
        coefs = {m: rng.choice([1, 1, 1, -1, 2, 0.5]) for m in members}
        constraints.append(dict(name="con-%d" % c, coefs=coefs, limit=rng.choice([10, 20, 32, 40, 50, 64, 100])))
    # sessions: per station a chain of non-overlapping stays; globally distinct arrivals and departures
    # when a sorted scheduler is used (its sort key must not tie)
    sessions, used_arr, used_dep, k = [], set(), set(), 0
    T = rng.choice([4, 8, 12])
    for nm in names:
        t = rng.randint(0, 3)
        for _ in range(rng.randint(0, 3)):
            if t > T:
                break
            a = t
            d = a + rng.randint(1, 5)
            if kind == "sorted":
                while a in used_arr:
                    a += 1
                d = max(d, a + 1)
                while d in used_dep:
                    d += 1
            used_arr.add(a)
            used_dep.add(d)
            sessions.append(dict(k=k, id="sess-%02d" % k, station=nm, arrival=a, departure=d,
                                 energy=rng.choice([0.5, 1.25, 2.0, 3.5, 6.0, 12.0]),
                                 cap=rng.choice([8.0, 20.0, 60.0]), init=rng.choice([0.0, 0.0, 2.5]),
                                 maxp=rng.choice([3.25, 6.5, 7.5, 11.0])))
            k += 1
            t = d + rng.choice([0, 0, 1, 2])
    if not sessions:
        nm = names[0]
        sessions.append(dict(k=0, id="sess-00", station=nm, arrival=1, departure=4, energy=2.0, cap=20.0, init=0.0, maxp=6.5))
    sc = dict(idx=idx, stations=stations, constraints=constraints, sessions=sessions, kind=kind,
              sort=rng.choice(["fcfs", "edf", "llf", "lrpt"]), max_recompute=rng.choice([None, 1, 2, 3]),
              script_seed=rng.randint(0, 10 ** 6), script_len=rng.randint(1, 3), shift=rng.randint(1, 4),
              perm_seed=rng.randint(0, 10 ** 6))
    if kind == "unc":
        sc["max_recompute"] = 1
    if kind == "sorted":
        sc["max_recompute"] = rng.choice([None, 1])
    return add_options(rng, sc)


LEX_NAMES = ["S-9", "S-10", "S-11", "s-2", "10", "9", "", "0"]


def add_options(rng, sc):
    """unusual-but-legal parameters, dtypes, caller-side mutations and network edits (audit checklist 3-8); the same
    options are used in every variant of the scenario, and the model is given the same parameters"""
    o = dict(period=rng.choice([5, 5, 5, 1, 7, 2.5]),
             tols=rng.choice([None, None, None, [0.5, 1e-7], [0.0, 0.01], [1e-3, 0.0]]),
             conmut=rng.choice([None, None, "dummy", "update", "both"]),
             mutate_args=rng.random() < 0.4, np_rows=rng.random() < 0.3, np_times=rng.random() < 0.3,
             est_dep=rng.random() < 0.3, resume_kind=rng.choice(["Exception", "BaseException"]),
             resume_fresh=rng.random() < 0.3)
    # a sorting algorithm that LEARNS per-session pilot upper bounds (SimpleRampdown): state kept by the estimator must not
    # leak from one simulation into the next one, which uses the same session ids (all variants / repeated runs do)
    o["rampdown"] = sc["kind"] == "sorted" and rng.random() < 0.4
    if o["rampdown"]:
        o["resume_fresh"] = False          # a fresh scheduler mid-run legitimately forgets what was learned
        for j, x in enumerate(sc["sessions"]):
            if j % 2 == 0:
                x["maxp"] = 3.25           # on-board charger well below the pilot: the estimator lowers its bound
            # nobody arrives in period 0: on the unchanged tree Interface.last_applied_pilot_signals returns {} in period 1
            # (`if i > 0` with i = iteration - 1), so a session arriving at 0 is ramped down one period later than the same
            # session arriving at k >= 1 - OPEN KNOWN FINDING rampdown-period0-shift (replay_known); this exclusion is exactly
            # that input class
            x["arrival"] += 1
            x["departure"] += 1
    sc["opts"] = o
    if rng.random() < 0.2 and len(sc["stations"]) <= len(LEX_NAMES):
        # station names whose lexicographic order differs from the registration order, numeric-looking, mixed case, empty
        new = rng.sample(LEX_NAMES, len(sc["stations"]))
        ren = {st["id"]: nn for st, nn in zip(sc["stations"], new)}
        for st in sc["stations"]:
            st["id"] = ren[st["id"]]
        for c in sc["constraints"]:
            c["coefs"] = {ren[k]: v for k, v in c["coefs"].items()}
        for x in sc["sessions"]:
            x["station"] = ren[x["station"]]
    if sc["kind"] != "sorted" and rng.random() < 0.3:
        for st in sc["stations"]:
            if st["kind"][0] == "C" and rng.random() < 0.5:
                st["kind"] = ["D", rng.choice([6, 8]), st["kind"][2]]
    for c in sc["constraints"]:
        if rng.random() < 0.2:
            c["limit"] = rng.choice([26.5, 33.3, 47.25])
    if sc["constraints"] and rng.random() < 0.3:
        # the same aggregate current bounded twice with different limits (a breaker and a transformer rating on one feeder):
        # identical coefficient rows, inserted at a random position
        c = rng.choice(sc["constraints"])
        twin = dict(name="con-%d" % len(sc["constraints"]), coefs=dict(c["coefs"]),
                    limit=rng.choice([x for x in [16, 24, 32, 40, 64] if x != c["limit"]]))
        sc["constraints"].insert(rng.randint(0, len(sc["constraints"])), twin)
    return sc


def period_of(sc):
    return sc.get("opts", {}).get("period", PERIOD)


def tols_of(sc):
    t = sc.get("opts", {}).get("tols")
    return (1e-5, 1e-7) if not t else (t[0], t[1])


def variant_input(sc, variant):
    """the scenario as it is presented to the simulator in this variant (orders / times changed)"""
    import random as pyrandom
    r = pyrandom.Random(sc["perm_seed"])
    st, cs, se, shift = list(sc["stations"]), list(sc["constraints"]), list(sc["sessions"]), 0

    def perm(l):
        l2 = list(l)
        if len(l2) > 1:
            while l2 == l:
                r.shuffle(l2)
        return l2
    if variant == "stperm":
        st = perm(st)
    elif variant == "cperm":
        cs = perm(cs)
    elif variant == "seperm":
        # the listing of the Plugin events: a random shuffle, the reversed list, or a nearly chronological listing with
        # one late arrival moved to the front part / one early arrival moved to the end (heap invariants of add_events)
        mode = r.choice(["shuffle", "reversed", "late-early", "late-early", "early-late"])
        if sc.get("family") == "twins":
            mode = "reversed"              # the two sessions with equal arrival and departure must swap places
        chrono = sorted(se, key=lambda x: (x["arrival"], x["k"]))
        if mode == "late-early" and len(se) >= 4:
            j = r.randrange(2, len(chrono))
            cand = chrono[:1] + [chrono[j]] + chrono[1:j] + chrono[j + 1:]
        elif mode == "early-late" and len(se) >= 3:
            j = r.randrange(0, len(chrono) - 1)
            cand = chrono[:j] + chrono[j + 1:] + [chrono[j]]
        elif mode == "reversed":
            cand = chrono[::-1]
        else:
            cand = perm(se)
        se = cand if cand != se else perm(se)
    elif variant == "shift":
        shift = sc["shift"]
        se = [dict(s, arrival=s["arrival"] + shift, departure=s["departure"] + shift) for s in se]
    return dict(stations=st, constraints=cs, sessions=se, shift=shift)


def script_pilot(sc, station, rel_t):
    """the scripted scheduler's table: a fixed function of (station id, time relative to the shift)"""
    import random as pyrandom
    st = [s for s in sc["stations"] if s["id"] == station][0]
    r = pyrandom.Random("%d/%s/%d" % (sc["script_seed"], station, rel_t))
    if st["kind"][0] == "F":
        return r.choice([0] + st["kind"][1])
    if st["kind"][0] == "D":
        return r.choice([0, 0, st["kind"][1], 13.5, 16, st["kind"][2]])
    return r.choice([0, 0, 6, 8, 13.5, 16, st["kind"][2]])


def run_variant(sc, variant, nested=None, alg_pool=None):
    """one real run; returns outputs keyed by ids.
    variant 'resume': the scheduler raises once in a period with an arrival, the harness catches it and calls run() again.
    nested: another scenario that is simulated completely INSIDE this run's second scheduler call (two live simulations).
    alg_pool: dict in which algorithm objects are kept so that consecutive simulations reuse the same object."""
    from datetime import datetime
    import numpy as np
    from acnportal.acnsim import Simulator, EventQueue, PluginEvent, ChargingNetwork, Current, Interface
    from acnportal.acnsim.models import EV, EVSE, FiniteRatesEVSE, DeadbandEVSE, Battery
    from acnportal.algorithms import (UncontrolledCharging, SortedSchedulingAlgo, BaseAlgorithm,
                                      first_come_first_served, earliest_deadline_first, least_laxity_first,
                                      largest_remaining_processing_time)
    vi = variant_input(sc, base_variant(variant))
    o = sc.get("opts", {})
    tol = tols_of(sc)
    net = ChargingNetwork(violation_tolerance=tol[0], relative_tolerance=tol[1]) if o.get("tols") else ChargingNetwork()
    for st in vi["stations"]:
        if st["kind"][0] == "F":
            evse = FiniteRatesEVSE(st["id"], list(st["kind"][1]))
        elif st["kind"][0] == "D":
            evse = DeadbandEVSE(st["id"], deadband_end=st["kind"][1], max_rate=st["kind"][2])
        else:
            evse = EVSE(st["id"], max_rate=st["kind"][2], min_rate=st["kind"][1])
        net.register_evse(evse, st["voltage"], st["phase"])
    conmut = o.get("conmut")
    if conmut in ("dummy", "both") and vi["stations"]:
        net.add_constraint(Current({vi["stations"][0]["id"]: 1}), 1, name="scratch")
    handed = []
    for j, c in enumerate(vi["constraints"]):
        limit = c["limit"] if not o.get("np_rows") else (np.float64(c["limit"]) if j % 2 else c["limit"])
        cur = Current(dict(c["coefs"]))
        if conmut in ("update", "both") and j == 0:
            # registered with other values first, then corrected in place
            net.add_constraint(Current({k: -3 * v for k, v in c["coefs"].items()}), 7, name=c["name"])
            net.update_constraint(c["name"], cur, limit)
        else:
            net.add_constraint(cur, limit, name=c["name"])
        handed.append(cur)
    if conmut in ("dummy", "both") and vi["stations"]:
        net.remove_constraint("scratch")
    if o.get("mutate_args"):
        for cur in handed:                      # the caller edits its own Current objects afterwards: the network must not notice
            cur[:] = 99
    evs = {}
    events = []
    ests = [s["departure"] + 1 + 2 * (s["k"] % 2) for s in vi["sessions"]]
    use_est = o.get("est_dep") and len(set(ests)) == len(ests)
    for s, est in zip(vi["sessions"], ests):
        a, d = (np.int64(s["arrival"]), np.int64(s["departure"])) if o.get("np_times") else (s["arrival"], s["departure"])
        ev = EV(a, d, s["energy"], s["station"], s["id"], Battery(s["cap"], s["init"], s["maxp"]),
                estimated_departure=est if use_est else None)
        evs[s["id"]] = ev
        events.append(PluginEvent(s["arrival"], ev))
    shift = vi["shift"]

    def make_alg():
        if sc["kind"] == "unc":
            return UncontrolledCharging()
        if sc["kind"] == "sorted":
            key = "sorted/" + sc["sort"]
            if alg_pool is not None and key in alg_pool and not o.get("rampdown"):
                al = alg_pool[key]                # the same algorithm object serves several simulations
            else:
                fn = {"fcfs": first_come_first_served, "edf": earliest_deadline_first,
                      "llf": least_laxity_first, "lrpt": largest_remaining_processing_time}[sc["sort"]]
                if o.get("rampdown"):
                    from acnportal.algorithms import SimpleRampdown
                    al = SortedSchedulingAlgo(fn, estimate_max_rate=True, max_rate_estimator=SimpleRampdown())
                else:
                    al = SortedSchedulingAlgo(fn)
                if alg_pool is not None and not o.get("rampdown"):
                    alg_pool[key] = al
            al.max_recompute = sc["max_recompute"]
            return al
        L = sc["script_len"]

        class Scripted(BaseAlgorithm):
            prev = None

            def schedule(self, active_sessions):
                t = self.interface.current_time
                if o.get("mutate_args") and self.prev is not None:
                    for k in self.prev:            # the dictionary handed out last time is scribbled over
                        self.prev[k] = [999.0] * len(self.prev[k])
                # every station with an active session gets its table entries; one idle station (by name) too
                ids = sorted({s.station_id for s in active_sessions})
                if ids and (t - shift) % 3 == 0:
                    idle = sorted(x["id"] for x in sc["stations"])[0]
                    if idle not in ids:
                        ids.append(idle)
                if ids and (t - shift) % 4 == 1 and len(ids) > 1:
                    ids = ids[1:]                      # an active station is left out: it gets zeros
                out = {}
                for n_i, i in enumerate(ids):
                    row = [script_pilot(sc, i, t - shift + j) for j in range(L)]
                    if o.get("np_rows"):
                        row = [np.array(row, dtype=float), [np.float64(x) for x in row], [int(x) if float(x).is_integer() else x for x in row]][n_i % 3]
                    out[i] = row
                self.prev = out
                return out
        al = Scripted()
        al.max_recompute = sc["max_recompute"]
        return al
    calls = []
    state = dict(n_calls=0, raise_at=None)
    if variant == "resume" and vi["sessions"]:
        state["raise_at"] = sorted(x["arrival"] for x in vi["sessions"])[len(vi["sessions"]) // 2]

    class Interrupted(Exception):
        pass

    class InterruptedBase(BaseException):
        pass
    exc = InterruptedBase if o.get("resume_kind") == "BaseException" else Interrupted

    def arm(al):
        inner = al.schedule

        def schedule(active_sessions):
            if state["raise_at"] is not None and int(sim.iteration) == state["raise_at"]:
                state["raise_at"] = None
                raise exc("scheduler failed")
            state["n_calls"] += 1
            if nested is not None and state["n_calls"] == 2:
                state["nested_out"] = run_variant(nested, "orig")      # a second simulation, start to finish, right here
            sch = inner(active_sessions)
            calls.append([int(sim.iteration), {k: [float(x) for x in v] for k, v in sch.items()}])
            return sch
        al.schedule = schedule
        return al, inner
    raw_alg = make_alg()
    sim = Simulator(net, raw_alg, EventQueue(events), datetime(2021, 3, 1), period=period_of(sc), verbose=False)
    if o.get("mutate_args"):
        events.clear()                               # caller-owned list mutated after the call
    crash = None
    keep, original_first = None, sc["perm_seed"] % 2 == 0
    with warnings.catch_warnings(record=True) as wlog:
        warnings.simplefilter("always")
        try:
            if variant == "clone":
                # a deep copy of the freshly built simulator is run while the original is alive (the original itself is run
                # before or after the clone); the clone must behave like an independently built simulation
                import copy
                keep = sim
                sim = copy.deepcopy(keep)
                if original_first:
                    keep.run()
                net, raw_alg = sim.network, sim.scheduler
            elif variant == "reloaded":
                # the freshly built simulation is stored and reloaded before it is run, and given a fresh scheduler
                keep = sim
                sim = Simulator.from_json(keep.to_json())
                raw_alg = make_alg()
                sim.update_scheduler(raw_alg)
                net = sim.network
            alg, restore = arm(raw_alg)
            try:
                sim.run()
            except (Interrupted, InterruptedBase):
                if o.get("resume_fresh"):
                    alg.schedule = restore
                    alg, restore = arm(make_alg() if alg_pool is None else alg)
                    sim.scheduler = alg
                    sim.max_recompute = alg.max_recompute
                    alg.register_interface(Interface(sim))
                sim.run()
            if variant == "clone" and not original_first:
                keep.run()
        except Exception as ex:  # noqa
            crash = "%s: %s" % (type(ex).__name__, str(ex)[:160])
    try:
        alg.schedule = restore                           # pooled objects go back unwrapped
    except NameError:
        pass
    if keep is not None:
        evs = {k: sim.ev_history[k] for k in evs if k in sim.ev_history}
    warned = set()
    for w in wlog:
        m = str(w.message)
        if m.startswith("Invalid schedule provided at iteration"):
            warned.add(int(m.split("iteration")[1].split(".")[0]))
    n = int(sim.iteration)
    ids = net.station_ids
    # the same quantities through the DataFrame accessors (columns = station ids)
    df_ok = True
    try:
        pdf, rdf = sim.pilot_signals_as_df(), sim.charging_rates_as_df()
        for i, sid in enumerate(ids):
            df_ok = df_ok and list(pdf[sid][:n]) == list(sim.pilot_signals[i, :n]) and list(rdf[sid][:n]) == list(sim.charging_rates[i, :n])
    except Exception as ex:  # noqa
        df_ok = "%s: %s" % (type(ex).__name__, str(ex)[:80])
    seen = {}
    for t, sch in calls:                                 # one submission per period (a resumed period is submitted once)
        seen[t] = sch
    calls = [[t, seen[t]] for t in sorted(seen)]
    return dict(variant=variant, crash=crash, iterations=n,
                pilots={ids[i]: [float(x) for x in sim.pilot_signals[i, :n]] for i in range(len(ids))},
                rates={ids[i]: [float(x) for x in sim.charging_rates[i, :n]] for i in range(len(ids))},
                energy={k: float(ev.energy_delivered) for k, ev in evs.items()},
                warn=[[t, t in warned] for t, sch in calls if len(sch) > 0],
                calls=calls, station_order=list(ids), df_ok=df_ok)


# ---------------------------------------------------------------------------------------------
# float-ambiguity (decided with exact rationals, independently of the implementation)
# ---------------------------------------------------------------------------------------------
def cs_of(phase):
    return F(math.cos(math.radians(phase))), F(math.sin(math.radians(phase)))


def feas_ambiguous(sc, vi, out):
    """a feasibility decision (the warning of _update_schedules) within 1e-6 of its threshold"""
    sts = {s["id"]: s for s in vi["stations"]}
    for t, sch in out["calls"]:
        if not sch:
            continue
        L = len(next(iter(sch.values())))
        for c in vi["constraints"]:
            lim = F(c["limit"]) + max(F(tols_of(sc)[0]), F(tols_of(sc)[1]) * F(c["limit"]))
            for j in range(L):
                re = sum(F(a) * F(sch[s][j]) * cs_of(sts[s]["phase"])[0] for s, a in c["coefs"].items() if s in sch)
                im = sum(F(a) * F(sch[s][j]) * cs_of(sts[s]["phase"])[1] for s, a in c["coefs"].items() if s in sch)
                if abs(re * re + im * im - lim * lim) <= F("1e-6") * (1 + lim * lim):
                    return True
    return False


def ambiguous(sc, vi, out):
    """the fully-charged decision (remaining demand > 1e-3) of a session within 1e-9 of its threshold in some period"""
    sts = {s["id"]: s for s in vi["stations"]}
    for s in vi["sessions"]:
        V = sts[s["station"]]["voltage"]
        delivered = F(0)
        for t in range(s["arrival"], min(s["departure"], out["iterations"])):
            delivered += F(out["rates"][s["station"]][t]) * V / 1000 * F(period_of(sc)) / 60
            if abs(F(s["energy"]) - delivered - F("1e-3")) < F("1e-9"):
                return True
    return False


# ---------------------------------------------------------------------------------------------
# Coq terms
# ---------------------------------------------------------------------------------------------
def num_maps(sc):
    st = {s["id"]: i + 1 for i, s in enumerate(sorted(sc["stations"], key=lambda s: s["id"]))}
    se = {s["id"]: 100 + s["k"] for s in sc["sessions"]}
    return st, se


def kind_coq(k):
    if k[0] == "F":
        return "(Finite %s)" % coq_list([q(r) for r in k[1]])
    if k[0] == "D":
        return "(Deadband %s %s)" % (q(k[1]), q(k[2]))
    return "(Continuous %s %s)" % (q(k[1]), q(k[2]))


def case_coq(sc, vi, out):
    st_num, se_num = num_maps(sc)
    sts = coq_list(["(%s, {| st_kind := %s; st_voltage := %s; st_cos := %s; st_sin := %s |})" % (
        z(st_num[s["id"]]), kind_coq(s["kind"]), q(s["voltage"]), q(cs_of(s["phase"])[0]), q(cs_of(s["phase"])[1]))
        for s in vi["stations"]])
    ses = coq_list(["{| se_id := %s; se_station := %s; se_arr := %d%%nat; se_dep := %d%%nat; se_req := %s; se_cap := %s; "
                    "se_init := %s; se_maxp := %s |}" % (z(se_num[s["id"]]), z(st_num[s["station"]]), s["arrival"], s["departure"],
                                                         q(s["energy"]), q(s["cap"]), q(s["init"]), q(s["maxp"]))
                    for s in vi["sessions"]])
    cons = coq_list(["{| c_name := %s; c_coef := %s; c_limit := %s |}" % (
        z(c["name"].split("-")[1]), coq_list(["(%s, %s)" % (z(st_num[k]), q(a)) for k, a in c["coefs"].items()]), q(c["limit"]))
        for c in vi["constraints"]])
    cfg = ("{| cf_sessions := %s; cf_max_recompute := %s; cf_period := %s; cf_constraints := %s; "
           "cf_abs_tol := %s; cf_rel_tol := %s |}") % (
        ses, coq_opt(sc["max_recompute"], lambda m: "%d%%nat" % m), q(F(period_of(sc))), cons,
        q(F(repr(tols_of(sc)[0]))), q(F(repr(tols_of(sc)[1]))))
    if sc["kind"] == "unc":
        sched = "Uncontrolled"
    else:
        sched = "(Script %s)" % coq_list(["(%d%%nat, %s)" % (t, coq_list(
            ["(%s, %s)" % (z(st_num[k]), coq_list([q(x) for x in v])) for k, v in sch.items()])) for t, sch in out["calls"]])
    rows = lambda d: coq_list(["(%s, %s)" % (z(st_num[k]), coq_list([q(x) for x in v])) for k, v in d.items()])
    return ("{| k_stations := %s;\n k_config := %s;\n k_sched := %s;\n i_iterations := %d%%nat;\n i_pilots := %s;\n"
            " i_rates := %s;\n i_energy := %s;\n i_warn := %s;\n i_check_warn := %s;\n i_crashed := %s |}") % (
        sts, cfg, sched, out["iterations"], rows(out["pilots"]), rows(out["rates"]),
        coq_list(["(%s, %s)" % (z(se_num[k]), q(v)) for k, v in out["energy"].items()]),
        coq_list(["(%d%%nat, %s)" % (t, coq_bool(b)) for t, b in out["warn"]]),
        coq_bool(not feas_ambiguous(sc, vi, out)), coq_bool(bool(out["crash"])))


VARIANTS = ["orig", "stperm", "cperm", "seperm", "shift", "resume", "clone", "reloaded"]


def other_hashseed(scs):
    """the 'orig' variant of every scenario, in a second process with another PYTHONHASHSEED"""
    env = dict(os.environ, PYTHONHASHSEED="4242")
    p = subprocess.run([sys.executable, "-m", "harness.c10", "--worker"], input=json.dumps(scs), env=env,
                       stdout=subprocess.PIPE, stderr=subprocess.PIPE, text=True,
                       cwd=os.path.dirname(os.path.dirname(os.path.abspath(__file__))))
    if p.returncode != 0:
        return [dict(variant="hash", crash="worker failed: " + p.stderr[-300:], iterations=0, pilots={}, rates={},
                     energy={}, warn=[], calls=[], station_order=[]) for _ in scs]
    outs = json.loads(p.stdout.strip().split("\n")[-1])
    for o in outs:
        o["variant"] = "hash"
        o["calls"] = [[t, dict(sch)] for t, sch in o["calls"]]
    return outs


def base_variant(v):
    return "orig" if v in ("hash", "resume", "clone", "reloaded") else v


def scenario_cases(sc, outs):
    """correspondence cases (one per run) of one scenario; the paired outputs ride along for the monitor"""
    cases = []
    summary = {o["variant"]: {k: o.get(k) for k in ("crash", "iterations", "pilots", "rates", "energy", "warn", "df_ok")} for o in outs}
    ambs = {o["variant"]: (not o["crash"]) and ambiguous(sc, variant_input(sc, base_variant(o["variant"])), o)
            for o in outs}
    summary["amb_any"] = any(ambs.values()) or any(
        (not o["crash"]) and feas_ambiguous(sc, variant_input(sc, base_variant(o["variant"])), o) for o in outs)
    for o in outs:
        v = o["variant"]
        vi = variant_input(sc, base_variant(v))
        amb = ambs[v]
        coq = case_coq(sc, vi, o)
        cases.append(dict(input=dict(scenario=sc, variant=v), impl=dict(o, calls=None), coq=coq, ambiguous=amb,
                          kind="%s/%s" % (sc["kind"], v), sig=[sc["idx"], sc["perm_seed"], v], nontrivial=True,
                          paired=summary if v == "orig" else None))
    return cases


def corpus_scenarios():
    """witnesses of fixed findings (corpus/C10/*.json), run first on every check"""
    import glob
    root = os.path.dirname(os.path.dirname(os.path.abspath(__file__)))
    return [json.load(open(pth))["scenario"] for pth in sorted(glob.glob(os.path.join(root, "corpus", "C10", "*.json")))]


def gen_cases(rng, n, tier):
    n_sc = max(1, n // 9)
    # every 5th scenario: single-phase site, feeder row of ones + binding pod rows; every 7th: three-phase site with binding
    # constraints; the rest: the general generator
    scs = [rand_singlephase(rng, i) if i % 5 == 2 else rand_threephase(rng, i) if i % 7 == 3 else
           rand_busy(rng, i) if i % 6 == 4 else rand_twins(rng, i) if i % 8 == 1 else rand_scenario(rng, i) for i in range(n_sc)]
    scs = corpus_scenarios() + scs
    per = [[run_variant(sc, v) for v in VARIANTS] for sc in scs]
    for outs, h in zip(per, other_hashseed(scs)):
        outs.append(h)
    cases = []
    for sc, outs in zip(scs, per):
        cases.extend(scenario_cases(sc, outs))
    return cases



# ---------------------------------------------------------------------------------------------
# in-process SEQUENCES of simulations: equal inputs must give equal outputs whatever ran in between
# ---------------------------------------------------------------------------------------------
def rand_threephase(rng, idx, prefix="TP"):
    """three-phase site with binding constraints and several overlapping sessions, sorted scheduler: the algorithm's own
    feasibility check (algorithms/utils.py) decides the pilots"""
    n = rng.randint(3, 6)
    names = ["%s-%03d" % (prefix, i) for i in rng.sample(range(100, 160), n)]
    wiring = rng.choice([[0, 120, -120], [30, 150, -90], [0, -120, 120]])
    finite = rng.random() < 0.35
    stations = [dict(id=nm, kind=(["F", [8, 16, 24, 32]] if finite else ["C", 0, 32]), voltage=208,
                     phase=wiring[(i + rng.randint(0, 2)) % 3]) for i, nm in enumerate(names)]
    constraints = []
    for c in range(rng.randint(1, 3)):
        members = rng.sample(names, rng.randint(2, n))
        constraints.append(dict(name="con-%d" % c, coefs={m: rng.choice([1, 1, 1, -1]) for m in members},
                                limit=rng.choice([20, 30, 40, 50])))
    sessions, k = [], 0
    arrs = rng.sample(range(0, n + 2), n)
    deps = rng.sample(range(n + 4, 2 * n + 10), n)
    for nm, a, d in zip(names, arrs, deps):
        sessions.append(dict(k=k, id="sess-%02d" % k, station=nm, arrival=a, departure=d,
                             energy=rng.choice([6.0, 12.0, 20.0]), cap=60.0, init=0.0, maxp=rng.choice([6.5, 7.5, 11.0])))
        k += 1
    return add_options(rng, dict(
        idx=idx, stations=stations, constraints=constraints, sessions=sessions, kind="sorted",
        sort=rng.choice(["fcfs", "edf", "llf"]), max_recompute=rng.choice([None, 1]),
        script_seed=rng.randint(0, 10 ** 6), script_len=rng.randint(1, 3), shift=1, perm_seed=rng.randint(0, 10 ** 6)))


def rand_singlephase(rng, idx):
    """single-phase site (all phase angles equal) behind one feeder limit (a row of ones over ALL stations) with tighter
    pod limits (0/1 indicator rows) that bind; sorted scheduler (mostly FCFS on finite-rate EVSEs).  Whether the feeder
    row or a pod row is registered first must not matter (constraint-order clause)."""
    n = rng.randint(3, 6)
    names = ["SP-%03d" % i for i in rng.sample(range(100, 160), n)]
    phase = rng.choice([0, 0, 30, -120])
    finite = rng.random() < 0.7
    stations = [dict(id=nm, kind=(["F", rng.choice([[8, 16, 24, 32], [6, 12, 18, 24, 30]])] if finite else ["C", 0, 32]),
                     voltage=rng.choice([208, 240]), phase=phase) for nm in names]
    constraints = [dict(name="con-0", coefs={m: 1 for m in names}, limit=rng.choice([64, 80, 100, 160]))]
    for c in range(rng.randint(1, 2)):
        members = rng.sample(names, rng.randint(2, max(2, n - 1)))
        constraints.append(dict(name="con-%d" % (c + 1), coefs={m: 1 for m in members}, limit=rng.choice([16, 24, 32, 40])))
    rng.shuffle(constraints)
    sessions = []
    arrs = rng.sample(range(0, n + 2), n)
    deps = rng.sample(range(n + 4, 2 * n + 10), n)
    for k, (nm, a, d) in enumerate(zip(names, arrs, deps)):
        sessions.append(dict(k=k, id="sess-%02d" % k, station=nm, arrival=a, departure=d,
                             energy=rng.choice([6.0, 12.0, 20.0]), cap=60.0, init=0.0, maxp=rng.choice([6.5, 7.5, 11.0])))
    return add_options(rng, dict(
        idx=idx, stations=stations, constraints=constraints, sessions=sessions, kind="sorted",
        sort=rng.choice(["fcfs", "fcfs", "edf", "llf"]), max_recompute=rng.choice([None, 1]),
        script_seed=rng.randint(0, 10 ** 6), script_len=rng.randint(1, 3), shift=rng.randint(1, 3),
        perm_seed=rng.randint(0, 10 ** 6)))


def rand_busy(rng, idx):
    """7-12 sessions with distinct arrivals on 4-7 stations, listed chronologically (so that the session-permuted run is
    the interesting one), any scheduler family, a binding feeder limit"""
    n = rng.randint(4, 7)
    names = ["BZ-%03d" % i for i in rng.sample(range(100, 160), n)]
    kind = rng.choice(["unc", "scr", "sorted", "sorted"])
    finite = kind == "sorted" and rng.random() < 0.6
    stations = [dict(id=nm, kind=(["F", [8, 16, 24, 32]] if finite else ["C", 0, 32]), voltage=208, phase=0) for nm in names]
    constraints = [dict(name="con-0", coefs={m: 1 for m in names}, limit=rng.choice([48, 64, 80]))]
    m = rng.randint(7, 12)
    arrs = sorted(rng.sample(range(0, 2 * m), m))
    free_at = {nm: 0 for nm in names}
    sessions, used_dep = [], set()
    for k, a in enumerate(arrs):
        cand = [nm for nm in names if free_at[nm] <= a]
        if not cand:
            continue
        nm = rng.choice(cand)
        d = a + rng.randint(2, 6)
        while d in used_dep:
            d += 1
        used_dep.add(d)
        free_at[nm] = d
        sessions.append(dict(k=len(sessions), id="sess-%02d" % len(sessions), station=nm, arrival=a, departure=d,
                             energy=rng.choice([2.0, 6.0, 12.0]), cap=60.0, init=0.0, maxp=rng.choice([6.5, 7.5])))
    sc = dict(idx=idx, stations=stations, constraints=constraints, sessions=sessions, kind=kind,
              sort=rng.choice(["fcfs", "edf"]), max_recompute=1 if kind != "scr" else rng.choice([None, 1, 2, 3]),
              script_seed=rng.randint(0, 10 ** 6), script_len=rng.randint(1, 3), shift=rng.randint(1, 4),
              perm_seed=rng.randint(0, 10 ** 6))
    return add_options(rng, sc)


def rand_twins(rng, idx):
    """scripted multi-period scheduler that is NOT re-run every period (max_recompute None / 3 / 4); pairs of sessions that
    arrive in the same period and leave in the same period on different stations, one of them satisfied long before it
    leaves, plus sessions that stay on: the order in which the queue hands out two Unplug (or two Plugin) events of one
    period follows the listing order and must not matter"""
    n = rng.randint(3, 5)
    names = ["TW-%03d" % i for i in rng.sample(range(100, 160), n)]
    stations = [dict(id=nm, kind=["C", 0, 32], voltage=208, phase=0) for nm in names]
    constraints = [dict(name="con-0", coefs={m: 1 for m in names}, limit=rng.choice([64, 100, 200]))] if rng.random() < 0.5 else []
    a, d = rng.randint(0, 2), rng.randint(5, 8)
    sessions = [dict(k=0, id="sess-00", station=names[0], arrival=a, departure=d, energy=0.5, cap=60.0, init=0.0, maxp=7.5),
                dict(k=1, id="sess-01", station=names[1], arrival=a, departure=d, energy=20.0, cap=60.0, init=0.0, maxp=7.5)]
    for j, nm in enumerate(names[2:]):
        sessions.append(dict(k=2 + j, id="sess-%02d" % (2 + j), station=nm, arrival=rng.randint(0, 3), departure=d + rng.randint(3, 6),
                             energy=20.0, cap=60.0, init=0.0, maxp=7.5))
    if rng.random() < 0.5:
        sessions[0], sessions[1] = sessions[1], sessions[0]
    sc = dict(idx=idx, family="twins", stations=stations, constraints=constraints, sessions=sessions, kind="scr", sort="fcfs",
              max_recompute=rng.choice([None, None, 3, 4]), script_seed=rng.randint(0, 10 ** 6), script_len=rng.randint(2, 3),
              shift=rng.randint(1, 4), perm_seed=rng.randint(0, 10 ** 6))
    return add_options(rng, sc)


def rewired(rng, sc, idx):
    """same station ids, constraint ids and sessions as sc; other phases, voltages, coefficients and limits"""
    b = json.loads(json.dumps(sc))
    b["idx"] = idx
    for st in b["stations"]:
        st["phase"] = rng.choice([p for p in [0, 120, -120, 30, 150, -90] if p != st["phase"]])
        st["voltage"] = rng.choice([208, 240])
    for c in b["constraints"]:
        c["coefs"] = {m: rng.choice([1, -1, 2, 0.5]) for m in c["coefs"]}
        c["limit"] = rng.choice([x for x in [20, 30, 40, 50, 64] if x != c["limit"]])
    return b


def rand_sequence(rng, idx):
    """[A, ..., A]: what runs between the two runs of A varies"""
    a = rand_threephase(rng, idx) if rng.random() < 0.75 else rand_scenario(rng, idx)
    b = rewired(rng, a, idx + 1)
    x = rand_threephase(rng, idx + 2, prefix="XQ")
    x2 = rand_scenario(rng, idx + 3)
    pat = rng.choice(["AXBA", "AXBA", "AXBA", "ABXA", "ABA", "AXBX2A", "AX2BA", "A(B)", "A(B)", "A(X)"])
    if pat in ("A(B)", "A(X)"):
        # two LIVE simulations: the second run of A simulates B (same ids, re-wired) or X completely inside its second
        # scheduler call
        return dict(pattern=pat, scs=[a, a], nested={"1": b if pat == "A(B)" else x}, reuse_alg=False)
    mid = {"AXBA": [x, b], "ABXA": [b, x], "ABA": [b], "AXBX2A": [x, b, x2], "AX2BA": [x2, b]}[pat]
    # half of the sequences hand the SAME algorithm object to every simulation that uses that algorithm
    return dict(pattern=pat, scs=[a] + mid + [a], reuse_alg=rng.random() < 0.5)


def run_sequence(seq):
    pool = {} if seq.get("reuse_alg") else None
    return [run_variant(sc, "orig", nested=(seq.get("nested") or {}).get(str(j)), alg_pool=pool)
            for j, sc in enumerate(seq["scs"])]


OUT_KEYS = ("crash", "iterations", "pilots", "rates", "energy", "warn", "df_ok")


def sequence_cases(seq, outs, other=None):
    """one correspondence case per run; the first case carries the repeated-run comparison for the monitor"""
    cases = []
    for j, (sc, o) in enumerate(zip(seq["scs"], outs)):
        vi = variant_input(sc, "orig")
        amb = (not o["crash"]) and ambiguous(sc, vi, o)
        extra = None
        if j == 0:
            extra = dict(pattern=seq["pattern"], first={k: outs[0][k] for k in OUT_KEYS},
                         again={k: outs[-1][k] for k in OUT_KEYS}, other=other)
        cases.append(dict(input=dict(scenario=sc, variant="seq%d/%s%s" % (j, seq["pattern"], "/samealg" if seq.get("reuse_alg") else ""),
                                     sequence=(seq if j == 0 else None)),
                          impl=dict(o, calls=None), coq=case_coq(sc, vi, o), ambiguous=amb,
                          kind="seq/%s/%s" % (sc["kind"], seq["pattern"]), sig=[sc["idx"], sc["perm_seed"], "seq", j, seq["pattern"]],
                          nontrivial=True, paired=None, repeated=extra))
    return cases


def all_sequence_cases(seqs):
    """run every sequence in this process and its distinct scenarios, in REVERSED order, in a second process (other
    PYTHONHASHSEED); returns the correspondence cases"""
    outs = [run_sequence(q) for q in seqs]
    flat, back = [], []
    for qi, q in enumerate(seqs):
        for j in reversed(range(len(q["scs"]) - 1)):
            flat.append(q["scs"][j])
            back.append((qi, j))
    oth = other_hashseed(flat)
    per_seq = {}
    for (qi, j), o in zip(back, oth):
        per_seq.setdefault(qi, {})[j] = {k: o.get(k) for k in OUT_KEYS}
    cases = []
    for qi, (q, o) in enumerate(zip(seqs, outs)):
        other = dict(runs={str(j): v for j, v in per_seq.get(qi, {}).items()},
                     mine={str(j): {k: o[j][k] for k in OUT_KEYS} for j in range(len(o) - 1)})
        cases.extend(sequence_cases(q, o, other))
    return cases


def extra_streams(rng, tier):
    n = {"quick": 24, "thorough": 300}[tier]
    return [("q", CORR_HEADER, CHECK_FN, all_sequence_cases([rand_sequence(rng, 10 ** 5 + 10 * i) for i in range(n)]))]


def same_outputs(a, b, what, exact):
    if a["crash"] or b["crash"]:
        return "%s: a run raised (%s / %s)" % (what, a["crash"], b["crash"])
    for key in ("pilots", "rates"):
        if exact:
            if a[key] != b[key]:
                for st in a[key]:
                    if a[key][st] != b[key].get(st):
                        return "%s: %s of station %s differ: %r vs %r" % (what, key, st, a[key][st], b[key].get(st))
        else:
            r = rows_equal(a[key], b[key], "%s/%s" % (what, key))
            if r:
                return r
    for x in (a, b):
        if x.get("df_ok") not in (True, None):
            return "%s: pilot_signals_as_df / charging_rates_as_df disagree with the matrices (%r)" % (what, x.get("df_ok"))
    for k in a["energy"]:
        if (a["energy"][k] != b["energy"].get(k)) if exact else (not close(a["energy"][k], b["energy"][k])):
            return "%s: energy of %s: %r vs %r" % (what, k, a["energy"][k], b["energy"].get(k))
    return None


def monitor_repeated(case):
    rp = case.get("repeated")
    if not rp:
        return None
    r = same_outputs(rp["first"], rp["again"], "sequence %s: second simulation built from equal inputs in the same process" % rp["pattern"],
                     exact=True)
    if r:
        return r
    oth = rp.get("other")
    if oth:
        for j, mine in oth["mine"].items():
            theirs = oth["runs"].get(j)
            if theirs is None:
                continue
            r = same_outputs(mine, theirs, "sequence %s, scenario %s: same inputs, other process with the scenarios in reversed order"
                             % (rp["pattern"], j), exact=False)
            if r:
                return r
    return None

# ---------------------------------------------------------------------------------------------
# the property, directly on the paired implementation outputs
# ---------------------------------------------------------------------------------------------
def close(a, b):
    return abs(a - b) <= 1e-9 * max(1.0, abs(a), abs(b))


def rows_equal(a, b, what, shift=0):
    if sorted(a) != sorted(b):
        return "%s: different station sets" % what
    for k in a:
        ra, rb = a[k], b[k]
        if len(rb) != len(ra) + shift:
            return "%s: station %s has %d columns, expected %d" % (what, k, len(rb), len(ra) + shift)
        if any(x != 0 for x in rb[:shift]):
            return "%s: station %s is not idle before the shift" % (what, k)
        for t, (x, y) in enumerate(zip(ra, rb[shift:])):
            if not close(x, y):
                return "%s: station %s period %d: %r vs %r" % (what, k, t, x, y)
    return None


def monitor(case):
    if case.get("repeated"):
        return monitor_repeated(case)
    p = case.get("paired")
    if not p:
        return None
    sc = case["input"]["scenario"]
    o = p["orig"]
    amb_any = p.get("amb_any", False)
    for v, x in p.items():
        if v != "amb_any" and x["crash"]:
            return "variant %s raised %s" % (v, x["crash"])
    for v, x in p.items():
        if v != "amb_any" and x.get("df_ok") not in (True, None):
            return "variant %s: pilot_signals_as_df / charging_rates_as_df disagree with the matrices (%r)" % (v, x.get("df_ok"))
    for v in ["stperm", "cperm", "seperm", "hash", "resume", "clone", "reloaded"]:
        x = p[v]
        for what in ("pilots", "rates"):
            r = rows_equal(o[what], x[what], "%s/%s" % (v, what))
            if r:
                return r
        for k in o["energy"]:
            if not close(o["energy"][k], x["energy"][k]):
                return "%s: energy of %s: %r vs %r" % (v, k, o["energy"][k], x["energy"][k])
        if o["warn"] != x["warn"] and not amb_any:
            return "%s: infeasibility warnings differ: %r vs %r" % (v, o["warn"], x["warn"])
    x, k = p["shift"], sc["shift"]
    for what in ("pilots", "rates"):
        r = rows_equal(o[what], x[what], "shift/%s" % what, shift=k)
        if r:
            return r
    for s in o["energy"]:
        if not close(o["energy"][s], x["energy"][s]):
            return "shift: energy of %s: %r vs %r" % (s, o["energy"][s], x["energy"][s])
    # before the first arrival a scheduler may submit all-zero schedules (no warning); afterwards the same submissions
    if any(b for t, b in x["warn"] if t < k) or \
            ([[t + k, b] for t, b in o["warn"]] != [[t, b] for t, b in x["warn"] if t >= k] and not amb_any):
        return "shift: infeasibility warnings differ: %r vs %r" % (o["warn"], x["warn"])
    return None


KNOWN_RAMPDOWN = "rampdown-period0-shift"


def replay_known(entry):
    """open finding rampdown-period0-shift: the witness (one EVSE, one EV arriving in period 0 whose on-board charger takes
    far less than the pilot, FCFS with a SimpleRampdown estimator) is run unshifted and shifted by k on the real code; returns
    what fails while the shifted pilots are not the unshifted ones delayed by k periods, None once it no longer reproduces"""
    if entry.get("sig") != KNOWN_RAMPDOWN:
        return "not re-checked"
    from datetime import datetime
    from acnportal.acnsim import Simulator, EventQueue, PluginEvent, ChargingNetwork
    from acnportal.acnsim.models import EV, EVSE, Battery
    from acnportal.algorithms import SortedSchedulingAlgo, first_come_first_served, SimpleRampdown
    w = entry["witness"]

    def run(k):
        net = ChargingNetwork()
        net.register_evse(EVSE(w["evse"]["id"], max_rate=w["evse"]["max_rate"]), w["evse"]["voltage"], w["evse"]["phase"])
        e = w["ev"]
        ev = EV(e["arrival"] + k, e["departure"] + k, e["energy"], w["evse"]["id"], "s0",
                Battery(e["capacity"], e["init"], e["max_power"]))
        alg = SortedSchedulingAlgo(first_come_first_served, estimate_max_rate=True, max_rate_estimator=SimpleRampdown())
        sim = Simulator(net, alg, EventQueue([PluginEvent(ev.arrival, ev)]), datetime(2021, 1, 1), period=w["period"], verbose=False)
        sim.run()
        return [float(x) for x in sim.pilot_signals[0, :sim.iteration]]
    with warnings.catch_warnings():
        warnings.simplefilter("ignore")
        base = run(0)
        for k in w.get("shifts", [1]):
            got = run(k)
            want = [0.0] * k + base
            if len(got) != len(want) or any(not close(a, b) for a, b in zip(got, want)):
                return "shift by %d: pilots %s, the unshifted run delayed by %d periods is %s" % (
                    k, [round(x, 3) for x in got[:k + 4]], k, [round(x, 3) for x in want[:k + 4]])
    return None


def search(rng, budget_s, broken):
    t0 = time.time()
    i = 0
    while time.time() - t0 < budget_s:
        if i % 20 == 1:
            for c in all_sequence_cases([rand_sequence(rng, 2 * 10 ** 6 + 200 * i + 10 * j) for j in range(10)]):
                r = monitor(c)
                if r:
                    return dict(case=c["input"], impl=None, why=r)
        sc = rand_singlephase(rng, 10 ** 6 + i) if i % 4 == 0 else rand_threephase(rng, 10 ** 6 + i) if i % 4 == 2 \
            else rand_busy(rng, 10 ** 6 + i) if i % 4 == 3 else rand_twins(rng, 10 ** 6 + i) if i % 8 == 1 \
            else rand_scenario(rng, 10 ** 6 + i)
        i += 1
        outs = [run_variant(sc, v) for v in VARIANTS]
        for c in scenario_cases(sc, outs + [dict(outs[0], variant="hash")]):
            r = monitor(c)
            if r:
                return dict(case=c["input"], impl=None, why=r)
    return None


def replay(w):
    if w["case"].get("sequence"):
        q = w["case"]["sequence"]
        for c in all_sequence_cases([q]):
            r = monitor(c)
            if r:
                return r
        return None
    sc = w["case"]["scenario"]
    outs = [run_variant(sc, v) for v in VARIANTS]
    outs.append(other_hashseed([sc])[0])
    for c in scenario_cases(sc, outs):
        r = monitor(c)
        if r:
            return r
    return None


if __name__ == "__main__":
    if "--worker" in sys.argv:
        warnings.filterwarnings("ignore")
        scs = json.loads(sys.stdin.read())
        outs = [run_variant(sc, "orig") for sc in scs]
        print(json.dumps(outs))
