"""C05 — the scheduler is invoked exactly when required and sees the true, isolated state."""
import fractions
import time
from datetime import timedelta

from harness.core import q, z, coq_list, coq_bool, coq_opt, coq_str
from harness import simcommon as S

F = fractions.Fraction
PID = "C05"
GEN_GROUPS = ["Sim", "SimParams", "EvseZ", "Battery", "Evse"]
TARGETS = ["coq/Props/C05.vo", "coq/Model/SimIface.vo"]
CASES = {"quick": 300, "thorough": 2000}
CORR_HEADER = ("From Coq Require Import ZArith QArith List String.\n"
               "From ACN Require Import Base.Num Model.EVSE Model.SimSkel Model.SimIface.\nImport ListNotations.\n"
               "Open Scope string_scope.\nOpen Scope Z_scope.\n")
CHECK_FN = "check_c05"
SHARD = 19
RULE = ("the C01 generator (1-8 stations of mixed EVSE classes and id styles, optional constraints, 0-25 mostly valid sessions with "
        "forced back-to-back reuse / simultaneous events, extra RecomputeEvents, max_recompute in {None,0,1,2,3,5}, period in "
        "{0.5,1,2.5,5,7,15}, mixed int/float/numpy types) with the families plain / reuse (same network, EventQueue and scheduler objects "
        "after a prelude simulation) / twin (same station ids and constraint names, other values, run nested inside a scheduler call) / "
        "resume (scheduler raises, run() again) / netupdate (update/add/remove_constraint between calls: later views must show the "
        "new description) / 10% malformed; every history is run twice on the real Simulator - with a recording scheduler and with one "
        "that then overwrites every object reachable through the Interface and the schedule it returned last time - and the recorded "
        "views (current_time, current_datetime, SessionInfo fields incl. remaining_time / arrival_offset, last_applied_pilot_signals, "
        "last_actual_charging_rate, get_prev_peak, infrastructure arrays), per-period charging rates, final energies, peak and final "
        "iteration are compared with the model replaying the returned schedules; monitors additionally check get_constraints, the "
        "per-station accessors, remaining_amp_periods, the deprecated active_evs accessor, held objects and caller-owned arguments; "
        "Family sibling: an earlier experiment on a separately built network with the same station ids (EVSEs of the site types come from get_evse_by_type) is aborted by a scheduler fault with EVs plugged in, then the input runs on a freshly built network (which must be vacant). 15% of histories use a user-defined EVEvent subclass labelled 'Plugin' for half of the arrivals. Orthogonal options: in 20% the scheduler object has already served another Simulator and is installed with update_scheduler(); 30% of histories also contain bare acnsim.Event / user-defined Event subclasses incl. one labelled 'Recompute' that must trigger the scheduler (own precedence, unknown event_type; also after the last departure); 20% build the Simulator around a still empty EventQueue that the caller fills afterwards through its own reference (sim.event_queue must be that object); family deepcopy (the freshly built simulator is duplicated with copy.deepcopy, the copy is run first, then the original); the resume family continues on the same object, on a deep copy, or on a to_json/from_json reload of the interrupted simulator. distinct = distinct (network, sessions, recomputes, max_recompute, period, scheduler kind/seed, family, id style); ambiguous = a "
        "remaining demand within 1e-7 of 1e-3 (still monitored)")
ASSUMPTIONS = S_ASSUMPTIONS = [
    "schedulers are modelled as arbitrary functions view -> schedule; isolation of the real objects handed out by the Interface "
    "is established by the mutating-scheduler run of the correspondence, not by a theorem",
    "exact rational arithmetic in the model; recorded floats compared to 1e-9 relative",
    "batteries in the correspondence are the ideal Battery class; store_schedule_history = False"]
TRUSTED_EXTRA = ["tools/sim_params.py, py2coq additive extensions used by tools/anchors.d/sim.py"]


# ---------------------------------------------------------------------------------------------
def view_coq(c, period):
    minutes = F((c["dt"] - S.START) / timedelta(seconds=1)) / 60
    sess = coq_list(["(mkSinfo %s %s %s %s %s %s %s %s %s %s)" % (
        z(s["station"]), z(s["sid"]), q(s["req"]), q(s["deliv"]), z(s["arr"]), z(s["dep"]),
        z(s["est"]), z(s["time"]), z(s["remaining"]), z(s["offset"])) for s in c["sessions"]])
    lp = coq_list(["(%s, %s)" % (z(k), q(v)) for k, v in c["last_pilots"]])
    lr = coq_list(["(%s, %s)" % (z(k), q(v)) for k, v in c["last_rates"]])
    i = c["infra"]
    ql = lambda xs: coq_list([q(x) for x in xs])
    infra = "(mkInfra %s %s %s %s %s %s %s %s %s %s)" % (
        coq_list([z(n) for n in i["ids"]]), ql(i["voltages"]), ql(i["phases"]), ql(i["max"]), ql(i["min"]),
        coq_list([ql(a) for a in i["allow"]]), coq_list([coq_bool(b) for b in i["cont"]]),
        coq_list([ql(r) for r in i["cmat"]]), ql(i["limits"]), coq_list([z(n) for n in i["cids"]]))
    return "(mkView %s %s %s %s %s %s %s)" % (z(c["t"]), q(minutes), sess, lp, lr, q(c["peak"]), infra)


def strip_call(c):
    """the part of a recorded call that must be identical in the plain and the mutating run"""
    return {k: c[k] for k in ("t", "dt", "n_hist", "sessions", "last_pilots", "last_rates", "peak", "infra",
                              "constraints", "per_station", "amp_periods", "evs_accessor", "truth", "truth_pilots",
                              "truth_peak", "schedule")}


def same_trace(a, b):
    keys = ("error", "hist", "occ", "iteration", "qempty", "rates", "energy", "peak", "final_occ")
    if any(a[k] != b[k] for k in keys):
        return False
    return [strip_call(c) for c in a["calls"]] == [strip_call(c) for c in b["calls"]]


def case_of(inp, impl, mut):
    same = same_trace(impl, mut)
    amb = min(impl["min_margin"], mut["min_margin"]) < 1e-7 or impl.get("stage") == "build"
    if impl["error"] in ("StationOccupiedError", "KeyError") and impl["hist"]:
        last = impl["hist"][-1]
        if last[1] == "Plugin" and sum(1 for s in inp["sessions"] if s["arrival"] == last[2]) > 1:
            amb = True          # which of several simultaneous plugins raises depends on heap order (C11)
    rates = coq_list(["(%s, %s)" % (z(t), coq_list([q(x) for x in col])) for t, col in enumerate(impl["rates"])])
    energy = coq_list(["(%s, %s)" % (z(k), q(v)) for k, v in impl["energy"]])
    coq = "(mkC05 %s\n  %s %s\n  %s %s %s %s %s)" % (
        S.input_coq(inp, impl), coq_opt(impl["error"], coq_str),
        coq_list([view_coq(c, inp["period"]) for c in impl["calls"]]),
        rates, energy, q(impl["peak"]), z(impl["iteration"]), coq_bool(same))
    fam = inp.get("family", "plain")
    kind = ("malformed/" + inp["malformed"]) if inp["malformed"] else ("%s/%s" % ("valid" if fam == "plain" else fam, inp["sched"]["kind"]))
    return dict(input=inp, impl=slim(impl), mut_same=same, coq=coq, ambiguous=amb, kind=kind,
                sig=[inp["net"], inp["sessions"], inp["recomputes"], inp.get("others"), inp["max_recompute"], inp["period"], inp["sched"], fam,
                     inp.get("idstyle"), inp.get("late_fill")],
                nontrivial=len(impl["calls"]) > 0, monitor=monitor_full(inp, impl, mut))


def make_cases(inp):
    impl = S.run_impl(inp)
    mut = S.run_impl(inp, mutate=True)
    out = [case_of(inp, impl, mut)]
    if "twin_trace" in impl and "twin_trace" in mut:
        out.append(case_of(dict(inp["twin"], family="twin"), impl["twin_trace"], mut["twin_trace"]))
    return out


def slim(impl):
    return dict(error=impl["error"], iteration=impl["iteration"], n_calls=len(impl["calls"]),
                call_times=[c["t"] for c in impl["calls"]], hist=impl["hist"], peak=impl["peak"], flags=impl.get("flags", []))


MALFORMED = ["overlap", "bad_departure", "bad_estimate", "unknown_station"]
FAMILIES = [("reuse", 0.07), ("twin", 0.05), ("resume", 0.07), ("netupdate", 0.06), ("deepcopy", 0.06), ("sibling", 0.04)]


def gen_cases(rng, n, tier):
    specs = [(rng.choice(MALFORMED), None) for _ in range(n // 10)]
    for fam, frac in FAMILIES:
        specs += [(None, fam)] * max(1, int(n * frac))
    specs += [(None, None)] * max(0, n - len(specs) - sum(1 for _, f in specs if f == "twin"))   # a twin yields two cases
    rng.shuffle(specs)
    cases = []
    for mal, fam in specs:
        cases += make_cases(S.gen_input(rng, tier, malformed=mal, family=fam))
    return cases


# ---------------------------------------------------------------------------------------------
# the C05 statements evaluated directly on the recorded implementation traces
# ---------------------------------------------------------------------------------------------
def close(a, b, tol=1e-9):
    return abs(a - b) <= tol * max(1.0, abs(a), abs(b))


def expected_infra(inp):
    out = dict(max=[], min=[], allow=[], cont=[])
    for st in inp["net"]["stations"]:
        k = st["kind"]
        if k[0] == "C":
            mx, mn, al, ct = k[2], k[1], [k[1], k[2]], True
        elif k[0] == "D":
            mx, mn, al, ct = k[2], 0, [k[1], k[2]], True
        else:
            rates = sorted(set(k[1]) | {0})
            pos = [r for r in rates if r > 0]
            mx, mn, al, ct = max(rates), (min(pos) if pos else 0), rates, False
        out["max"].append(float(mx)); out["min"].append(float(mn))
        out["allow"].append([float(x) for x in al]); out["cont"].append(ct)
    return out


def monitor_full(inp, impl, mut):
    if impl.get("stage") == "build":
        return None
    for tr in (impl, mut):
        if tr.get("flags"):
            return tr["flags"][0]
    if not same_trace(impl, mut):
        return "a scheduler that mutates the objects it receives changed the simulation"
    if impl["error"] == "unresumed":
        return "run() could not be resumed after the scheduler had raised"
    k = inp["max_recompute"]
    period = inp["period"]
    calls = impl["calls"]
    times = [c["t"] for c in calls]
    if len(set(times)) != len(times) or times != sorted(times):
        return "scheduler invoked more than once in a period"
    tags = [h[0] for h in impl["hist"]]
    rtags = [h[0] for h in impl["hist"] if h[1] in S.RESOLVING]      # bare / user-defined events request nothing
    n_periods = impl["iteration"] + (1 if impl["error"] is not None else 0)
    for t in range(n_periods):
        called = t in times
        if impl["error"] is not None and t == impl["iteration"] and not called:
            continue                      # the aborted period: the run may have raised before the call
        earlier = [u for u in times if u < t]
        want = (t in rtags) or (k is not None and (not earlier or t - earlier[-1] >= k))
        if called != want:
            return "period %d: scheduler %s although %s" % (t, "invoked" if called else "not invoked",
                                                           "no event and recompute not due" if not want else "it was required")
    nums = [st["num"] for st in inp["net"]["stations"]]
    n = len(nums)
    by_sid = {s["sid"]: s for s in inp["sessions"]}
    volt = {st["num"]: st["voltage"] for st in inp["net"]["stations"]}
    exp_infra = expected_infra(inp)
    for c in calls:
        t = c["t"]
        if c["n_hist"] != sum(1 for u in tags if u <= t):
            return "period %d: scheduler invoked before all of the period's events were processed" % t
        if c["dt"] != S.START + timedelta(minutes=period) * t:
            return "period %d: current_datetime %s" % (t, c["dt"])
        if c["period"] != period or c["max_recompute"] != k:
            return "period %d: period / max_recompute misreported" % t
        act = [x for x in c["truth"] if x["active"]]
        if [s["sid"] for s in c["sessions"]] != [x["sid"] for x in act]:
            return "period %d: active sessions %s, connected and unsatisfied %s" % (
                t, [s["sid"] for s in c["sessions"]], [x["sid"] for x in act])
        for s, x, ap in zip(c["sessions"], act, c["amp_periods"]):
            inp_s = by_sid.get(s["sid"])
            if inp_s is None:
                return "period %d: unknown session %s" % (t, s["sid"])
            if len([y for y in inp["sessions"] if y["sid"] == s["sid"]]) > 1:
                continue                  # duplicate ids (malformed stream): which record is meant is ambiguous
            est = inp_s["est"] if inp_s["est"] is not None else inp_s["departure"]
            if (s["station"] != nums[x["idx"]] or s["station"] != inp_s["station"] or s["req"] != inp_s["req"]
                    or s["arr"] != inp_s["arrival"] or s["dep"] != inp_s["departure"] or s["est"] != est or s["time"] != t):
                return "period %d: SessionInfo of %s does not describe the session" % (t, s["sid"])
            rem = max(min(s["dep"] - s["arr"], s["dep"] - t), 0)
            if s["remaining"] != rem or s["offset"] != max(s["arr"] - t, 0) or s["n_min"] != rem or s["n_max"] != rem:
                return "period %d: derived SessionInfo fields of %s" % (t, s["sid"])
            if s["deliv"] != x["energy"]:
                return "period %d: energy_delivered of %s is %r, the EV holds %r" % (t, s["sid"], s["deliv"], x["energy"])
            # the ledger: energy = sum of the actual rates since arrival
            ledger = sum(impl["rates"][u][x["idx"]] * volt[s["station"]] / 1000 * (period / 60)
                         for u in range(max(inp_s["arrival"], 0), min(t, len(impl["rates"]))))
            if t <= len(impl["rates"]) and not close(ledger, s["deliv"], 1e-7):
                return "period %d: energy_delivered of %s is %r, the rates add up to %r" % (t, s["sid"], s["deliv"], ledger)
            want_ap = x["rd"] * 1000 / volt[s["station"]] * 60 / period
            if not close(ap, want_ap, 1e-9):
                return "period %d: remaining_amp_periods of %s is %r, remaining demand gives %r" % (t, s["sid"], ap, want_ap)
        want_rates = [(x["sid"], x["rate"]) for x in act]
        if c["last_rates"] != want_rates:
            return "period %d: last_actual_charging_rate %s, true %s" % (t, c["last_rates"], want_rates)
        if c["evs_accessor"] != [(x["sid"], x["energy"], x["rate"]) for x in act]:
            return "period %d: Interface.active_evs reports %s, true %s" % (t, c["evs_accessor"], [(x["sid"], x["energy"], x["rate"]) for x in act])
        if t >= 2:
            want_p = [(x["sid"], c["truth_pilots"][x["idx"]]) for x in act if x["arrival"] <= t - 1]
        else:
            want_p = []
        if c["last_pilots"] != want_p:
            return "period %d: last_applied_pilot_signals %s, true %s" % (t, c["last_pilots"], want_p)
        if c["peak"] != c["truth_peak"]:
            return "period %d: get_prev_peak %r, simulator peak %r" % (t, c["peak"], c["truth_peak"])
        agg = max([0.0] + [sum(col) for col in impl["rates"][:t]])
        if t <= len(impl["rates"]) and not close(agg, c["peak"], 1e-9):
            return "period %d: get_prev_peak %r, rates so far peak at %r" % (t, c["peak"], agg)
        i = c["infra"]
        if (i["ids"] != nums or i["voltages"] != [float(st["voltage"]) for st in inp["net"]["stations"]]
                or i["phases"] != [float(st["phase"]) for st in inp["net"]["stations"]]):
            return "period %d: infrastructure ids / voltages / phases %s %s" % (t, i["ids"], i["voltages"])
        if i["max"] != exp_infra["max"] or i["min"] != exp_infra["min"] or i["allow"] != exp_infra["allow"] or i["cont"] != exp_infra["cont"]:
            return "period %d: infrastructure pilot limits / allowable pilots" % t
        cons = c["expected_constraints"]          # the harness's own record of the constraints in force
        if i["cmat"] != S.cmat_of(cons, n) or i["limits"] != [float(cc["limit"]) for cc in cons] \
                or i["cids"] != [cc["num"] for cc in cons]:
            return "period %d: constraint matrix / limits / names: shown %s %s, in force %s %s" % (
                t, i["cids"], i["limits"], [cc["num"] for cc in cons], [float(cc["limit"]) for cc in cons])
        g = c["constraints"]
        if g["cmat"] != i["cmat"] or g["limits"] != i["limits"] or g["cids"] != i["cids"] or g["ids"] != i["ids"]:
            return "period %d: get_constraints() differs from infrastructure_info()" % t
        for j, (ap, mx, mn, vv, ph) in enumerate(c["per_station"]):
            if (list(ap[1]) != i["allow"][j] or bool(ap[0]) != i["cont"][j] or mx != i["max"][j] or mn != i["min"][j]
                    or vv != i["voltages"][j] or ph != i["phases"][j]):
                return "period %d: per-station accessor of station %s differs from infrastructure_info()" % (t, nums[j])
    return None


def monitor(case):
    return case.get("monitor")


def both(inp):
    return S.run_impl(inp), S.run_impl(inp, mutate=True)


def full_monitor(inp):
    impl, mut = both(inp)
    r = monitor_full(inp, impl, mut)
    if not r and "twin_trace" in impl and "twin_trace" in mut:
        r = monitor_full(dict(inp["twin"], family="twin"), impl["twin_trace"], mut["twin_trace"])
    return r, impl


def search(rng, budget_s, broken):
    t0 = time.time()
    fams = [None, None, None, "reuse", "twin", "resume", "netupdate", "deepcopy", "sibling"]
    while time.time() - t0 < budget_s:
        inp = S.gen_input(rng, "quick", family=rng.choice(fams))
        r, impl = full_monitor(inp)
        if r:
            inp, r = shrink(inp, r)
            return dict(case=inp, impl=slim(S.run_impl(inp)), why=r)
    return None


def shrink(inp, why):
    changed = True
    while changed:
        changed = False
        for key in ("sessions", "recomputes", "others"):
            i = 0
            while i < len(inp[key]):
                cand = dict(inp)
                cand[key] = inp[key][:i] + inp[key][i + 1:]
                r, _ = full_monitor(cand)
                if r:
                    inp, why, changed = cand, r, True
                else:
                    i += 1
    return inp, why


def replay(w):
    inp = w["case"]
    if inp.get("family") == "twin" and "twin" not in inp:
        inp = dict(inp, family="plain")
    return full_monitor(inp)[0]
