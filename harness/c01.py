"""C01 — every session is plugged in and unplugged exactly once; run() terminates."""
import json
import os
import subprocess
import sys
import time

from harness.core import z, coq_bool, coq_opt, coq_str
from harness import simcommon as S

PID = "C01"
GEN_GROUPS = ["Sim", "SimParams", "EvseZ"]
TARGETS = ["coq/Props/C01.vo", "coq/Model/SimIface.vo"]
CASES = {"quick": 300, "thorough": 5000}
CORR_HEADER = ("From Coq Require Import ZArith QArith List String.\n"
               "From ACN Require Import Base.Num Model.EVSE Model.SimSkel Model.SimIface.\nImport ListNotations.\n"
               "Open Scope string_scope.\nOpen Scope Z_scope.\n")
CHECK_FN = "check_c01"
SHARD = 19
RULE = ("1-8 stations of mixed EVSE classes (registration order != id order; id styles: zero-padded, S-9/S-10/S-11, numeric-looking, "
        "mixed case, falsy '' and '0'), optional constraints, 0-25 sessions built per station without overlap with back-to-back reuse and "
        "simultaneous arrivals/departures each forced with probability 1/2 (10% lockstep sets), optional extra RecomputeEvents, "
        "max_recompute in {None,0,1,2,3,5}, period in {0.5,1,2.5,5,7,15}, int / float / numpy-typed session fields and schedules, "
        "schedulers: empty / zero / random valid scripted schedules / UncontrolledCharging / SortedSchedulingAlgo(FCFS) (returned "
        "schedules are replayed to the model). Families, each compared with the model of the input alone: plain; reuse (a prelude "
        "simulation is first run on the SAME network, EventQueue and scheduler objects); twin (a second simulator with the same "
        "station ids / constraint names but other values is built first and run to completion inside one scheduler call); resume "
        "(the scheduler raises Exception / BaseException subclasses at chosen calls and run() is called again); netupdate (constraints "
        "changed in place between scheduler calls); sharedid (one session id on two stations); 15% malformed (unknown station, overlap, "
        "departure<=arrival, estimate<=arrival, duplicate (id, station)); ~10 valid cases are re-run in a second process with another "
        "PYTHONHASHSEED. The recording hooks also check: network.get_ev / active_station_ids, no current on a vacant station, the "
        "event list given to EventQueue and the schedule dict returned by the scheduler are not modified, objects handed out earlier "
        "do not change later. Family sibling: an earlier experiment on a separately built network with the same station ids (EVSEs of the site types come from get_evse_by_type) is aborted by a scheduler fault with EVs plugged in, then the input runs on a freshly built network (which must be vacant). 15% of histories use a user-defined EVEvent subclass labelled 'Plugin' for half of the arrivals. Orthogonal options: in 20% the scheduler object has already served another Simulator and is installed with update_scheduler(); 30% of histories also contain bare acnsim.Event / user-defined Event subclasses incl. one labelled 'Recompute' that must trigger the scheduler (own precedence, unknown event_type; also after the last departure); 20% build the Simulator around a still empty EventQueue that the caller fills afterwards through its own reference (sim.event_queue must be that object); family deepcopy (the freshly built simulator is duplicated with copy.deepcopy, the copy is run first, then the original); the resume family continues on the same object, on a deep copy, or on a to_json/from_json reload of the interrupted simulator. distinct = distinct (stations, sessions, recomputes, max_recompute, scheduler kind/seed, family, id style); "
        "ambiguous (skipped by the model comparison, still monitored) = a remaining demand within 1e-7 of the 1e-3 threshold (incl. the "
        "deliberate on-threshold / one-ulp sessions) or a raising plugin that shares its timestamp with another plugin (C11)")
ASSUMPTIONS = ["the pending queue is modelled as a stably sorted list; CPython heapq order inside groups of equal (timestamp, precedence) "
               "is canonicalised on both sides (C11 proves heapq)",
               "schedulers are modelled as arbitrary functions of the view; in the correspondence the schedules returned by the real "
               "algorithms are replayed",
               "batteries in the correspondence are the ideal Battery class"]
TRUSTED_EXTRA = ["tools/sim_params.py (event constants), py2coq additive extensions used by tools/anchors.d/sim.py "
                 "(typed sub-expression parameters, stmt_path, effect constructors / setitem effects, if-narrowing)"]
MALFORMED = ["unknown_station", "overlap", "bad_departure", "bad_estimate", "duplicate_id"]


def tie_ambiguous(inp, impl):
    """the run raised while processing an event that shares (timestamp, type) with another one"""
    if impl["error"] is None or not impl["hist"]:
        return False
    if impl["error"] not in ("StationOccupiedError", "KeyError"):
        return False
    last = impl["hist"][-1]
    same = [s for s in inp["sessions"] if s["arrival"] == last[2]]
    return last[1] == "Plugin" and len(same) > 1


def case_of(inp, impl):
    amb = impl["min_margin"] < 1e-7 or tie_ambiguous(inp, impl) or impl.get("stage") == "build"
    coq = ("(mkC01 %s\n  %s %s\n  %s %s %s)" % (
        S.input_coq(inp, impl), coq_opt(impl["error"], coq_str), S.hist_coq(impl["hist"]), S.occ_coq(impl["occ"]),
        z(impl["iteration"]), coq_bool(impl["qempty"])))
    fam = inp.get("family", "plain")
    kind = ("malformed/" + inp["malformed"]) if inp["malformed"] else ("sharedid/" + inp["sched"]["kind"]) if inp.get("shared_ids") else ("%s/%s" % ("valid" if fam == "plain" else fam, inp["sched"]["kind"]))
    slim = dict(error=impl["error"], hist=impl["hist"], occ=impl["occ"], iteration=impl["iteration"], qempty=impl["qempty"],
                final_occ=impl["final_occ"], n_calls=len(impl["calls"]), rates=impl["rates"], flags=impl.get("flags", []),
                n_raised=impl.get("n_raised", 0))
    return dict(input=inp, impl=slim, coq=coq, ambiguous=amb, kind=kind,
                sig=[inp["net"], inp["sessions"], inp["recomputes"], inp.get("others"), inp["max_recompute"], inp["sched"], fam, inp.get("idstyle"),
                     inp.get("late_fill")],
                nontrivial=len(inp["sessions"]) > 0)


def make_cases(inp):
    """one case per simulation: the twin family yields two"""
    impl = S.run_impl(inp)
    out = [case_of(inp, impl)]
    if "twin_trace" in impl:
        out.append(case_of(dict(inp["twin"], family="twin"), impl["twin_trace"]))
    return out


FAMILIES = [("reuse", 0.07), ("twin", 0.05), ("resume", 0.08), ("netupdate", 0.04), ("deepcopy", 0.05), ("sibling", 0.05)]


def gen_cases(rng, n, tier):
    specs = [(rng.choice(MALFORMED), None) for _ in range((n * 3) // 20)]
    for fam, frac in FAMILIES:
        specs += [(None, fam)] * max(1, int(n * frac))
    specs += [(None, None)] * max(0, n - len(specs) - sum(1 for _, f in specs if f == "twin"))   # a twin yields two cases
    rng.shuffle(specs)
    cases = []
    for mal, fam in specs:
        cases += make_cases(S.gen_input(rng, tier, malformed=mal, family=fam,
                                        shared_ids=(mal is None and rng.random() < 0.12)))
    hash_family(rng, cases)
    return cases


def hash_family(rng, cases):
    """the same inputs in a second process with another PYTHONHASHSEED must give the same traces"""
    from harness import hashrun
    picked = [c for c in cases if c["input"].get("family") == "plain" and not c["input"]["malformed"]
              and c["impl"]["error"] is None and len(c["input"]["sessions"]) >= 3][:10]
    if not picked:
        return
    env = dict(os.environ, PYTHONHASHSEED=str(rng.randrange(1, 4000000)))
    try:
        p = subprocess.run([sys.executable, "-m", "harness.hashrun"], input=json.dumps([c["input"] for c in picked]),
                           capture_output=True, text=True, env=env, timeout=300)
        theirs = json.loads(p.stdout)
    except Exception as e:      # noqa
        picked[0]["hash_flag"] = "second process failed: %r" % (e,)
        return
    for c, d in zip(picked, theirs):
        mine = json.loads(json.dumps(hashrun.digest(S.run_impl(json.loads(json.dumps(c["input"]))))))
        if mine != d:
            c["hash_flag"] = "trace differs in a process with PYTHONHASHSEED=%s" % env["PYTHONHASHSEED"]
        c["kind"] += "+hashseed"


def monitor(case):
    if case.get("hash_flag"):
        return case["hash_flag"]
    return S.monitor_c01(case["input"], case["impl"])


def search(rng, budget_s, broken):
    t0 = time.time()
    fams = [None, None, None, "reuse", "twin", "resume", "netupdate", "deepcopy", "sibling"]
    while time.time() - t0 < budget_s:
        inp = S.gen_input(rng, "quick", family=rng.choice(fams), shared_ids=rng.random() < 0.3)
        impl = S.run_impl(inp)
        r = full_monitor(inp, impl)
        if r:
            if S.monitor_c01(inp, impl):
                inp, impl, r = shrink(inp, impl, r)
            return dict(case=inp, impl=dict(error=impl["error"], hist=impl["hist"], occ=impl["occ"],
                                            iteration=impl["iteration"], qempty=impl["qempty"]), why=r)
    return None


def full_monitor(inp, impl):
    r = S.monitor_c01(inp, impl)
    if not r and "twin_trace" in impl:
        r = S.monitor_c01(dict(inp["twin"], family="twin"), impl["twin_trace"])
    return r


def shrink(inp, impl, why):
    """drop sessions / recomputes while the monitor still fails"""
    changed = True
    while changed:
        changed = False
        for key in ("sessions", "recomputes", "others"):
            i = 0
            while i < len(inp[key]):
                cand = dict(inp)
                cand[key] = inp[key][:i] + inp[key][i + 1:]
                ci = S.run_impl(cand)
                r = S.monitor_c01(cand, ci)
                if r:
                    inp, impl, why, changed = cand, ci, r, True
                else:
                    i += 1
    return inp, impl, why


def replay(w):
    inp = w["case"]
    if inp.get("family") == "twin" and "twin" not in inp:      # the nested twin on its own
        inp = dict(inp, family="plain")
    return full_monitor(inp, S.run_impl(inp))
