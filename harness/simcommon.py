"""Shared by harness/c01.py and harness/c05.py: structured generator of networks / session sets /
schedulers, the run of the REAL acnportal Simulator with recording hooks (a ChargingNetwork subclass
overriding post_charging_update, a recording BaseAlgorithm), and the emission of Coq terms for
Model/SimIface.v."""
import copy
import fractions
import itertools
from datetime import datetime, timedelta

from harness.core import q, z, coq_list, coq_bool, coq_opt, coq_str

F = fractions.Fraction
START = datetime(2021, 3, 1, 6, 30, 0)
TYPE_CODE = {"Plugin": 0, "Unplug": 1, "Recompute": 2}
EXPECTED_RANK = {"Unplug": 0, "Plugin": 1, "Recompute": 2}      # the order the property demands
NUMERIC_ERRORS = ("InvalidRateError", "InvalidScheduleError")   # raised because of what the scheduler returned


# ---------------------------------------------------------------------------------------------
# generation
# ---------------------------------------------------------------------------------------------
def gen_network(rng, n_st=None):
    n = n_st or rng.choice([1, 2, 2, 3, 3, 4, 5, 6, 8])
    nums = rng.sample(range(1, 60), n)          # station numbers: registration order != numeric order
    stations = []
    for num in nums:
        t = rng.random()
        if t < 0.4:
            kind = ("C", 0, rng.choice([16, 32, 32, 40, 80]))
        elif t < 0.6:
            kind = ("D", rng.choice([6, 8]), rng.choice([32, 32, 40]))
        elif t < 0.8:
            kind = ("F", tuple([0] + list(range(6, 33))))            # AeroVironment
        else:
            kind = ("F", tuple(rng.choice([[0, 8, 16, 24, 32], [32, 16, 8], [6, 12.5, 30]])))
        stations.append(dict(num=num, kind=kind, voltage=rng.choice([120, 208, 208, 240, 277]),
                             phase=rng.choice([0, 30, -30, 150, -90, 90, 180])))
    constraints = []
    if rng.random() < 0.5:
        for ci in range(rng.randint(1, 3)):
            members = rng.sample(range(n), rng.randint(1, n))
            coeffs = {m: rng.choice([1, 1, -1, 0.5]) for m in sorted(members)}
            constraints.append(dict(num=ci + 1, coeffs=coeffs, limit=rng.choice([1000, 400, 50, 64.5])))
    return dict(stations=stations, constraints=constraints)


def gen_sessions(rng, net, n_max=25, horizon=36):
    """mostly valid: per-station non-overlapping intervals; back-to-back reuse and simultaneous
    arrivals/departures are each forced with probability 1/2"""
    n_st = len(net["stations"])
    if rng.random() < 0.1:
        return lockstep_sessions(rng, net, n_max, horizon)
    n = rng.choice([0, 1, 2, 3, 5, 8, 12, 16, 20, n_max])
    free_from = [0] * n_st           # first period at which the station is free again
    times = []                       # arrivals and departures so far
    sessions = []
    sid_pool = rng.sample(range(1, 500), n + 1)
    for k in range(n):
        s = rng.randrange(n_st)
        lo = free_from[s]
        if lo >= horizon:
            cand = [i for i in range(n_st) if free_from[i] < horizon]
            if not cand:
                break
            s = rng.choice(cand)
            lo = free_from[s]
        arr = None
        if rng.random() < 0.5 and sessions and free_from[s] > 0:
            arr = lo                                        # back-to-back reuse of the space
        elif rng.random() < 0.5:
            cands = [t for t in times if lo <= t < horizon]
            if cands:
                arr = rng.choice(cands)                     # simultaneous with another event
        if arr is None:
            arr = rng.randint(lo, min(horizon - 1, lo + 6))
        dur = rng.choice([1, 1, 2, 3, 4, 6, 9])
        dep = arr + dur
        if rng.random() < 0.5:
            cands = [t for t in times if t > arr and t <= arr + 10]
            if cands:
                dep = rng.choice(cands)                     # simultaneous departure / arrival
        free_from[s] = dep
        times += [arr, dep]
        req = rng.choice([0.0, 0.0005, 0.002, 0.05, 0.3, 1.0, 2.5, 10.0, rng.uniform(0.01, 6)])
        margin = rng.choice([0, 0, 0.5, 5, 40])
        cap = rng.choice([req + margin, max(0.01, req * rng.choice([0.5, 0.9])), 60.0])
        init = rng.choice([0, 0, cap * 0.25, max(0, cap - req)]) if cap > 0 else 0
        est = rng.choice([None, None, dep, dep + 2, max(arr + 1, dep - 1)])
        sessions.append(dict(sid=sid_pool[k], station=net["stations"][s]["num"], arrival=arr, departure=dep,
                             est=est, req=float(req), cap=float(max(cap, 0.01)), init=float(min(init, max(cap, 0.01))),
                             maxp=rng.choice([3.3, 6.6, 7.0, 20.0])))
    rng.shuffle(sessions)
    return sessions


def lockstep_sessions(rng, net, n_max, horizon):
    """maximal ties: every station turns over at the same instants k*d (all departures and all
    arrivals of a boundary share one timestamp), back-to-back on every station"""
    d = rng.choice([1, 2, 3, 5])
    sessions = []
    pool = rng.sample(range(1, 500), n_max + 1)
    k = 0
    while len(sessions) < n_max and (k + 1) * d <= horizon:
        for st in net["stations"]:
            if len(sessions) < n_max and rng.random() < 0.85:
                req = rng.choice([0.0, 0.05, 0.3, 1.0, 2.5])
                sessions.append(dict(sid=pool[len(sessions)], station=st["num"], arrival=k * d, departure=(k + 1) * d,
                                     est=None, req=float(req), cap=float(req + rng.choice([0, 5])) or 0.01, init=0.0,
                                     maxp=rng.choice([3.3, 6.6, 20.0])))
        k += 1
    rng.shuffle(sessions)
    return sessions


def gen_recomputes(rng, sessions, horizon):
    out = []
    if rng.random() < 0.4:
        times = [s["arrival"] for s in sessions] + [s["departure"] for s in sessions]
        for _ in range(rng.randint(1, 3)):
            if times and rng.random() < 0.5:
                out.append(rng.choice(times))
            else:
                out.append(rng.randint(0, horizon + 4))
    return out


def make_malformed(rng, net, sessions, how):
    """turn a valid session set into one the simulator must reject (or that violates `valid`)"""
    sessions = [dict(s) for s in sessions]
    arrivals = [s["arrival"] for s in sessions]
    # prefer an offending plugin that does not share its timestamp with another plugin: which of several
    # simultaneous plugins is processed first depends on heapq internals (C11) and such cases are skipped
    lonely = [s for s in sessions if arrivals.count(s["arrival"]) == 1]
    if how == "unknown_station":
        victim = rng.choice(lonely if lonely and rng.random() < 0.8 else sessions)
        victim["station"] = 777
    elif how == "overlap":
        base = rng.choice(sessions)
        used = {s["sid"] for s in sessions}
        new = dict(base)
        new["sid"] = max(used) + 1
        lo, hi = base["arrival"], base["departure"] - 1
        free = [t for t in range(lo, hi + 1) if t not in arrivals]
        new["arrival"] = rng.choice(free) if free and rng.random() < 0.8 else rng.randint(lo, hi)
        new["departure"] = new["arrival"] + rng.choice([1, 2, 5])
        new["est"] = None
        sessions.append(new)
    elif how == "bad_departure":
        victim = rng.choice(sessions)
        victim["departure"] = victim["arrival"] - rng.choice([0, 0, 1, 3])
        victim["est"] = None
    elif how == "bad_estimate":
        victim = rng.choice(sessions)
        victim["est"] = victim["arrival"] - rng.choice([0, 1])
    elif how == "duplicate_id":
        if len(sessions) >= 2:
            a, b = rng.sample(sessions, 2)
            b["sid"] = a["sid"]
    return sessions


def gen_input(rng, tier="quick", malformed=None):
    net = gen_network(rng)
    horizon = 36 if tier == "quick" else 60
    sessions = gen_sessions(rng, net, horizon=horizon)
    if malformed:
        while not sessions:
            sessions = gen_sessions(rng, net, horizon=horizon)
        sessions = make_malformed(rng, net, sessions, malformed)
    recomputes = gen_recomputes(rng, sessions, horizon)
    sched_kind = rng.choice(["zero", "empty", "scripted", "scripted", "uncontrolled", "fcfs"])
    if sched_kind == "fcfs":
        # the sorted algorithms allocate any rate in [0, max] on a "continuous" station; on a
        # DeadbandEVSE that is rejected (InvalidRateError, C07/C13 territory) and the run aborts
        # early, so FCFS runs use plain EVSEs in place of deadband ones
        for st in net["stations"]:
            if st["kind"][0] == "D":
                st["kind"] = ("C", 0, st["kind"][2])
    return dict(net=net, sessions=sessions, recomputes=recomputes,
                max_recompute=rng.choice([None, 1, 2, 5]), period=rng.choice([1, 5, 15]),
                sched=dict(kind=sched_kind, seed=rng.randrange(10 ** 9)), malformed=malformed)


# ---------------------------------------------------------------------------------------------
# building the real objects
# ---------------------------------------------------------------------------------------------
def st_name(num):
    return "ST-%03d" % num


def sess_name(num):
    return "sess-%d" % num


def make_evse(st):
    from acnportal.acnsim.models import EVSE, DeadbandEVSE, FiniteRatesEVSE
    kind = st["kind"]
    name = st_name(st["num"])
    if kind[0] == "C":
        return EVSE(name, max_rate=kind[2], min_rate=kind[1])
    if kind[0] == "D":
        return DeadbandEVSE(name, deadband_end=kind[1], max_rate=kind[2])
    return FiniteRatesEVSE(name, list(kind[1]))


def allowable(kind):
    if kind[0] == "C":
        return None
    if kind[0] == "D":
        return None
    return sorted(set(kind[1]) | {0})


def random_pilot(rng, kind):
    if kind[0] == "C":
        return rng.choice([0, kind[2], rng.randint(0, kind[2]), round(rng.uniform(0, kind[2]), 3), kind[2] / 2])
    if kind[0] == "D":
        return rng.choice([0, kind[1], kind[2], rng.randint(kind[1], kind[2]), round(rng.uniform(kind[1], kind[2]), 2)])
    return rng.choice(sorted(set(kind[1]) | {0}))


class RunawayLoop(Exception):
    """raised by the recording network when run() is still iterating long after the last event"""


class Recorder:
    """state shared between the recording network and the recording scheduler"""

    def __init__(self):
        self.sim = None
        self.occ = []          # (period, [session id or None per station], len(event_history))
        self.calls = []
        self.min_margin = 1.0  # min distance of a connected EV's remaining demand from the 1e-3 threshold


def build(inp, rec, mutate=False):
    """construct network / events / scheduler for one input; returns (sim, sessions_by_name)"""
    import random
    from acnportal.acnsim import Simulator
    from acnportal.acnsim.network import ChargingNetwork, Current
    from acnportal.acnsim.events import EventQueue, PluginEvent, RecomputeEvent
    from acnportal.acnsim.models import EV, Battery
    from acnportal.algorithms import BaseAlgorithm, UncontrolledCharging, SortedSchedulingAlgo, first_come_first_served

    limit = max([0] + [max(s["arrival"], s["departure"]) for s in inp["sessions"]] + list(inp["recomputes"])) + 60

    class RecNet(ChargingNetwork):
        def post_charging_update(self):      # the designed hook
            sim = rec.sim
            rec.occ.append((sim._iteration,
                            [evse.ev.session_id if evse.ev is not None else None for evse in self._EVSEs.values()],
                            len(sim.event_history)))
            if sim._iteration > limit:       # run() must end one period after the last event (C01)
                raise RunawayLoop("still running at period %d" % sim._iteration)

    net = RecNet()
    for st in inp["net"]["stations"]:
        net.register_evse(make_evse(st), st["voltage"], st["phase"])
    names = [st_name(st["num"]) for st in inp["net"]["stations"]]
    for c in inp["net"]["constraints"]:
        net.add_constraint(Current({names[i]: v for i, v in c["coeffs"].items()}), c["limit"], name="C%d" % c["num"])

    events = []
    for s in inp["sessions"]:
        ev = EV(s["arrival"], s["departure"], s["req"], st_name(s["station"]), sess_name(s["sid"]),
                Battery(s["cap"], s["init"], s["maxp"]), estimated_departure=s["est"])
        events.append(PluginEvent(s["arrival"], ev))
    for t in inp["recomputes"]:
        events.append(RecomputeEvent(t))

    kind = inp["sched"]["kind"]
    srng = random.Random(inp["sched"]["seed"])
    inner = None
    if kind == "uncontrolled":
        inner = UncontrolledCharging()
    elif kind == "fcfs":
        inner = SortedSchedulingAlgo(first_come_first_served)
    stations = inp["net"]["stations"]

    class RecAlgo(BaseAlgorithm):
        def __init__(self):
            super().__init__()
            self.max_recompute = inp["max_recompute"]

        def register_interface(self, interface):
            super().register_interface(interface)
            if inner is not None:
                inner.register_interface(interface)

        def schedule(self, active_sessions):
            iface = self.interface
            sim = rec.sim
            # ---- ground truth, read directly from the simulator's objects (not through the interface)
            truth = []
            for idx, evse in enumerate(sim.network._EVSEs.values()):
                ev = evse.ev
                if ev is not None:
                    rd = ev.requested_energy - ev.energy_delivered
                    rec.min_margin = min(rec.min_margin, abs(rd - 1e-3))
                    truth.append(dict(idx=idx, sid=ev.session_id, energy=ev.energy_delivered, rate=ev.current_charging_rate,
                                      arrival=ev.arrival, active=rd > 1e-3))
            # ---- what the interface shows
            info = iface.infrastructure_info()
            cons = iface.get_constraints()
            view = dict(
                t=iface.current_time, dt=iface.current_datetime, n_hist=len(sim.event_history),
                sessions=[dict(station=s.station_id, sid=s.session_id, req=s.requested_energy, deliv=s.energy_delivered,
                               arr=s.arrival, dep=s.departure, est=s.estimated_departure, time=s.current_time,
                               remaining=s.remaining_time, offset=s.arrival_offset,
                               n_min=len(s.min_rates), n_max=len(s.max_rates)) for s in active_sessions],
                last_pilots=list(iface.last_applied_pilot_signals.items()),
                last_rates=list(iface.last_actual_charging_rate.items()),
                peak=iface.get_prev_peak(),
                infra=dict(ids=list(info.station_ids), voltages=[float(x) for x in info.voltages],
                           phases=[float(x) for x in info.phases], max=[float(x) for x in info.max_pilot],
                           min=[float(x) for x in info.min_pilot],
                           allow=[[float(y) for y in a] for a in info.allowable_pilots],
                           cont=[bool(x) for x in info.is_continuous],
                           cmat=[[float(y) for y in row] for row in info.constraint_matrix],
                           limits=[float(x) for x in info.constraint_limits], cids=list(info.constraint_ids)),
                constraints=dict(cmat=[[float(y) for y in row] for row in cons.constraint_matrix],
                                 limits=[float(x) for x in cons.magnitudes], cids=list(cons.constraint_index),
                                 ids=list(cons.evse_index)),
                per_station=[(iface.allowable_pilot_signals(n), float(iface.max_pilot_signal(n)), float(iface.min_pilot_signal(n)),
                              float(iface.evse_voltage(n)), float(iface.evse_phase(n))) for n in info.station_ids],
                truth=truth,
                truth_pilots=[float(sim.pilot_signals[i, sim._iteration - 1]) if sim._iteration >= 1 else 0.0
                              for i in range(len(names))],
                truth_peak=float(sim.peak), period=iface.period, max_recompute=iface.max_recompute_time)
            # ---- the schedule
            if kind == "empty":
                sched = {}
            elif kind == "zero":
                L = srng.choice([1, 2, 5])
                sched = {s.station_id: [0] * L for s in active_sessions}
            elif kind == "scripted":
                L = srng.choice([1, 1, 2, 3, 6])
                chosen = [st for st in stations if srng.random() < 0.7]
                sched = {st_name(st["num"]): [random_pilot(srng, st["kind"]) for _ in range(L)] for st in chosen}
            else:
                sched = inner.schedule(active_sessions)
            sched = {k: [float(x) for x in v] for k, v in sched.items()}
            view["schedule"] = copy.deepcopy(sched)
            rec.calls.append(view)
            if mutate:
                mutate_everything(iface, active_sessions, info, cons)
            return sched

    alg = RecAlgo()
    from acnportal.acnsim.events import EventQueue as EQ
    sim = Simulator(net, alg, EQ(events), START, period=inp["period"], verbose=False)
    rec.sim = sim
    return sim


def mutate_everything(iface, active_sessions, info, cons):
    """overwrite every field of every object a scheduler can get hold of through the public Interface"""
    import numpy as np
    import warnings
    for s in active_sessions:
        for attr in ("station_id", "session_id"):
            setattr(s, attr, "mutated")
        for attr in ("requested_energy", "energy_delivered"):
            setattr(s, attr, 1e9)
        s.arrival, s.departure, s.estimated_departure, s.current_time = -5, 10 ** 6, 10 ** 6, 10 ** 6
        s.min_rates = np.full(3, 1e9)
        s.max_rates = np.full(3, -1.0)
    active_sessions.clear()
    for obj in (info, iface.infrastructure_info()):
        for name in ("constraint_matrix", "constraint_limits", "phases", "voltages", "max_pilot", "min_pilot", "is_continuous"):
            arr = getattr(obj, name)
            try:
                arr[...] = 1e9 if arr.dtype != bool else False
            except (ValueError, TypeError):
                pass
        for a in obj.allowable_pilots:
            if a is not None:
                a[...] = 1e9
        obj.allowable_pilots.clear()
        obj.constraint_ids.clear()
        obj.station_ids.clear()
        obj._station_ids_dict.clear()
    for c in (cons, iface.get_constraints()):
        c.constraint_matrix[...] = 1e9
        c.magnitudes[...] = 1e9
        c.constraint_index.clear()
        c.evse_index.clear()
    with warnings.catch_warnings():
        warnings.simplefilter("ignore")
        for ev in iface.active_evs:          # deprecated accessor: deep copies of the EV objects
            ev._energy_delivered = 1e9
            ev._current_charging_rate = 1e9
            ev._arrival, ev._departure = -5, 10 ** 6
            ev._station_id = "mutated"
            ev._session_id = "mutated"
            ev._battery._current_charge = 1e9
            ev._battery._capacity = 1e-9
    d = iface.last_applied_pilot_signals
    d.clear()
    d2 = iface.last_actual_charging_rate
    d2["mutated"] = 1e9


def normalise(inp):
    """undo what a JSON round trip does to an input (int dict keys become strings)"""
    for c in inp["net"]["constraints"]:
        c["coeffs"] = {int(k): v for k, v in c["coeffs"].items()}
    return inp


def run_impl(inp, mutate=False):
    """run the real Simulator; returns the recorded trace (json-able)"""
    inp = normalise(inp)
    rec = Recorder()
    err = None
    err_stage = None
    try:
        sim = build(inp, rec, mutate=mutate)
    except Exception as e:      # noqa  (construction errors are part of the observable behaviour)
        return dict(error=type(e).__name__, stage="build", hist=[], occ=[], iteration=0, qempty=False, calls=[],
                    rates=[], energy=[], peak=0.0, final_occ=[], min_margin=1.0)
    try:
        sim.run()
    except Exception as e:      # noqa
        err = type(e).__name__
        err_stage = "run"
    hist = []
    for e in sim.event_history:
        sidn = getattr(getattr(e, "ev", None), "session_id", None)
        hist.append((e.event_type, int(e.timestamp), sidn))
    # period in which each event was processed: from len(event_history) seen at each post_charging_update
    tags = []
    prev = 0
    for (t, _, n) in rec.occ:
        tags += [t] * (n - prev)
        prev = n
    tags += [int(sim._iteration)] * (len(hist) - prev)      # the aborted period
    n_done = len(rec.occ)
    rates = [[float(x) for x in sim.charging_rates[:, t]] for t in range(min(n_done, sim.charging_rates.shape[1]))]
    energy = [(sidn, float(ev.energy_delivered)) for sidn, ev in sim.ev_history.items()]
    return dict(error=err, stage=err_stage,
                hist=[(tags[i],) + hist[i] for i in range(len(hist))],
                occ=[(t, o) for (t, o, _) in rec.occ], iteration=int(sim._iteration), qempty=bool(sim.event_queue.empty()),
                calls=rec.calls, rates=rates, energy=energy, peak=float(sim.peak),
                final_occ=[evse.ev.session_id if evse.ev is not None else None for evse in sim.network._EVSEs.values()],
                min_margin=rec.min_margin,
                pilots_width=int(sim.pilot_signals.shape[1]))


# ---------------------------------------------------------------------------------------------
# Coq terms
# ---------------------------------------------------------------------------------------------
def sess_num(name):
    return -1 if name is None else int(name.split("-")[1])


def st_num(name):
    return int(name.split("-")[1])


def kind_coq(kind):
    if kind[0] == "C":
        return "(Continuous %s %s)" % (q(kind[1]), q(kind[2]))
    if kind[0] == "D":
        return "(Deadband %s %s)" % (q(kind[1]), q(kind[2]))
    return "(Finite %s)" % coq_list([q(r) for r in kind[1]])


def session_coq(s):
    est = s["est"] if s["est"] is not None else s["departure"]
    return "(mkSession %s %s %s %s %s %s %s %s %s)" % (
        z(s["sid"]), z(s["station"]), z(s["arrival"]), z(s["departure"]), z(est),
        q(s["req"]), q(s["cap"]), q(s["init"]), q(s["maxp"]))


def expected_cmat(net):
    n = len(net["stations"])
    return [[float(c["coeffs"].get(j, 0)) for j in range(n)] for c in net["constraints"]]


def net_coq(inp):
    net = inp["net"]
    sts = coq_list(["(mkStation %s %s %s %s)" % (z(st["num"]), kind_coq(st["kind"]), q(st["voltage"]), q(st["phase"]))
                    for st in net["stations"]])
    cmat = coq_list([coq_list([q(x) for x in row]) for row in expected_cmat(net)])
    return "(mkNet %s %s %s %s %s)" % (sts, q(inp["period"]), cmat,
                                       coq_list([q(c["limit"]) for c in net["constraints"]]),
                                       coq_list([z(c["num"]) for c in net["constraints"]]))


def schedule_coq(sched):
    return coq_list(["(%s, %s)" % (z(st_num(k)), coq_list([q(x) for x in v])) for k, v in sched.items()])


def input_coq(inp, impl):
    evs = ["(EPlugin %s %s)" % (z(s["arrival"]), session_coq(s)) for s in inp["sessions"]]
    evs += ["(ERecompute %s)" % z(t) for t in inp["recomputes"]]
    scheds = coq_list(["(%s, %s)" % (z(c["t"]), schedule_coq(c["schedule"])) for c in impl["calls"]])
    return "(mkInput %s %s %s %s)" % (net_coq(inp), coq_opt(inp["max_recompute"], z), coq_list(evs), scheds)


def canon_hist(hist):
    """(period, type, ts, session) -> (period, code, ts, session number), maximal runs of equal
    (period, code, ts) sorted by session number (heap order inside such a run is C11's business)"""
    rows = [(t, TYPE_CODE.get(ty, -1), ts, sess_num(s)) for (t, ty, ts, s) in hist]
    out = []
    for _, grp in itertools.groupby(rows, key=lambda r: r[:3]):
        out += sorted(grp, key=lambda r: r[3])
    return out


def hist_coq(hist):
    return coq_list(["(%s, %s, %s, %s)" % tuple(z(x) for x in r) for r in canon_hist(hist)])


def occ_coq(occ):
    return coq_list(["(%s, %s)" % (z(t), coq_list([z(sess_num(s)) for s in row])) for (t, row) in occ])


# ---------------------------------------------------------------------------------------------
# the C01 statements evaluated on a recorded implementation trace (monitor)
# ---------------------------------------------------------------------------------------------
def is_valid_input(inp):
    nums = {st["num"] for st in inp["net"]["stations"]}
    ss = inp["sessions"]
    if len({s["sid"] for s in ss}) != len(ss):
        return False
    for s in ss:
        if s["station"] not in nums or not (0 <= s["arrival"] < s["departure"]):
            return False
    for a, b in itertools.combinations(ss, 2):
        if a["station"] == b["station"] and not (a["departure"] <= b["arrival"] or b["departure"] <= a["arrival"]):
            return False
    return all(t >= 0 for t in inp["recomputes"])


def monitor_c01(inp, impl):
    """None, or a description of which part of C01 the recorded run violates.  Only for valid inputs."""
    if not is_valid_input(inp):
        return None
    if impl["error"] is not None:
        if impl["error"] in NUMERIC_ERRORS or (impl["error"] == "ValueError" and any(
                s["est"] is not None and s["est"] <= s["arrival"] for s in inp["sessions"])):
            return None                        # the scheduler's schedule was rejected: C04/C13, not C01
        return "run() raised %s on a valid session set" % impl["error"]
    if not impl["qempty"]:
        return "event queue not empty after run()"
    if any(o is not None for o in impl["final_occ"]):
        return "a station is still occupied after run()"
    hist = impl["hist"]
    for s in inp["sessions"]:
        name = sess_name(s["sid"])
        plug = [h for h in hist if h[1] == "Plugin" and h[3] == name]
        unpl = [h for h in hist if h[1] == "Unplug" and h[3] == name]
        if len(plug) != 1 or plug[0][0] != s["arrival"]:
            return "session %s plugged %d times / in period %s (arrival %d)" % (name, len(plug), [h[0] for h in plug], s["arrival"])
        if len(unpl) != 1 or unpl[0][0] != s["departure"]:
            return "session %s unplugged %d times / in period %s (departure %d)" % (name, len(unpl), [h[0] for h in unpl], s["departure"])
    keys = [(h[2], EXPECTED_RANK[h[1]]) for h in hist]
    if keys != sorted(keys):
        return "event_history is not ordered by (time, departures < arrivals < recomputes)"
    if any(h[0] != h[2] for h in hist):
        return "an event was processed in a period other than its timestamp"
    names = [st_name(st["num"]) for st in inp["net"]["stations"]]
    periods = [t for (t, _) in impl["occ"]]
    if periods != list(range(impl["iteration"])):
        return "charging step did not run exactly once per period"
    for (t, row) in impl["occ"]:
        for j, nm in enumerate(names):
            want = [sess_name(s["sid"]) for s in inp["sessions"]
                    if st_name(s["station"]) == nm and s["arrival"] <= t < s["departure"]]
            want = want[0] if want else None
            if row[j] != want:
                return "period %d station %s: connected %s, expected %s" % (t, nm, row[j], want)
    last = max([h[2] for h in hist], default=-1)
    if impl["iteration"] != last + 1:
        return "final iteration %d, last event at %d" % (impl["iteration"], last)
    return None
