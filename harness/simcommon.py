"""Shared by harness/c01.py and harness/c05.py: structured generator of networks / session sets /
schedulers, the run of the REAL acnportal Simulator with recording hooks (a ChargingNetwork subclass
overriding post_charging_update, a recording BaseAlgorithm), and the emission of Coq terms for
Model/SimIface.v.

Scenario families (inp["family"]); every family is compared with the model of the *input alone*:
  plain     one fresh network / queue / scheduler / simulator
  reuse     inp["prelude"] is first run to completion on the SAME ChargingNetwork, EventQueue and
            scheduler objects, which are then refilled / reconfigured and given to a new Simulator
  twin      inp["twin"] has the same station ids and constraint names but other values; both simulators
            are built first, and the twin is run completely INSIDE one scheduler call of the main one
  resume    the scheduler raises (Exception or BaseException subclass) at chosen invocations and run()
            is called again on the same objects until it returns
  netupdate constraints are changed in place (update/add/remove_constraint) at the end of chosen
            scheduler calls; later views must show the new description
  sibling   an earlier experiment on a separately built network with the same station ids (EVSEs from the
            site factory get_evse_by_type) is aborted by a scheduler fault with EVs plugged in; then the input
            is run on a freshly built network
  deepcopy  the freshly built Simulator is duplicated with copy.deepcopy; the COPY is run first (it must
            behave like the model and be bound to its own scheduler / interface / network), then the original
Orthogonal options: inp["via_update"] (the scheduler object has already been registered with another
Simulator and is installed with Simulator.update_scheduler()), inp["late_fill"] (the Simulator is built around a still empty EventQueue that the
caller fills afterwards through its own reference), inp["others"] (bare acnsim.Event and user-defined
Event subclasses in the queue, also after the last departure), inp["copy_on_resume"] (resume family: the
interrupted simulator is deep-copied between two run() calls and the copy is resumed).
All recorded identifiers are mapped back to the numbers of the input (Names), whatever id style is used."""
import copy
import fractions
import itertools
import math
import random
from datetime import datetime, timedelta

from harness.core import q, z, coq_list, coq_bool, coq_opt, coq_str

F = fractions.Fraction
START = datetime(2021, 3, 1, 6, 30, 0)
TYPE_CODE = {"Plugin": 0, "Unplug": 1, "Recompute": 2, "": 3, "Maintenance": 4, "Tick": 5}
# the order the property demands (departures < arrivals < recomputes); the other kinds by their own precedence
EXPECTED_RANK = {"Unplug": 0, "Maintenance": 0.5, "Plugin": 1, "Recompute": 2, "Tick": 3, "": 4}
RESOLVING = ("Plugin", "Unplug", "Recompute")
# queue entries the simulator does not dispatch on: (class, precedence as encoded for the model, event_type)
# "replan": a user-defined direct subclass of Event LABELLED "Recompute" (e.g. a tariff change that forces a
# re-plan): the simulator dispatches on the label, so it must trigger the scheduler like a RecomputeEvent
OTHER_KINDS = {"bare": (10 ** 9, ""), "maint": (5, "Maintenance"), "tick": (30, "Tick"), "replan": (25, "Recompute")}
NUMERIC_ERRORS = ("InvalidRateError", "InvalidScheduleError")   # raised because of what the scheduler returned


# ---------------------------------------------------------------------------------------------
# generation
# ---------------------------------------------------------------------------------------------
def gen_network(rng, n_st=None):
    n = n_st or rng.choice([1, 2, 2, 3, 3, 4, 5, 6, 8])
    nums = rng.sample(range(1, 60), n)          # station numbers: registration order != numeric order
    stations = []
    for num in nums:
        t = rng.random()
        if t < 0.4:
            kind = ("C", 0, rng.choice([16, 32, 32, 40, 80]))
        elif t < 0.6:
            kind = ("D", rng.choice([6, 8]), rng.choice([32, 32, 40]))
        elif t < 0.8:
            kind = ("F", tuple([0] + list(range(6, 33))))            # AeroVironment
        else:
            kind = ("F", tuple(rng.choice([[0, 8, 16, 24, 32], [32, 16, 8], [6, 12.5, 30]])))
        stations.append(dict(num=num, kind=kind, voltage=rng.choice([120, 208, 208, 240, 277]),
                             phase=rng.choice([0, 30, -30, 150, -90, 90, 180])))
    constraints = []
    if rng.random() < 0.5:
        for ci in range(rng.randint(1, 3)):
            members = rng.sample(range(n), rng.randint(1, n))
            coeffs = {m: rng.choice([1, 1, -1, 0.5]) for m in sorted(members)}
            constraints.append(dict(num=ci + 1, coeffs=coeffs, limit=rng.choice([1000, 400, 50, 64.5])))
    return dict(stations=stations, constraints=constraints)


def gen_sessions(rng, net, n_max=25, horizon=36):
    """mostly valid: per-station non-overlapping intervals; back-to-back reuse and simultaneous
    arrivals/departures are each forced with probability 1/2"""
    n_st = len(net["stations"])
    if rng.random() < 0.1:
        return lockstep_sessions(rng, net, n_max, horizon)
    n = rng.choice([0, 1, 2, 3, 5, 8, 12, 16, 20, n_max])
    free_from = [0] * n_st           # first period at which the station is free again
    times = []                       # arrivals and departures so far
    sessions = []
    sid_pool = rng.sample(range(1, 500), n + 1)
    for k in range(n):
        s = rng.randrange(n_st)
        lo = free_from[s]
        if lo >= horizon:
            cand = [i for i in range(n_st) if free_from[i] < horizon]
            if not cand:
                break
            s = rng.choice(cand)
            lo = free_from[s]
        arr = None
        if rng.random() < 0.5 and sessions and free_from[s] > 0:
            arr = lo                                        # back-to-back reuse of the space
        elif rng.random() < 0.5:
            cands = [t for t in times if lo <= t < horizon]
            if cands:
                arr = rng.choice(cands)                     # simultaneous with another event
        if arr is None:
            arr = rng.randint(lo, min(horizon - 1, lo + 6))
        dur = rng.choice([1, 1, 2, 3, 4, 6, 9])
        dep = arr + dur
        if rng.random() < 0.5:
            cands = [t for t in times if t > arr and t <= arr + 10]
            if cands:
                dep = rng.choice(cands)                     # simultaneous departure / arrival
        free_from[s] = dep
        times += [arr, dep]
        req = rng.choice([0.0, 0.0005, 0.002, 0.05, 0.3, 1.0, 2.5, 10.0, rng.uniform(0.01, 6)])
        margin = rng.choice([0, 0, 0.5, 5, 40])
        cap = rng.choice([req + margin, max(0.01, req * rng.choice([0.5, 0.9])), 60.0])
        init = rng.choice([0, 0, cap * 0.25, max(0, cap - req)]) if cap > 0 else 0
        est = rng.choice([None, None, dep, dep + 2, max(arr + 1, dep - 1)])
        sessions.append(dict(sid=sid_pool[k], station=net["stations"][s]["num"], arrival=arr, departure=dep,
                             est=est, req=float(req), cap=float(max(cap, 0.01)), init=float(min(init, max(cap, 0.01))),
                             maxp=rng.choice([3.3, 6.6, 7.0, 20.0])))
    rng.shuffle(sessions)
    return sessions


def lockstep_sessions(rng, net, n_max, horizon):
    """maximal ties: every station turns over at the same instants k*d (all departures and all
    arrivals of a boundary share one timestamp), back-to-back on every station"""
    d = rng.choice([1, 2, 3, 5])
    sessions = []
    pool = rng.sample(range(1, 500), n_max + 1)
    k = 0
    while len(sessions) < n_max and (k + 1) * d <= horizon:
        for st in net["stations"]:
            if len(sessions) < n_max and rng.random() < 0.85:
                req = rng.choice([0.0, 0.05, 0.3, 1.0, 2.5])
                sessions.append(dict(sid=pool[len(sessions)], station=st["num"], arrival=k * d, departure=(k + 1) * d,
                                     est=None, req=float(req), cap=float(req + rng.choice([0, 5])) or 0.01, init=0.0,
                                     maxp=rng.choice([3.3, 6.6, 20.0])))
        k += 1
    rng.shuffle(sessions)
    return sessions


def gen_recomputes(rng, sessions, horizon):
    out = []
    if rng.random() < 0.4:
        times = [s["arrival"] for s in sessions] + [s["departure"] for s in sessions]
        for _ in range(rng.randint(1, 3)):
            if times and rng.random() < 0.5:
                out.append(rng.choice(times))
            else:
                out.append(rng.randint(0, horizon + 4))
    return out


def make_malformed(rng, net, sessions, how):
    """turn a valid session set into one the simulator must reject (or that violates `valid`)"""
    sessions = [dict(s) for s in sessions]
    arrivals = [s["arrival"] for s in sessions]
    # prefer an offending plugin that does not share its timestamp with another plugin: which of several
    # simultaneous plugins is processed first depends on heapq internals (C11) and such cases are skipped
    lonely = [s for s in sessions if arrivals.count(s["arrival"]) == 1]
    if how == "unknown_station":
        victim = rng.choice(lonely if lonely and rng.random() < 0.8 else sessions)
        victim["station"] = 777
    elif how == "overlap":
        base = rng.choice(sessions)
        used = {s["sid"] for s in sessions}
        new = dict(base)
        new["sid"] = max(used) + 1
        lo, hi = base["arrival"], base["departure"] - 1
        free = [t for t in range(lo, hi + 1) if t not in arrivals]
        new["arrival"] = rng.choice(free) if free and rng.random() < 0.8 else rng.randint(lo, hi)
        new["departure"] = new["arrival"] + rng.choice([1, 2, 5])
        new["est"] = None
        sessions.append(new)
    elif how == "bad_departure":
        victim = rng.choice(sessions)
        victim["departure"] = victim["arrival"] - rng.choice([0, 0, 1, 3])
        victim["est"] = None
    elif how == "bad_estimate":
        victim = rng.choice(sessions)
        victim["est"] = victim["arrival"] - rng.choice([0, 1])
    elif how == "duplicate_id":
        if len(sessions) >= 2:
            a, b = rng.sample(sessions, 2)
            b["sid"] = a["sid"]
    return sessions


ID_STYLES = ["pad", "pad", "dash", "num", "mixed", "falsy"]


def gen_input(rng, tier="quick", malformed=None, family=None, shared_ids=False):
    net = gen_network(rng)
    horizon = 36 if tier == "quick" else 60
    sessions = gen_sessions(rng, net, horizon=horizon)
    if malformed:
        while not sessions:
            sessions = gen_sessions(rng, net, horizon=horizon)
        sessions = make_malformed(rng, net, sessions, malformed)
    recomputes = gen_recomputes(rng, sessions, horizon)
    others = []
    if rng.random() < 0.3:
        times = [s["arrival"] for s in sessions] + [s["departure"] for s in sessions]
        last = max(times + recomputes + [0])
        for _ in range(rng.randint(1, 3)):
            c = rng.random()
            t = last + rng.randint(1, 5) if c < 0.4 else (rng.choice(times) if times and c < 0.7 else rng.randint(0, horizon))
            others.append([t, rng.choice(["bare", "bare", "maint", "tick", "replan", "replan"])])
    sched_kind = rng.choice(["zero", "empty", "scripted", "scripted", "uncontrolled", "fcfs"])
    if sched_kind == "fcfs":
        # the sorted algorithms allocate any rate in [0, max] on a "continuous" station; on a
        # DeadbandEVSE that is rejected (InvalidRateError, C07/C13 territory) and the run aborts
        # early, so FCFS runs use plain EVSEs in place of deadband ones
        for st in net["stations"]:
            if st["kind"][0] == "D":
                st["kind"] = ("C", 0, st["kind"][2])
    inp = dict(net=net, sessions=sessions, recomputes=recomputes,
               # 0: "recompute every period"; periods that do not divide 60 and fractional periods
               max_recompute=rng.choice([None, 1, 2, 5, None, 1, 2, 5, 0, 3]),
               period=rng.choice([1, 5, 15, 1, 5, 15, 7, 2.5, 0.5]),
               sched=dict(kind=sched_kind, seed=rng.randrange(10 ** 9)), malformed=malformed,
               idstyle=rng.choice(ID_STYLES), family=family or "plain",
               np_types=rng.random() < 0.3, others=others,
               late_fill=(family != "reuse" and rng.random() < 0.2), fill_one_by_one=rng.random() < 0.5,
               guest_plugins=rng.random() < 0.15,
               # the scheduler object has already served ANOTHER Simulator and is installed with update_scheduler()
               via_update=rng.random() < 0.2)
    if family == "resume":
        how = rng.choice(["same", "copy", "json"])       # resume the same object / a deep copy / a JSON reload
        inp["copy_on_resume"] = how == "copy"
        inp["json_on_resume"] = how == "json"
        if how == "json":
            inp["np_types"] = False                      # numpy scalars are not JSON-serialisable
    if shared_ids and not malformed and len({s["station"] for s in sessions}) >= 2:
        # unusual but legal: one session id used on two different stations (ids numbered per station,
        # merged batches), preferably by sessions that are connected at the same time
        pairs = [(a, b) for a in sessions for b in sessions if a["station"] != b["station"] and a["sid"] < b["sid"]]
        live = [(a, b) for a, b in pairs if a["arrival"] < b["departure"] and b["arrival"] < a["departure"]
                and a["arrival"] != b["arrival"]]
        for _ in range(rng.choice([1, 1, 2])):
            a, b = rng.choice(live or pairs)
            if len({(x["sid"], x["station"]) for x in sessions} - {(b["sid"], b["station"])} | {(a["sid"], b["station"])}) == len(sessions):
                b["sid"] = a["sid"]
        inp["shared_ids"] = True
    if not malformed and sessions and rng.random() < 0.06:
        # remaining demand exactly on / one ulp around the 1e-3 activity threshold (monitors only: the
        # exact-arithmetic model is skipped within 1e-7 of a float decision threshold)
        victim = rng.choice(sessions)
        victim["req"] = rng.choice([1e-3, math.nextafter(1e-3, 1), math.nextafter(1e-3, 0)])
        victim["cap"], victim["init"] = 10.0, 0.0
    if family == "reuse":
        pre = gen_input(rng, tier)
        pre["net"] = copy.deepcopy(net)
        pre["idstyle"] = inp["idstyle"]
        pre["sessions"] = gen_sessions(rng, net, horizon=horizon // 2)
        pre["recomputes"] = gen_recomputes(rng, pre["sessions"], horizon // 2)
        pre["sched"]["kind"] = rng.choice(["zero", "scripted", "uncontrolled"])
        pre["family"] = "plain"
        inp["prelude"] = pre
    elif family == "sibling":
        # an earlier experiment on a separately BUILT network with the same station ids (not a deep copy),
        # aborted by a scheduler fault while EVs are plugged in; then this one on a freshly built network
        pre = gen_input(rng, tier)
        pre["net"] = copy.deepcopy(net)
        pre["idstyle"] = inp["idstyle"]
        pre["sessions"] = gen_sessions(rng, net, horizon=horizon // 2)
        while not pre["sessions"]:
            pre["sessions"] = gen_sessions(rng, net, horizon=horizon // 2)
        pre["recomputes"], pre["others"] = [], []
        pre["sched"]["kind"] = rng.choice(["zero", "scripted", "uncontrolled"])
        pre["family"] = "plain"
        pre["raise_at"] = [rng.choice([1, 1, 2, 3])]
        pre["raise_kind"] = rng.choice(["Exception", "BaseException"])
        pre["abort"] = True
        inp["prelude"] = pre
    elif family == "twin":
        tw = gen_input(rng, tier)
        tnet = copy.deepcopy(net)
        for st in tnet["stations"]:            # same ids, other values
            st["voltage"] = rng.choice([v for v in [120, 208, 240, 277] if v != st["voltage"]])
            st["phase"] = rng.choice([p for p in [0, 30, -30, 150, 90] if p != st["phase"]])
            if rng.random() < 0.5:
                pass                                   # same EVSE type (factory-built types stay factory-built)
            elif st["kind"][0] in "CD":
                st["kind"] = (st["kind"][0], st["kind"][1], st["kind"][2] + rng.choice([8, 16]))
            else:
                st["kind"] = ("F", tuple(rng.choice([[0, 8, 16, 24, 32, 48], [10, 20], [6, 12.5, 30, 31]])))
        for c in tnet["constraints"]:          # same names, other limits / coefficients
            c["limit"] = c["limit"] / 2 + 3
            c["coeffs"] = {m: -v for m, v in c["coeffs"].items()}
        tw["net"] = tnet
        tw["idstyle"] = inp["idstyle"]
        tw["sessions"] = gen_sessions(rng, tnet, horizon=horizon // 2, n_max=10)
        tw["recomputes"] = gen_recomputes(rng, tw["sessions"], horizon // 2)
        if tw["sched"]["kind"] == "fcfs":
            tw["sched"]["kind"] = "uncontrolled"
        tw["family"] = "plain"
        inp["twin"] = tw
        inp["twin_at"] = rng.choice([0, 1, 2, 3])
    elif family == "resume":
        inp["raise_at"] = sorted(set(rng.choice([0, 0, 1, 2, 3, 5, 8, 13]) for _ in range(rng.randint(1, 3))))
        inp["raise_kind"] = rng.choice(["Exception", "BaseException"])
    elif family == "netupdate":
        ups = []
        cur = [dict(c) for c in net["constraints"]]
        next_num = max([c["num"] for c in cur] + [0]) + 1
        n = len(net["stations"])
        for k in sorted(set(rng.choice([0, 1, 2, 3, 5]) for _ in range(rng.randint(1, 3)))):
            how = rng.choice(["limit", "limit", "add", "remove"]) if cur else "add"
            if how == "limit":                # update_constraint under the same name: remove + append
                j = rng.randrange(len(cur))
                c = dict(cur.pop(j))
                c["limit"] = rng.choice([c["limit"] / 2, c["limit"] + 7.5, 33])
                cur.append(c)
                ups.append(dict(at=k, how="limit", num=c["num"], coeffs=c["coeffs"], limit=c["limit"]))
            elif how == "add":
                members = rng.sample(range(n), rng.randint(1, n))
                c = dict(num=next_num, coeffs={m: rng.choice([1, -1, 0.5]) for m in sorted(members)},
                         limit=rng.choice([500, 80.5]))
                next_num += 1
                cur.append(c)
                ups.append(dict(at=k, how="add", num=c["num"], coeffs=c["coeffs"], limit=c["limit"]))
            else:
                j = rng.randrange(len(cur))
                c = cur.pop(j)
                ups.append(dict(at=k, how="remove", num=c["num"]))
        inp["net_updates"] = ups
    return inp


# ---------------------------------------------------------------------------------------------
# identifiers
# ---------------------------------------------------------------------------------------------
class Names:
    """station / session / constraint numbers of an input  <->  the identifiers given to acnportal.
    Styles: zero-padded, `S-9 S-10 S-11` (lexicographic != numeric), numeric-looking, mixed case, and
    one with the falsy ids "" and "0"."""

    def __init__(self, inp):
        style = inp.get("idstyle", "pad")
        st_nums = [st["num"] for st in inp["net"]["stations"]]
        sess_nums = []
        for key in ("sessions",):
            sess_nums += [s["sid"] for s in inp[key]]
        c_nums = [c["num"] for c in inp["net"]["constraints"]] + [u["num"] for u in inp.get("net_updates", [])]
        self.st, self.sess, self.cid = {}, {}, {}
        for i, n in enumerate(st_nums):
            self.st[n] = {"pad": "ST-%03d" % n, "dash": "S-%d" % n, "num": "%d" % n,
                          "mixed": ("a%d", "B%d", "Ab%d")[i % 3] % n,
                          "falsy": "" if i == 0 else ("0" if i == 1 else "st%d" % n)}[style]
        for i, n in enumerate(dict.fromkeys(sess_nums)):
            self.sess[n] = {"pad": "sess-%d" % n, "dash": "%d" % n, "num": "s%d" % n,
                            "mixed": ("X%d", "x%dy")[i % 2] % n,
                            "falsy": "" if i == 0 else ("0" if i == 1 else "e%d" % n)}[style]
        for i, n in enumerate(dict.fromkeys(c_nums)):
            self.cid[n] = {"pad": "C%d" % n, "dash": "C-%d" % n, "num": "%d" % n, "mixed": ("lim%d", "LIM%d")[i % 2] % n,
                           "falsy": "" if i == 0 else "c%d" % n}[style]
        self.st_inv = {v: k for k, v in self.st.items()}
        self.sess_inv = {v: k for k, v in self.sess.items()}
        self.cid_inv = {v: k for k, v in self.cid.items()}

    def station(self, num):            # unknown station of the malformed stream
        return self.st.get(num, "nowhere-%d" % num)

    def st_num(self, name):
        return self.st_inv.get(name, -999)

    def sess_num(self, name):
        return -1 if name is None else self.sess_inv.get(name, -999)

    def cid_num(self, name):
        return self.cid_inv.get(name, -999)


def make_evse(st, name):
    from acnportal.acnsim.models import EVSE, DeadbandEVSE, FiniteRatesEVSE
    from acnportal.acnsim.models.evse import get_evse_by_type, BASIC, AV, CC
    kind = st["kind"]
    # the station types of the predefined sites come from the factory, as in the site constructors
    if tuple(kind) == ("C", 0, 32):
        return get_evse_by_type(name, BASIC)
    if kind[0] == "F" and list(kind[1]) == [0] + list(range(6, 33)):
        return get_evse_by_type(name, AV)
    if kind[0] == "F" and list(kind[1]) == [0, 8, 16, 24, 32]:
        return get_evse_by_type(name, CC)
    if kind[0] == "C":
        return EVSE(name, max_rate=kind[2], min_rate=kind[1])
    if kind[0] == "D":
        return DeadbandEVSE(name, deadband_end=kind[1], max_rate=kind[2])
    return FiniteRatesEVSE(name, list(kind[1]))


def random_pilot(rng, kind):
    if kind[0] == "C":
        return rng.choice([0, kind[2], rng.randint(0, kind[2]), round(rng.uniform(0, kind[2]), 3), kind[2] / 2])
    if kind[0] == "D":
        return rng.choice([0, kind[1], kind[2], rng.randint(kind[1], kind[2]), round(rng.uniform(kind[1], kind[2]), 2)])
    return rng.choice(sorted(set(kind[1]) | {0}))


class RunawayLoop(Exception):
    """raised by the recording network when run() is still iterating long after the last event"""


class Boom(Exception):
    """the scripted scheduler failure of the resume family"""


class HardStop(BaseException):
    """... as a BaseException subclass (like KeyboardInterrupt)"""


class Recorder:
    """what the recording network and the recording scheduler write down for ONE simulation"""

    def __init__(self, inp, nm, mutate=False):
        self.inp, self.nm, self.mutate = inp, nm, mutate
        self.sim = None
        self.limit = max([0] + [max(s["arrival"], s["departure"]) for s in inp["sessions"]] + list(inp["recomputes"])
                         + [o[0] for o in inp.get("others", ())]) + 60
        self.occ = []          # (period, [session number or -1 per station], len(event_history))
        self.calls = []
        self.min_margin = 1.0  # min distance of a connected EV's remaining demand from the 1e-3 threshold
        self.flags = []        # violations noticed while recording (aliasing, arguments mutated, accessors)
        self.raised = set()
        self.n_raised = 0
        self.held = []         # (description, object, digest function, digest at the time)
        self.kept_schedule = None
        self.srng = random.Random(inp["sched"]["seed"])
        self.constraints = [dict(c) for c in inp["net"]["constraints"]]   # the harness's own book-keeping
        self.nested = None     # callable run inside the scheduler call number inp["twin_at"]
        self.nested_done = False

    def flag(self, what):
        if what not in self.flags:
            self.flags.append(what)


def _acn():
    import acnportal.acnsim as acnsim                       # noqa
    from acnportal.acnsim.network import ChargingNetwork, Current
    from acnportal.acnsim.events import EventQueue, PluginEvent, RecomputeEvent
    from acnportal.acnsim.models import EV, Battery
    from acnportal.algorithms import BaseAlgorithm, UncontrolledCharging, SortedSchedulingAlgo, first_come_first_served
    return locals()


_CLASSES = {}


def classes():
    """RecNet / RecAlgo are created once per process (they subclass acnportal classes)"""
    if _CLASSES:
        return _CLASSES
    A = _acn()

    class RecNet(A["ChargingNetwork"]):
        rec = None

        def post_charging_update(self):      # the designed hook
            rec = self.rec
            sim = rec.sim
            nm = rec.nm
            evses = list(self._EVSEs.values())
            rec.occ.append((int(sim._iteration), [nm.sess_num(e.ev.session_id) if e.ev is not None else -1 for e in evses],
                            len(sim.event_history)))
            # other public entry points that report who is connected
            for sid_, e in zip(self.station_ids, evses):
                if self.get_ev(sid_) is not e.ev:
                    rec.flag("network.get_ev(%r) is not the EV connected to the EVSE" % (sid_,))
            want = [e.station_id for e in evses if e.ev is not None and (e.ev.requested_energy - e.ev.energy_delivered) > 1e-3]
            if list(self.active_station_ids) != want:
                rec.flag("network.active_station_ids %r, stations with an unsatisfied EV %r" % (self.active_station_ids, want))
            if sim._iteration > rec.limit:       # run() must end one period after the last event (C01)
                raise RunawayLoop("still running at period %d" % sim._iteration)

    class RecAlgo(A["BaseAlgorithm"]):
        rec = None
        inner = None

        def configure(self, rec):
            self.rec = rec
            self.max_recompute = rec.inp["max_recompute"]
            kind = rec.inp["sched"]["kind"]
            self.inner = None
            if kind == "uncontrolled":
                self.inner = A["UncontrolledCharging"]()
            elif kind == "fcfs":
                self.inner = A["SortedSchedulingAlgo"](A["first_come_first_served"])

        def register_interface(self, interface):
            super().register_interface(interface)
            if self.inner is not None:
                self.inner.register_interface(interface)

        def schedule(self, active_sessions):
            return record_and_schedule(self, active_sessions)

    from acnportal.acnsim.events import Event

    class Maint(Event):                     # user-defined events: the simulator has no branch for them
        def __init__(self, timestamp):
            super().__init__(timestamp)
            self.event_type = "Maintenance"
            self.precedence = 5

    class Tick(Event):
        def __init__(self, timestamp):
            super().__init__(timestamp)
            self.event_type = "Tick"
            self.precedence = 30

    class Replan(Event):                    # not a RecomputeEvent, but labelled like one
        def __init__(self, timestamp):
            super().__init__(timestamp)
            self.event_type = "Recompute"
            self.precedence = 25

    from acnportal.acnsim.events.event import EVEvent

    class GuestPlugin(EVEvent):             # not a PluginEvent, but labelled (and ordered) like one
        def __init__(self, timestamp, ev):
            super().__init__(timestamp, ev)
            self.event_type = "Plugin"
            self.precedence = 10

    # make the classes importable by dotted name, so that a JSON round trip (pydoc.locate) finds them
    for c in (RecNet, RecAlgo, Maint, Tick, Replan, GuestPlugin):
        c.__module__, c.__qualname__ = __name__, c.__name__
        globals()[c.__name__] = c
    _CLASSES.update(A)
    _CLASSES.update(RecNet=RecNet, RecAlgo=RecAlgo, GuestPlugin=GuestPlugin,
                    other=dict(bare=Event, maint=Maint, tick=Tick, replan=Replan))
    return _CLASSES


def infra_digest(info, nm):
    return dict(ids=[nm.st_num(x) for x in info.station_ids], voltages=[float(x) for x in info.voltages],
                phases=[float(x) for x in info.phases], max=[float(x) for x in info.max_pilot],
                min=[float(x) for x in info.min_pilot],
                allow=[[float(y) for y in a] for a in info.allowable_pilots],
                cont=[bool(x) for x in info.is_continuous],
                cmat=[[float(y) for y in row] for row in info.constraint_matrix],
                limits=[float(x) for x in info.constraint_limits], cids=[nm.cid_num(x) for x in info.constraint_ids])


def sessions_digest(active_sessions, nm):
    return [dict(station=nm.st_num(s.station_id), sid=nm.sess_num(s.session_id), req=float(s.requested_energy),
                 deliv=float(s.energy_delivered), arr=int(s.arrival), dep=int(s.departure), est=int(s.estimated_departure),
                 time=int(s.current_time), remaining=int(s.remaining_time), offset=int(s.arrival_offset),
                 n_min=len(s.min_rates), n_max=len(s.max_rates)) for s in active_sessions]


def typed(srng, x, np_types):
    """the same number as a python int / float / numpy scalar (what real algorithms return varies)"""
    import numpy as np
    if not np_types:
        return x
    c = srng.randrange(5)
    if float(x) == int(x) and c == 0:
        return int(x)
    if float(x) == int(x) and c == 1:
        return np.int64(int(x))
    if c == 2:
        return np.float64(x)
    if c == 3 and float(np.float32(x)) == float(x):
        return np.float32(x)
    return float(x)


def record_and_schedule(alg, active_sessions):
    import numpy as np
    import warnings
    rec = alg.rec
    inp, nm, sim, srng = rec.inp, rec.nm, rec.sim, rec.srng
    iface = alg.interface
    k = len(rec.calls)
    # ---- resume family: fail before anything is recorded
    if k in inp.get("raise_at", ()) and k not in rec.raised:
        rec.raised.add(k)
        rec.n_raised += 1
        raise (HardStop if inp.get("raise_kind") == "BaseException" else Boom)("scheduler failed at call %d" % k)
    # ---- the schedule returned last time belongs to the scheduler: the simulator must not have touched it,
    #      and the scheduler may overwrite it now without any effect on the simulation
    if rec.kept_schedule is not None:
        kept, kept_copy = rec.kept_schedule
        if not same_schedule(kept, kept_copy):
            rec.flag("the simulator modified the schedule object returned by the scheduler")
        if rec.mutate:
            for key in list(kept):
                v = kept[key]
                if isinstance(v, list):
                    v[:] = [1e9] * (len(v) + 2)
                elif isinstance(v, np.ndarray):
                    v[...] = 1e9
            kept["mutated"] = [1e9]
    # ---- ground truth, read directly from the simulator's objects (not through the interface)
    truth = []
    stations = inp["net"]["stations"]
    for idx, evse in enumerate(sim.network._EVSEs.values()):
        ev = evse.ev
        if ev is not None:
            rd = ev.requested_energy - ev.energy_delivered
            rec.min_margin = min(rec.min_margin, abs(rd - 1e-3))
            truth.append(dict(idx=idx, sid=nm.sess_num(ev.session_id), energy=float(ev.energy_delivered),
                              rate=float(ev.current_charging_rate), arrival=int(ev.arrival), active=bool(rd > 1e-3),
                              rd=float(rd)))
    # ---- what the interface shows
    info = iface.infrastructure_info()
    cons = iface.get_constraints()
    names = list(info.station_ids)
    with warnings.catch_warnings():
        warnings.simplefilter("ignore")
        evs_copy = iface.active_evs          # deprecated accessor
    view = dict(
        t=int(iface.current_time), dt=iface.current_datetime, n_hist=len(sim.event_history),
        sessions=sessions_digest(active_sessions, nm),
        last_pilots=[(nm.sess_num(a), float(b)) for a, b in iface.last_applied_pilot_signals.items()],
        last_rates=[(nm.sess_num(a), float(b)) for a, b in iface.last_actual_charging_rate.items()],
        peak=float(iface.get_prev_peak()),
        infra=infra_digest(info, nm),
        constraints=dict(cmat=[[float(y) for y in row] for row in cons.constraint_matrix],
                         limits=[float(x) for x in cons.magnitudes], cids=[nm.cid_num(x) for x in cons.constraint_index],
                         ids=[nm.st_num(x) for x in cons.evse_index]),
        per_station=[(iface.allowable_pilot_signals(n), float(iface.max_pilot_signal(n)), float(iface.min_pilot_signal(n)),
                      float(iface.evse_voltage(n)), float(iface.evse_phase(n))) for n in names],
        amp_periods=[float(iface.remaining_amp_periods(s)) for s in active_sessions],
        evs_accessor=[(nm.sess_num(e.session_id), float(e.energy_delivered), float(e.current_charging_rate)) for e in evs_copy],
        truth=truth,
        truth_pilots=[float(sim.pilot_signals[i, sim._iteration - 1]) if sim._iteration >= 1 else 0.0
                      for i in range(len(stations))],
        truth_peak=float(sim.peak), period=iface.period, max_recompute=iface.max_recompute_time,
        n_constraints_state=len(rec.constraints), expected_constraints=copy.deepcopy(rec.constraints))
    # ---- objects handed out earlier and still held by the scheduler must not change as the simulation goes on
    if not rec.mutate and len(rec.held) < 4:
        rec.held.append(("infrastructure_info() of call %d" % k, info, lambda o: infra_digest(o, nm), infra_digest(info, nm)))
        held_s = list(active_sessions)
        rec.held.append(("active_sessions() of call %d" % k, held_s, lambda o: sessions_digest(o, nm), sessions_digest(held_s, nm)))
    # ---- a second, different simulation run to completion inside this call (twin family)
    if rec.nested is not None and not rec.nested_done and k >= inp.get("twin_at", 0):
        rec.nested_done = True
        rec.nested()
    # ---- the schedule
    kind = inp["sched"]["kind"]
    if kind == "empty":
        sched = {}
    elif kind == "zero":
        L = srng.choice([1, 2, 5])
        sched = {s.station_id: [0] * L for s in active_sessions}
    elif kind == "scripted":
        L = srng.choice([1, 1, 2, 3, 6])
        chosen = [st for st in stations if srng.random() < 0.7]
        srng.shuffle(chosen)                                   # entry order of the mapping != station order
        sched = {}
        for st in chosen:
            row = [typed(srng, random_pilot(srng, st["kind"]), inp.get("np_types")) for _ in range(L)]
            c = srng.randrange(4) if inp.get("np_types") else 0
            sched[nm.station(st["num"])] = np.array([float(x) for x in row]) if c == 1 else (tuple(row) if c == 2 else row)
    else:
        sched = alg.inner.schedule(active_sessions)
    view["schedule"] = {nm.st_num(key): [float(x) for x in v] for key, v in sched.items()}
    rec.calls.append(view)
    rec.kept_schedule = (sched, copy.deepcopy(sched))
    # ---- constraints changed in place at the end of this call (netupdate family)
    for u in inp.get("net_updates", ()):
        if u["at"] == k:
            apply_net_update(sim.network, rec, u)
    if rec.mutate:
        mutate_everything(iface, active_sessions, info, cons)
    return sched


def same_schedule(a, b):
    import numpy as np
    if list(a.keys()) != list(b.keys()):
        return False
    return all(np.array_equal(np.asarray(a[key]), np.asarray(b[key])) for key in a)


def apply_net_update(network, rec, u):
    A = classes()
    nm = rec.nm
    names = [nm.station(st["num"]) for st in rec.inp["net"]["stations"]]
    cname = nm.cid[u["num"]]
    if u["how"] == "remove":
        network.remove_constraint(cname)
        rec.constraints = [c for c in rec.constraints if c["num"] != u["num"]]
        return
    cur = A["Current"]({names[int(i)]: v for i, v in u["coeffs"].items()})
    new = dict(num=u["num"], coeffs={int(i): v for i, v in u["coeffs"].items()}, limit=u["limit"])
    if u["how"] == "limit":
        network.update_constraint(cname, cur, u["limit"])
        rec.constraints = [c for c in rec.constraints if c["num"] != u["num"]] + [new]
    else:
        network.add_constraint(cur, u["limit"], name=cname)
        rec.constraints = rec.constraints + [new]


def mutate_everything(iface, active_sessions, info, cons):
    """overwrite every field of every object a scheduler can get hold of through the public Interface"""
    import numpy as np
    import warnings
    for s in active_sessions:
        for attr in ("station_id", "session_id"):
            setattr(s, attr, "mutated")
        for attr in ("requested_energy", "energy_delivered"):
            setattr(s, attr, 1e9)
        s.arrival, s.departure, s.estimated_departure, s.current_time = -5, 10 ** 6, 10 ** 6, 10 ** 6
        s.min_rates = np.full(3, 1e9)
        s.max_rates = np.full(3, -1.0)
    active_sessions.clear()
    for obj in (info, iface.infrastructure_info()):
        for name in ("constraint_matrix", "constraint_limits", "phases", "voltages", "max_pilot", "min_pilot", "is_continuous"):
            arr = getattr(obj, name)
            try:
                arr[...] = 1e9 if arr.dtype != bool else False
            except (ValueError, TypeError):
                pass
        for a in obj.allowable_pilots:
            if a is not None:
                a[...] = 1e9
        obj.allowable_pilots.clear()
        obj.constraint_ids.clear()
        obj.station_ids.clear()
        obj._station_ids_dict.clear()
    for c in (cons, iface.get_constraints()):
        c.constraint_matrix[...] = 1e9
        c.magnitudes[...] = 1e9
        c.constraint_index.clear()
        c.evse_index.clear()
    with warnings.catch_warnings():
        warnings.simplefilter("ignore")
        for ev in iface.active_evs:          # deprecated accessor: deep copies of the EV objects
            ev._energy_delivered = 1e9
            ev._current_charging_rate = 1e9
            ev._arrival, ev._departure = -5, 10 ** 6
            ev._station_id = "mutated"
            ev._session_id = "mutated"
            ev._battery._current_charge = 1e9
            ev._battery._capacity = 1e-9
    d = iface.last_applied_pilot_signals
    d.clear()
    d2 = iface.last_actual_charging_rate
    d2["mutated"] = 1e9
    for n in list(iface._simulator.network.station_ids)[:2]:
        ap = iface.allowable_pilot_signals(n)[1]
        ap[:] = [1e9]


def normalise(inp):
    """undo what a JSON round trip does to an input (int dict keys become strings)"""
    for c in inp["net"]["constraints"]:
        c["coeffs"] = {int(k): v for k, v in c["coeffs"].items()}
    for u in inp.get("net_updates", ()):
        if "coeffs" in u:
            u["coeffs"] = {int(k): v for k, v in u["coeffs"].items()}
    for key in ("prelude", "twin"):
        if key in inp:
            normalise(inp[key])
    return inp


def make_network(inp, nm):
    A = classes()
    net = A["RecNet"]()
    for st in inp["net"]["stations"]:
        net.register_evse(make_evse(st, nm.station(st["num"])), st["voltage"], st["phase"])
    names = [nm.station(st["num"]) for st in inp["net"]["stations"]]
    for c in inp["net"]["constraints"]:
        net.add_constraint(A["Current"]({names[i]: v for i, v in c["coeffs"].items()}), c["limit"], name=nm.cid[c["num"]])
    return net


def make_events(inp, nm):
    import numpy as np
    A = classes()
    npt = inp.get("np_types")
    events = []
    for j, s in enumerate(inp["sessions"]):
        arr, dep, req = s["arrival"], s["departure"], s["req"]
        if npt and j % 3 == 0:
            arr, dep = np.int64(arr), np.int64(dep)
        if npt and j % 3 == 1:
            req = np.float64(req) if req != int(req) else int(req)
        ev = A["EV"](arr, dep, req, nm.station(s["station"]), nm.sess[s["sid"]],
                     A["Battery"](s["cap"], s["init"], s["maxp"]), estimated_departure=s["est"])
        events.append((A["GuestPlugin"] if inp.get("guest_plugins") and j % 2 == 0 else A["PluginEvent"])(arr, ev))
    for j, t in enumerate(inp["recomputes"]):
        events.append(A["RecomputeEvent"](np.int64(t) if npt and j % 2 else t))
    for t, cls in inp.get("others", ()):
        events.append(A["other"][cls](t))
    return events


def build(inp, rec, shared=None):
    """network / queue / scheduler / Simulator for one input; `shared` = (net, queue, alg) to be reused"""
    A = classes()
    nm = rec.nm
    events = make_events(inp, nm)
    given = list(events)
    late = shared is None and inp.get("late_fill")
    if shared is None:
        net = make_network(inp, nm)
        eq = A["EventQueue"]() if late else A["EventQueue"](events)
        alg = A["RecAlgo"]()
    else:
        net, eq, alg = shared
        eq.add_events(events)
    net.rec = rec
    alg.configure(rec)
    if inp.get("via_update"):
        if alg._interface is None:          # make the algorithm object one that another simulator has used
            rec.decoy = A["acnsim"].Simulator(make_network(inp, nm), alg, A["EventQueue"](), START + timedelta(days=3),
                                              period=inp["period"], verbose=False)
        sim = A["acnsim"].Simulator(net, None, eq, START, period=inp["period"], verbose=False)
        sim.update_scheduler(alg)
        if alg._interface._simulator is not sim or sim.max_recompute != inp["max_recompute"]:
            rec.flag("after update_scheduler() the scheduler's interface does not point at this simulator")
    else:
        sim = A["acnsim"].Simulator(net, alg, eq, START, period=inp["period"], verbose=False)
    if late:            # the caller keeps its own reference to the (still empty) queue and fills it now
        if inp.get("fill_one_by_one"):
            for e in events:
                eq.add_event(e)
        else:
            eq.add_events(events)
    if sim.event_queue is not eq:
        rec.flag("Simulator.event_queue is not the EventQueue object it was given")
    if len(events) != len(given) or any(a is not b for a, b in zip(events, given)):
        rec.flag("EventQueue modified the list of events it was given")
    events.clear()                                 # the caller's list is the caller's
    rec.sim = sim
    return sim, (net, eq, alg)


def trace_of(sim, rec, err, stage):
    nm = rec.nm
    hist = []
    for e in sim.event_history:
        ev = getattr(e, "ev", None)
        hist.append((e.event_type, int(e.timestamp), nm.sess_num(ev.session_id) if ev is not None else -1,
                     nm.st_num(ev.station_id) if ev is not None else -1))
    tags, prev = [], 0
    for (t, _, n) in rec.occ:        # period in which each event was processed
        tags += [t] * (n - prev)
        prev = n
    tags += [int(sim._iteration)] * (len(hist) - prev)      # the aborted period
    n_done = len(rec.occ)
    rates = [[float(x) for x in sim.charging_rates[:, t]] for t in range(min(n_done, sim.charging_rates.shape[1]))]
    energy = [(nm.sess_num(k), float(ev.energy_delivered)) for k, ev in sim.ev_history.items()]
    for what, obj, dig, before in rec.held:
        if dig(obj) != before:
            rec.flag("%s changed after it was handed out" % what)
    return dict(error=err, stage=stage, hist=[(tags[i],) + hist[i] for i in range(len(hist))],
                occ=[(t, o) for (t, o, _) in rec.occ], iteration=int(sim._iteration), qempty=bool(sim.event_queue.empty()),
                calls=rec.calls, rates=rates, energy=energy, peak=float(sim.peak),
                final_occ=[nm.sess_num(e.ev.session_id) if e.ev is not None else -1 for e in sim.network._EVSEs.values()],
                min_margin=rec.min_margin, flags=list(rec.flags), n_raised=rec.n_raised,
                pilots_width=int(sim.pilot_signals.shape[1]))


def empty_trace(err):
    return dict(error=err, stage="build", hist=[], occ=[], iteration=0, qempty=False, calls=[], rates=[], energy=[],
                peak=0.0, final_occ=[], min_margin=1.0, flags=[], n_raised=0)


def clone(sim, rec):
    """copy.deepcopy of a simulator; the recording hooks travel with the network / scheduler"""
    sim2 = copy.deepcopy(sim)
    rec2 = sim2.network.rec
    if rec2 is rec or rec2.sim is not sim2 or sim2.scheduler.rec is not rec2 or sim2.network is sim.network \
            or sim2.event_queue is sim.event_queue or sim2.scheduler is sim.scheduler:
        rec2.flag("copy.deepcopy(simulator) shares objects with the original")
    if sim2.scheduler._interface._simulator is not sim2:
        rec2.flag("the scheduler of a deep-copied simulator is bound to another simulator")
    return sim2, rec2


def reload(sim, rec):
    """to_json() / from_json() of an interrupted simulator; the recording hooks are re-attached"""
    import warnings
    with warnings.catch_warnings():
        warnings.simplefilter("ignore")
        sim2 = type(sim).from_json(sim.to_json())
    if not isinstance(sim2.network, classes()["RecNet"]) or not isinstance(sim2.scheduler, classes()["RecAlgo"]):
        rec.flag("a JSON round trip changed the class of the network / scheduler")
        return sim, rec
    rec.sim = sim2
    sim2.network.rec = rec
    sim2.scheduler.configure(rec)
    sim2.scheduler.register_interface(sim2.scheduler._interface)
    sim2.max_recompute = rec.inp["max_recompute"]
    return sim2, rec


def run_sim(sim, rec):
    """run() until it returns; in the resume family the scripted failures are caught and run() is called
    again (on a deep copy of the interrupted simulator when inp["copy_on_resume"]).  Returns (sim, rec, err)
    of the simulator that finished."""
    err = None
    for _ in range(len(rec.inp.get("raise_at", ())) + 1):
        try:
            sim.run()
            err = None
            break
        except (Boom, HardStop):
            err = "unresumed"
            if rec.inp.get("abort"):
                break
            if rec.inp.get("copy_on_resume"):
                sim, rec = clone(sim, rec)
            elif rec.inp.get("json_on_resume"):
                sim, rec = reload(sim, rec)
            continue
        except Exception as e:      # noqa
            err = type(e).__name__
            break
    return sim, rec, err


def run_impl(inp, mutate=False):
    """run the real Simulator on one input (with its family's surroundings); returns the recorded trace.
    For the twin family the twin's trace is returned under key "twin_trace"."""
    inp = normalise(inp)
    nm = Names(inp)
    rec = Recorder(inp, nm, mutate)
    shared = None
    try:
        if inp.get("family") == "reuse":
            pre = inp["prelude"]
            prec = Recorder(pre, Names(pre), mutate)
            psim, shared = build(pre, prec)
            psim, prec, perr = run_sim(psim, prec)
            if perr is not None or not psim.event_queue.empty():
                shared = None                       # the prelude did not complete: nothing to reuse
        if inp.get("family") == "sibling":
            pre = inp["prelude"]
            prec = Recorder(pre, Names(pre), mutate)
            psim, _ = build(pre, prec)
            run_sim(psim, prec)                     # aborted: its EVs stay plugged in on ITS network
            keep_alive = psim                       # noqa  (the aborted experiment is still referenced)
        sim, shared = build(inp, rec, shared)
        if any(e.ev is not None for e in sim.network._EVSEs.values()):
            rec.flag("a freshly built network already has an EV plugged in")
    except Exception as e:      # noqa  (construction errors are part of the observable behaviour)
        return empty_trace(type(e).__name__)
    twin_box = {}
    if inp.get("family") == "twin":
        tw = inp["twin"]
        trec = Recorder(tw, Names(tw), mutate)
        try:
            tsim, _ = build(tw, trec)               # both simulators are alive before either runs

            def nested():
                s2, r2, e2 = run_sim(tsim, trec)
                twin_box["trace"] = trace_of(s2, r2, e2, "run")
            rec.nested = nested
        except Exception as e:      # noqa
            twin_box["trace"] = empty_trace(type(e).__name__)
    if inp.get("family") == "deepcopy":
        sim_c, rec_c = clone(sim, rec)
        sim_c, rec_c, err_c = run_sim(sim_c, rec_c)             # the copy first ...
        out_c = trace_of(sim_c, rec_c, err_c, "run" if err_c else None)
        sim, rec, err = run_sim(sim, rec)                       # ... then the original
        out_o = trace_of(sim, rec, err, "run" if err else None)
        for key in ("error", "hist", "occ", "iteration", "rates", "energy", "peak", "flags"):
            if out_o[key] != out_c[key]:
                out_c["flags"].append("a simulator and its deep copy, run one after the other, differ in %s" % key)
                break
        return out_c
    sim, rec, err = run_sim(sim, rec)
    out = trace_of(sim, rec, err, "run" if err else None)
    if inp.get("family") == "twin":
        if "trace" not in twin_box:                 # the main scheduler was never invoked
            rec.nested()
        out["twin_trace"] = twin_box["trace"]
    return out


# ---------------------------------------------------------------------------------------------
# Coq terms
# ---------------------------------------------------------------------------------------------
def kind_coq(kind):
    if kind[0] == "C":
        return "(Continuous %s %s)" % (q(kind[1]), q(kind[2]))
    if kind[0] == "D":
        return "(Deadband %s %s)" % (q(kind[1]), q(kind[2]))
    return "(Finite %s)" % coq_list([q(r) for r in kind[1]])


def session_coq(s):
    est = s["est"] if s["est"] is not None else s["departure"]
    return "(mkSession %s %s %s %s %s %s %s %s %s)" % (
        z(s["sid"]), z(s["station"]), z(s["arrival"]), z(s["departure"]), z(est),
        q(s["req"]), q(s["cap"]), q(s["init"]), q(s["maxp"]))


def cmat_of(constraints, n):
    return [[float(c["coeffs"].get(j, 0)) for j in range(n)] for c in constraints]


def expected_cmat(net):
    return cmat_of(net["constraints"], len(net["stations"]))


def cons_coq(constraints, n):
    return "(%s, %s, %s)" % (coq_list([coq_list([q(x) for x in row]) for row in cmat_of(constraints, n)]),
                             coq_list([q(c["limit"]) for c in constraints]), coq_list([z(c["num"]) for c in constraints]))


def net_coq(inp, impl):
    net = inp["net"]
    n = len(net["stations"])
    sts = coq_list(["(mkStation %s %s %s %s)" % (z(st["num"]), kind_coq(st["kind"]), q(st["voltage"]), q(st["phase"]))
                    for st in net["stations"]])
    # in-place changes: made at the end of the call in period t, visible to every later invocation
    ups = []
    calls = impl["calls"]
    for k, c in enumerate(calls):
        if k + 1 < len(calls) and calls[k + 1]["expected_constraints"] != c["expected_constraints"]:
            ups.append("(%s, %s)" % (z(c["t"]), cons_coq(calls[k + 1]["expected_constraints"], n)))
    cmat = coq_list([coq_list([q(x) for x in row]) for row in expected_cmat(net)])
    return "(mkNet %s %s %s %s %s %s)" % (sts, q(inp["period"]), cmat,
                                          coq_list([q(c["limit"]) for c in net["constraints"]]),
                                          coq_list([z(c["num"]) for c in net["constraints"]]), coq_list(ups))


def schedule_coq(sched):
    return coq_list(["(%s, %s)" % (z(k), coq_list([q(x) for x in v])) for k, v in sched.items()])


def input_coq(inp, impl):
    evs = ["(EPlugin %s %s)" % (z(s["arrival"]), session_coq(s)) for s in inp["sessions"]]
    evs += ["(ERecompute %s)" % z(t) for t in inp["recomputes"]]
    evs += ["(EOther %s %s %s)" % (z(t), z(OTHER_KINDS[c][0]), z(TYPE_CODE[OTHER_KINDS[c][1]])) for t, c in inp.get("others", ())]
    scheds = coq_list(["(%s, %s)" % (z(c["t"]), schedule_coq(c["schedule"])) for c in impl["calls"]])
    return "(mkInput %s %s %s %s)" % (net_coq(inp, impl), coq_opt(inp["max_recompute"], z), coq_list(evs), scheds)


def canon_hist(hist):
    """(period, type, ts, session) -> (period, code, ts, session number), maximal runs of equal
    (period, code, ts) sorted by session number (heap order inside such a run is C11's business)"""
    rows = [(h[0], TYPE_CODE.get(h[1], -1), h[2], h[3]) for h in hist]
    out = []
    for _, grp in itertools.groupby(rows, key=lambda r: r[:3]):
        out += sorted(grp, key=lambda r: r[3])
    return out


def hist_coq(hist):
    return coq_list(["(%s, %s, %s, %s)" % tuple(z(x) for x in r) for r in canon_hist(hist)])


def occ_coq(occ):
    return coq_list(["(%s, %s)" % (z(t), coq_list([z(s) for s in row])) for (t, row) in occ])


# ---------------------------------------------------------------------------------------------
# the C01 statements evaluated on a recorded implementation trace (monitor)
# ---------------------------------------------------------------------------------------------
def is_valid_input(inp):
    nums = {st["num"] for st in inp["net"]["stations"]}
    ss = inp["sessions"]
    if len({(s["sid"], s["station"]) for s in ss}) != len(ss):      # identity = (session id, station)
        return False
    for s in ss:
        if s["station"] not in nums or not (0 <= s["arrival"] < s["departure"]):
            return False
    for a, b in itertools.combinations(ss, 2):
        if a["station"] == b["station"] and not (a["departure"] <= b["arrival"] or b["departure"] <= a["arrival"]):
            return False
    return all(t >= 0 for t in inp["recomputes"]) and all(o[0] >= 0 for o in inp.get("others", ()))


def monitor_c01(inp, impl):
    """None, or a description of which part of C01 the recorded run violates.  Only for valid inputs."""
    if impl.get("flags"):
        return impl["flags"][0]
    if not is_valid_input(inp):
        return None
    if impl["error"] is not None:
        if impl["error"] in NUMERIC_ERRORS or (impl["error"] == "ValueError" and any(
                s["est"] is not None and s["est"] <= s["arrival"] for s in inp["sessions"])):
            return None                        # the scheduler's schedule was rejected: C04/C13, not C01
        if impl["error"] == "unresumed":
            return "run() could not be resumed after the scheduler had raised"
        return "run() raised %s on a valid session set" % impl["error"]
    if not impl["qempty"]:
        return "event queue not empty after run()"
    if any(o != -1 for o in impl["final_occ"]):
        return "a station is still occupied after run()"
    hist = impl["hist"]
    for s in inp["sessions"]:
        plug = [h for h in hist if h[1] == "Plugin" and h[3] == s["sid"] and h[4] == s["station"]]
        unpl = [h for h in hist if h[1] == "Unplug" and h[3] == s["sid"] and h[4] == s["station"]]
        if len(plug) != 1 or plug[0][0] != s["arrival"]:
            return "session %s@%s plugged %d times / in period %s (arrival %d)" % (s["sid"], s["station"], len(plug), [h[0] for h in plug], s["arrival"])
        if len(unpl) != 1 or unpl[0][0] != s["departure"]:
            return "session %s@%s unplugged %d times / in period %s (departure %d)" % (s["sid"], s["station"], len(unpl), [h[0] for h in unpl], s["departure"])
    keys = [(h[2], EXPECTED_RANK[h[1]]) for h in hist]
    if keys != sorted(keys):
        return "event_history is not ordered by (time, departures < arrivals < recomputes)"
    if any(h[0] != h[2] for h in hist):
        return "an event was processed in a period other than its timestamp"
    nums = [st["num"] for st in inp["net"]["stations"]]
    periods = [t for (t, _) in impl["occ"]]
    if periods != list(range(impl["iteration"])):
        return "charging step did not run exactly once per period"
    for (t, row) in impl["occ"]:
        for j, num in enumerate(nums):
            want = [s["sid"] for s in inp["sessions"] if s["station"] == num and s["arrival"] <= t < s["departure"]]
            want = want[0] if want else -1
            if row[j] != want:
                return "period %d station %s: connected %s, expected %s" % (t, num, row[j], want)
            if want == -1 and t < len(impl["rates"]) and impl["rates"][t][j] != 0:
                return "period %d station %s: current %r flows although no EV is connected" % (t, num, impl["rates"][t][j])
    last = max([h[2] for h in hist], default=-1)
    if impl["iteration"] != last + 1:
        return "final iteration %d, last event at %d" % (impl["iteration"], last)
    return None
