"""C06 — feasibility check matches the phasor definition; the three checkers agree; a network
without constraints accepts everything and is usable; the linear relaxation is conservative.

Real implementations exercised on every generated schedule (both linear=False and linear=True):
  ChargingNetwork.is_feasible / constraint_current, Interface.is_feasible (through a
  Simulator + Interface), algorithms.utils.infrastructure_constraints_feasible on
  Interface.infrastructure_info() (once with the default tolerances, the way every algorithm
  calls it, and once with the network's own tolerances passed explicitly)."""
import math
import time
import fractions
import warnings
from harness.core import q, coq_list, coq_bool, coq_opt

warnings.filterwarnings("ignore")

PID = "C06"
GEN_GROUPS = ["Feas"]
TARGETS = ["coq/Props/C06.vo", "coq/Model/Feasible.vo"]
EXTRA_PROP_FILES = ["coq/Props/C06_findings.v"]
CASES = {"quick": 600, "thorough": 12000}
SHARD = 60
CORR_HEADER = ("From Coq Require Import String ZArith QArith List Bool.\n"
               "From ACN Require Import Base.Num Model.Feasible.\nImport ListNotations.\n"
               "Open Scope Q_scope.\n")
CHECK_FN = "check_c06"
RULE = ("random networks (1-8 stations, 0-5 constraints, mixed-sign coefficients from {0,+-1/4,+-1/2,+-1} or random, phases from "
        "{30,-90,150}, {0} or arbitrary, limits incl. 0/negative, default / non-default / constructor-default tolerances, "
        "exotic and falsy station ids, heterogeneous voltages, stations re-registered before the constraints) built through "
        "register_evse/add_constraint; schedules with 0-6 periods (and long horizons 128..300 with one loaded column) whose "
        "critical constraint current is placed at limit*(1+-k*1e-7), (limit+tol)*(1+-k*1e-8), far inside/outside, EXACTLY on / "
        "2^-10 or one ulp around limit+tol (dyadic data, phase 0), or between an explicit (zero/negative) and the network's "
        "tolerance; explicit tolerance arguments incl. 0/0.0 separately and together; Interface mappings omit zero stations, "
        "add unknown ids, are empty or ragged, with list/tuple/ndarray/int element types; integer schedules as int arrays; each "
        "schedule runs with linear False and True through all three implementations (held or fresh InfrastructureInfo) and, for "
        "a third of the networks, through a JSON-reloaded twin; between queries the same objects see accepted mutations "
        "(same-name update / remove+add / add / remove) and REFUSED ones (unregistered station, missing name, late "
        "registration); pairs of live same-shape networks are queried alternately; side probes: arguments and network arrays "
        "unchanged, returned arrays not aliased, overwritten InfrastructureInfo harmless, constraint_current sub-selection, a "
        "second process with another PYTHONHASHSEED; distinct = (network, history, schedule, mapping, linear); cases whose "
        "decision changes under a +-1e-9 relative slack of limit+tol are skipped as float-ambiguous")
ASSUMPTIONS = ["theorems are over R with exact arithmetic (cos/sin of deg2rad(phase)); the implementation computes in IEEE doubles",
               "well-formed networks: constraint_matrix rows, magnitudes and constraint_index aligned (C12's subject)",
               "the executable model receives (cos, sin) of each phase angle computed by the harness with math.cos/math.sin(math.radians(.)), independently of the implementation",
               "C06_three_agree / C06_three_agree_linear carry the explicit hypothesis that the network tolerances equal the defaults hard-coded in algorithms.utils (open finding utils-hardcoded-tolerances)"]
TRUSTED_EXTRA = ["numpy semantics of @, np.abs on complex, np.linalg.norm(axis=0), np.tile, broadcasting: modelled by their documented effect, tied by the correspondence only"]

F = fractions.Fraction
SLACK = F(1, 10**9)
COEFS = [0, 0.25, -0.25, 0.5, -0.5, 1, -1, 1, -1, 1, 0]
LIMITS = [8, 16, 32, 40, 40, 64, 80, 100, 150, 180.5, 225, 416.6666666666667, 1000]
TOLS = [(1e-5, 1e-7)] * 12 + [(1e-9, 1e-12), (1e-3, 1e-4), (0.0, 0.0), (2.0 ** -17, 2.0 ** -23), (1e-5, 1e-3),
                             (1e-7, 1e-7), (0.5, 0.0)]
SIG_TOL = "utils-hardcoded-tolerances"


# ------------------------------------------------------------------------------------------
# implementation side
# ------------------------------------------------------------------------------------------
EXOTIC_IDS = ["S-10", "S-9", "s-2", "B", "a", "10", "9", "", "Z_1", "S-11", "b", "007"]


def station_ids_of(net):
    """the ids the harness registered, in registration order (kept on the object; never taken from
    network.station_ids, whose order is part of what is being checked)"""
    return net._verif_ids


def build_network(rows, limits, phases, vt, rt, partial=None, sc=None):
    """build a real ChargingNetwork; rows: list of coefficient lists (may be empty).
    sc (scenario): ids (station ids in registration order), voltages, rereg (indices registered first with
    wrong voltage / phase and then re-registered under the same id before any constraint exists)"""
    from acnportal.acnsim import ChargingNetwork, Current
    from acnportal.acnsim.models import EVSE
    sc = sc or {}
    # vt is None: default-constructed network (the tolerances are then read back from it)
    net = ChargingNetwork() if vt is None else ChargingNetwork(violation_tolerance=vt, relative_tolerance=rt)
    n = len(phases)
    ids = list(sc.get("ids") or ["S%d" % i for i in range(n)])
    volts = list(sc.get("voltages") or [208] * n)
    rereg = set(sc.get("rereg") or [])
    for i in range(n):
        if i in rereg:
            net.register_evse(EVSE(ids[i], max_rate=16, min_rate=0), 999, phases[i] + 77)
        else:
            net.register_evse(EVSE(ids[i], max_rate=1e9, min_rate=-1e9), volts[i], phases[i])
    for i in sorted(rereg):
        net.register_evse(EVSE(ids[i], max_rate=1e9, min_rate=-1e9), volts[i], phases[i])
    net._verif_ids = ids
    for j, row in enumerate(rows):
        d = {ids[i]: row[i] for i in range(n) if not (partial and partial[j] and row[i] == 0)}
        if not d:
            d = {ids[0]: row[0]}
        net.add_constraint(Current(d), limits[j], "c%d" % j)
    return net


def attach_twin(net):
    """the network reloaded from its own JSON (+ an Interface on it), rebuilt after every mutation"""
    from acnportal.acnsim import ChargingNetwork
    rel = ChargingNetwork.from_json(net.to_json())
    rel._verif_ids = net._verif_ids
    net._verif_twin = (rel, make_interface(rel))


def apply_op(net, op):
    """one network mutation through the public API (station ids S<i>)"""
    from acnportal.acnsim import Current
    ids = station_ids_of(net)
    n = len(ids)
    cur = lambda row: Current({ids[i]: row[i] for i in range(n)})
    if op["op"] == "update":          # same name: remove + add at the end, name kept
        net.update_constraint(op["name"], cur(op["row"]), op["limit"])
    elif op["op"] == "readd":         # remove, then add under the same name
        net.remove_constraint(op["name"])
        net.add_constraint(cur(op["row"]), op["limit"], op["name"])
    elif op["op"] == "add":
        net.add_constraint(cur(op["row"]), op["limit"], op["name"])
    elif op["op"] == "remove":
        net.remove_constraint(op["name"])
    elif op["op"].startswith("rej-"):
        # a call the network must REFUSE (the caller catches the error and carries on)
        from acnportal.acnsim.models import EVSE
        try:
            if op["op"] == "rej-add":            # Current naming an unregistered station
                row = dict({ids[i]: 1.0 for i in range(min(n, 2))}, **{"NOT-REGISTERED": 1.0})
                net.add_constraint(Current(row), op["limit"], op["name"])
            elif op["op"] == "rej-update":       # missing constraint name
                net.update_constraint("no-such-constraint", cur([1.0] * n), op["limit"])
            elif op["op"] == "rej-remove":
                net.remove_constraint("no-such-constraint")
            elif op["op"] == "rej-register":     # EVSE registration after constraints exist
                net.register_evse(EVSE("LATE-STATION", max_rate=32, min_rate=0), 208, 30)
            else:
                raise ValueError(op["op"])
        except ValueError:
            raise
        except Exception as e:  # noqa
            return type(e).__name__
        raise AssertionError("%s was not refused" % op["op"])
    else:
        raise ValueError(op["op"])
    return None


def rand_rejected(rng, net, counter):
    kinds = ["rej-add", "rej-add", "rej-update", "rej-remove"]
    if net.constraint_matrix is not None:
        kinds.append("rej-register")
    return dict(op=rng.choice(kinds), name="r%d" % counter, limit=float(rng.choice([1.0, 10.0, 0.5, 1000.0])))


def rand_op(rng, net, counter):
    """mostly: change the LAST (or only) constraint keeping its name — limit scaled and/or new coefficients"""
    names = list(net.constraint_index)
    n = len(net.station_ids)
    u = rng.random()
    if names and u < 0.7:
        name = names[-1] if rng.random() < 0.8 else rng.choice(names)
        j = names.index(name)
        row = [float(x) for x in net.constraint_matrix[j]]
        lim = float(net.magnitudes[j])
        if rng.random() < 0.35:
            row = [float(rng.choice(COEFS)) for _ in range(n)]
            if all(c == 0 for c in row):
                row[rng.randrange(n)] = 1.0
        f = rng.choice([0.5, 2.0, 0.25, 1.5, 3.0, 1.0])
        new_lim = lim * f if lim > 0 else float(rng.choice(LIMITS))
        return dict(op=rng.choice(["update", "update", "readd"]), name=name, row=row, limit=new_lim)
    if names and u < 0.8 and len(names) > 1:
        return dict(op="remove", name=rng.choice(names))
    row = [float(rng.choice(COEFS)) for _ in range(n)]
    if all(c == 0 for c in row):
        row[rng.randrange(n)] = 1.0
    return dict(op="add", name="m%d" % counter, row=row, limit=float(rng.choice(LIMITS)))


def scale_between(A, L, cis, vt, rt, X, T, j, old_rhs, focus_lin):
    """scale column 0 so that constraint j's current lies between its old and its new limit"""
    if T == 0 or j >= len(A):
        return X
    col = [[X[i][0]] for i in range(len(X))]
    cur = currents_exact(A, cis, col, 1, focus_lin)
    mag = math.sqrt(float(cur[j][0][0]) ** 2 + float(cur[j][0][1]) ** 2)
    new_rhs = float(rhs_exact(L[j], vt, rt))
    if mag < 1e-9 or old_rhs <= 0 or new_rhs <= 0 or old_rhs == new_rhs:
        return X
    target = math.sqrt(old_rhs * new_rhs)
    for i in range(len(X)):
        X[i][0] = X[i][0] * target / mag
    return X


def make_interface(net):
    from datetime import datetime
    from acnportal.acnsim import Simulator, Interface, EventQueue
    sim = Simulator(net, None, EventQueue(), datetime(2020, 1, 1), verbose=False)
    return Interface(sim)


def typed_rates(r, code):
    """the same rates in another container / element type (values unchanged)"""
    import numpy as np
    if code == 1:
        return np.array(r, dtype=float)
    if code == 2:
        return tuple(r)
    if code == 3:
        return [int(v) if float(v).is_integer() else v for v in r]
    if code == 4:
        return [np.float64(v) for v in r]
    return list(r)


def run_impl(net, itf, X, T, mapping, ovt=None, ort=None, var=None):
    """X: list of N rows of T floats.  mapping: list of (station index, [rates]).  ovt/ort: explicit
    tolerance arguments given to the network / interface calls (None = use the network's).
    var: call variants — int_dtype (integer-valued X passed as an int array), map_types (container / element
    types of the mapping values), hold_info (the InfrastructureInfo fetched earlier for this network state is
    reused), poke_info (the caller overwrites the info it got, afterwards).
    Returns outputs for both modes."""
    import copy
    import numpy as np
    from acnportal.algorithms.utils import infrastructure_constraints_feasible as icf
    from acnportal.acnsim.interface import InvalidScheduleError
    var = var or {}
    n = len(X)
    ids = station_ids_of(net)
    Xa = np.array(X, dtype=float).reshape(n, T)
    if var.get("int_dtype") and all(float(v).is_integer() for r in X for v in r):
        Xa = Xa.astype(int)
    Xa_before = Xa.copy()
    lim_before = net.magnitudes.copy()
    mat_before = None if net.constraint_matrix is None else net.constraint_matrix.copy()
    out = {"notes": []}
    try:
        held = getattr(net, "_verif_info", None)
        if var.get("hold_info") and held is not None:
            info = held
        else:
            info = itf.infrastructure_info()
            net._verif_info = info
        shape = [int(info.constraint_matrix.shape[0]), int(info.constraint_matrix.shape[1])]
    except Exception as e:  # noqa
        info, shape = None, None
        out["info_error"] = type(e).__name__
    out["info_shape"] = shape
    codes = var.get("map_types") or []
    load = {(ids[i] if i < n else "ZZ%d" % i): typed_rates(r, codes[k % len(codes)] if codes else 0)
            for k, (i, r) in enumerate(mapping)}
    load_before = {k: [float(x) for x in v] for k, v in load.items()}

    def guarded(o, key, f, default):
        """an implementation call that raises something unexpected is recorded, never propagated"""
        try:
            o[key] = f()
        except InvalidScheduleError:
            raise
        except Exception as e:  # noqa
            o[key] = default
            o.setdefault("raised", []).append("%s: %s" % (key, type(e).__name__))

    twin = getattr(net, "_verif_twin", None)
    held_cur = None
    for lin in (False, True):
        o = {}
        guarded(o, "net", lambda: bool(net.is_feasible(Xa, linear=lin, violation_tolerance=ovt, relative_tolerance=ort)), False)
        try:
            guarded(o, "iface", lambda: bool(itf.is_feasible(load, linear=lin, violation_tolerance=ovt,
                                                             relative_tolerance=ort)), False)
        except InvalidScheduleError:
            o["iface"] = None
        evt = net.violation_tolerance if ovt is None else ovt
        ert = net.relative_tolerance if ort is None else ort
        if info is not None:
            guarded(o, "alg_same", lambda: bool(icf(Xa, info, linear=lin, violation_tolerance=evt, relative_tolerance=ert)), False)
            guarded(o, "alg_default", lambda: bool(icf(Xa, info, linear=lin)), False)
        else:
            o["alg_same"] = o["alg_default"] = None
        if len(net.magnitudes):
            def cur_f():
                cur = net.constraint_current(Xa, linear=lin)
                if not lin:
                    nonlocal held_cur
                    held_cur = (cur, np.array(cur, copy=True))
                return [[[float(z.real), float(z.imag)] for z in row] for row in cur]
            guarded(o, "cur", cur_f, [])
        else:
            o["cur"] = []
        if twin is not None:
            rel, ritf = twin
            r = {}
            guarded(r, "net", lambda: bool(rel.is_feasible(Xa, linear=lin, violation_tolerance=ovt, relative_tolerance=ort)), False)
            try:
                guarded(r, "iface", lambda: bool(ritf.is_feasible(load, linear=lin, violation_tolerance=ovt,
                                                                  relative_tolerance=ort)), False)
            except InvalidScheduleError:
                r["iface"] = None
            guarded(r, "alg_same", lambda: bool(icf(Xa, ritf.infrastructure_info(), linear=lin,
                                                    violation_tolerance=evt, relative_tolerance=ert)), False)
            o["reload"] = r
            if r.get("raised"):
                o.setdefault("raised", []).extend("reloaded " + x for x in r["raised"])
        out["lin" if lin else "pha"] = o

    # ---- side conditions observed on the same objects -------------------------------------------
    notes = out["notes"]
    try:
        if not np.array_equal(Xa, Xa_before):
            notes.append("a checker modified the schedule matrix it was given")
        if not np.array_equal(net.magnitudes, lim_before) or (
                mat_before is not None and not np.array_equal(net.constraint_matrix, mat_before)):
            notes.append("a feasibility query changed the network's own limits / constraint matrix (limits %s -> %s)" % (
                [float(x) for x in lim_before][:3], [float(x) for x in net.magnitudes][:3]))
        if {k: [float(x) for x in v] for k, v in load.items()} != load_before:
            notes.append("Interface.is_feasible modified the mapping it was given")
        if held_cur is not None and not np.array_equal(held_cur[0], held_cur[1]):
            notes.append("the array returned by constraint_current changed after later calls")
        if len(net.magnitudes) and T > 0:
            # sub-selection arguments of constraint_current
            names = list(net.constraint_index)
            rows = [j for j in range(len(names)) if j % 2 == 0]
            cols = [t for t in range(T) if t % 2 == 0]
            full = net.constraint_current(Xa)
            sub = net.constraint_current(Xa, constraints=[names[j] for j in rows], time_indices=cols)
            if len(set(names)) == len(names) and not np.allclose(sub, full[rows][:, cols], rtol=1e-12, atol=1e-12):
                notes.append("constraint_current(constraints=, time_indices=) is not the sub-matrix of the full result")
        if twin is not None:
            rel = twin[0]
            same = dict(station_ids=list(rel.station_ids) == list(net.station_ids) == list(ids),
                        phase_angles=bool(np.array_equal(rel._phase_angles, net._phase_angles)),
                        voltages=bool(np.array_equal(rel._voltages, net._voltages)),
                        constraint_matrix=bool(np.array_equal(rel.constraint_matrix, net.constraint_matrix)
                                               if net.constraint_matrix is not None else rel.constraint_matrix is None),
                        limits=bool(np.array_equal(rel.magnitudes, net.magnitudes)),
                        constraint_index=list(rel.constraint_index) == list(net.constraint_index),
                        tolerances=(rel.violation_tolerance, rel.relative_tolerance) == (net.violation_tolerance, net.relative_tolerance))
            bad = [k for k, v in same.items() if not v]
            if bad:
                notes.append("network reloaded from its own JSON differs from the original in: " + ", ".join(bad))
        if var.get("poke_info") and info is not None and info is not getattr(net, "_verif_info_poked", None):
            # the caller owns the InfrastructureInfo it was handed: overwriting it must not reach the network
            before = (net.is_feasible(Xa), None if net.constraint_matrix is None else net.constraint_matrix.copy(),
                      net.magnitudes.copy(), net._phase_angles.copy(), net._voltages.copy())
            mine = itf.infrastructure_info()
            mine.constraint_limits[...] = 1e9
            mine.constraint_matrix[...] = 0
            mine.phases[...] = 0.125
            mine.voltages[...] = 1
            after = net.is_feasible(Xa)
            fresh = itf.infrastructure_info()
            if not np.array_equal(net._phase_angles, before[3]) or not np.array_equal(net._voltages, before[4]):
                notes.append("overwriting a returned InfrastructureInfo changed the network's phase angles / voltages")
            if after != before[0] or not np.array_equal(net.magnitudes, before[2]) or \
                    (before[1] is not None and not np.array_equal(net.constraint_matrix, before[1])):
                notes.append("overwriting a returned InfrastructureInfo changed the network")
            if not np.array_equal(fresh.constraint_limits, net.magnitudes):
                notes.append("overwriting a returned InfrastructureInfo changed what infrastructure_info() returns next")
    except Exception as e:  # noqa
        notes.append("side-condition probe raised %s: %s" % (type(e).__name__, str(e)[:100]))
    return out


def read_back(net):
    A = None if net.constraint_matrix is None else [[float(x) for x in r] for r in net.constraint_matrix]
    L = [float(x) for x in net.magnitudes]
    ph = [float(x) for x in net._phase_angles]
    return A, L, ph


# ------------------------------------------------------------------------------------------
# exact reference (Fractions) — used for ambiguity, schedule placement and the monitor
# ------------------------------------------------------------------------------------------
def cis_of(phases):
    return [(math.cos(math.radians(p)), math.sin(math.radians(p))) for p in phases]


def currents_exact(A, cis, X, T, lin):
    out = []
    for a in A:
        row = []
        for t in range(T):
            if lin:
                row.append((sum(abs(F(a[i])) * F(X[i][t]) for i in range(len(a))), F(0)))
            else:
                row.append((sum(F(a[i]) * F(X[i][t]) * F(cis[i][0]) for i in range(len(a))),
                            sum(F(a[i]) * F(X[i][t]) * F(cis[i][1]) for i in range(len(a)))))
        out.append(row)
    return out


def rhs_exact(L, vt, rt):
    return F(L) + max(F(vt), F(rt) * F(L))


def decide(cur, L, vt, rt, slack, signed=False):
    """all |cur_jt| <= rhs_j (+ slack*max(1,|rhs_j|)); signed: compare re (the linear sum) without abs"""
    for j, row in enumerate(cur):
        r = rhs_exact(L[j], vt, rt)
        r = r + slack * max(1, abs(r))
        for re, im in row:
            if signed:
                if not re <= r:
                    return False
            else:
                if r < 0 or re * re + im * im > r * r:
                    return False
    return True


def robust(cur, L, vt, rt, signed=False):
    """decision if it does not depend on a +-1e-9 slack, else None"""
    a = decide(cur, L, vt, rt, SLACK, signed)
    b = decide(cur, L, vt, rt, -SLACK, signed)
    return a if a == b else None


# ------------------------------------------------------------------------------------------
# generators
# ------------------------------------------------------------------------------------------
def rand_network_spec(rng):
    n = rng.choice([1, 2, 3, 3, 4, 5, 6, 8])
    m = rng.choice([0, 1, 1, 2, 3, 3, 4, 5])
    pm = rng.random()
    if pm < 0.4:
        phases = [rng.choice([30, -90, 150]) for _ in range(n)]
    elif pm < 0.55:
        phases = [0] * n
    elif pm < 0.7:
        phases = [rng.choice([0, 180, 90, -90, 30, 150, 45, 120, -120]) for _ in range(n)]
    else:
        phases = [rng.choice([rng.uniform(-180, 180), float(rng.randint(-180, 180))]) for _ in range(n)]
    rows, partial = [], []
    for _ in range(m):
        style = rng.random()
        if style < 0.65:
            row = [rng.choice(COEFS) for _ in range(n)]
        elif style < 0.8:
            row = [rng.choice([0, 1]) for _ in range(n)]
        else:
            row = [rng.choice([0.0, round(rng.uniform(-2, 2), 3), rng.uniform(-1, 1)]) for _ in range(n)]
        if all(c == 0 for c in row) and rng.random() < 0.8:
            row[rng.randrange(n)] = rng.choice([1, -1, 0.5])
        rows.append([float(c) for c in row])
        partial.append(rng.random() < 0.5)
    limits = []
    for _ in range(m):
        u = rng.random()
        if u < 0.8:
            limits.append(float(rng.choice(LIMITS)))
        elif u < 0.9:
            limits.append(rng.uniform(1, 500))
        elif u < 0.95:
            limits.append(0.0)
        else:
            limits.append(-float(rng.choice([1, 5, 1e-6])))
    vt, rt = rng.choice(TOLS)
    # scenario: station ids whose lexicographic order differs from the registration order (incl. the falsy
    # id ""), heterogeneous voltages, stations re-registered before the constraints, JSON-reloaded twin
    sc = dict(ids=None, voltages=None, rereg=[], reload=rng.random() < 0.35)
    if rng.random() < 0.4:
        sc["ids"] = rng.sample(EXOTIC_IDS, n)
    if rng.random() < 0.5:
        sc["voltages"] = [float(rng.choice([120, 208, 240, 277])) for _ in range(n)]
    if rng.random() < 0.2:
        sc["rereg"] = sorted(rng.sample(range(n), rng.choice([1, min(2, n)])))
    return dict(rows=rows, limits=limits, phases=[float(p) for p in phases], vt=vt, rt=rt, partial=partial, sc=sc)


def rand_var(rng):
    """call variants for one schedule"""
    return dict(int_dtype=rng.random() < 0.5, map_types=[rng.choice([0, 0, 1, 2, 3, 4]) for _ in range(3)],
                hold_info=rng.random() < 0.5, poke_info=rng.random() < 0.15)


def rand_schedule(rng, n, T):
    if rng.random() < 0.08:
        # integer-valued schedule (left unscaled by the caller; may be passed as an int array / int lists)
        return [[float(rng.choice([0, 0, 6, 8, 16, 24, 32])) for _ in range(T)] for _ in range(n)]
    neg = rng.random() < 0.12
    X = []
    for i in range(n):
        if rng.random() < 0.3:
            X.append([0.0] * T)
            continue
        row = []
        for _ in range(T):
            u = rng.random()
            if u < 0.15:
                v = 0.0
            elif u < 0.5:
                v = float(rng.choice([6, 8, 16, 24, 32]))
            else:
                v = rng.uniform(0, 40)
            if neg and rng.random() < 0.3:
                v = -v
            row.append(v)
        X.append(row)
    return X


def place(rng, A, L, cis, vt, rt, X, T, focus_lin):
    """scale each column so that its most loaded constraint sits at a chosen distance from its limit"""
    if not A:
        return X, ["free"] * T
    if X and T and all(float(v).is_integer() for r in X for v in r) and rng.random() < 0.6:
        return X, ["integer"] * T
    kinds = []
    for t in range(T):
        col = [[X[i][t]] for i in range(len(X))]
        cur = currents_exact(A, cis, col, 1, focus_lin)
        best, bj, bm = None, None, None
        for j in range(len(A)):
            r = float(rhs_exact(L[j], vt, rt))
            mag = math.sqrt(float(cur[j][0][0]) ** 2 + float(cur[j][0][1]) ** 2)
            if r > 0 and mag > 1e-9 and (best is None or mag / r > best):
                best, bj, bm = mag / r, j, mag
        u = rng.random()
        if best is None or u < 0.1:
            kinds.append("asis")
            continue
        r = float(rhs_exact(L[bj], vt, rt))
        if u < 0.45:
            k = rng.randint(0, 50)
            target = L[bj] * (1 + rng.choice([1, -1]) * k * 1e-7) if L[bj] > 0 else r * 0.9
            kinds.append("limit+-k1e-7")
        elif u < 0.65:
            k = rng.randint(1, 30)
            target = r * (1 + rng.choice([1, -1]) * k * 1e-8)
            kinds.append("rhs+-k1e-8")
        elif u < 0.85:
            target = r * rng.uniform(0.2, 0.97)
            kinds.append("inside")
        else:
            target = r * rng.uniform(1.02, 1.6)
            kinds.append("outside")
        f = target / bm
        for i in range(len(X)):
            X[i][t] = X[i][t] * f
    return X, kinds


def place_between_tolerances(A, L, cis, X, eff, own, focus_lin, frac):
    """scale column 0 so that its most loaded constraint lies between limit+tol(eff) and limit+tol(own)"""
    col = [[X[i][0]] for i in range(len(X))]
    cur = currents_exact(A, cis, col, 1, focus_lin)
    best = None
    for j in range(len(A)):
        r = float(rhs_exact(L[j], eff[0], eff[1]))
        mag = math.sqrt(float(cur[j][0][0]) ** 2 + float(cur[j][0][1]) ** 2)
        if r > 0 and mag > 1e-9 and (best is None or mag / r > best[0]):
            best = (mag / r, j, mag)
    if best is None:
        return X, False
    _, j, mag = best
    r_eff = float(rhs_exact(L[j], eff[0], eff[1]))
    r_own = float(rhs_exact(L[j], own[0], own[1]))
    if r_eff == r_own:
        return X, False
    target = r_eff + frac * (r_own - r_eff)
    for i in range(len(X)):
        X[i][0] = X[i][0] * target / mag
    return X, True


def make_mapping(rng, X, T):
    """returns (mapping [(idx, rates)], kind).  Except for the ragged / empty kinds, dense(mapping) == X."""
    n = len(X)
    u = rng.random()
    if u < 0.06:
        return [], "empty"
    m = []
    for i in range(n):
        if all(v == 0 for v in X[i]) and rng.random() < 0.7:
            continue
        m.append((i, list(X[i])))
    kind = "dense" if len(m) == n else "omitting"
    if rng.random() < 0.2:
        m.append((n + rng.randint(0, 3), [rng.choice([0.0, 99.0, 1e6]) for _ in range(T)]))
        kind += "+unknown"
    if not m:
        m.append((n + 5, [0.0] * T))
        kind = "only-unknown"
    rng.shuffle(m)
    if u > 0.93 and len(m) >= 2:
        k = rng.randrange(len(m))
        i, r = m[k]
        m[k] = (i, r[:-1] if rng.random() < 0.5 else r + [1.0])
        kind = "ragged"
    return m, kind


def net_coq(A, L, cis, vt, rt):
    mat = "None" if A is None else "(Some %s)" % coq_list([coq_list([q(c) for c in r]) for r in A])
    return "(Build_network QF %s %s %s %s %s)" % (
        mat, coq_list([q(x) for x in L]), coq_list(["(%s, %s)" % (q(c), q(s)) for c, s in cis]), q(vt), q(rt))


def case_coq(netc, T, X, mapping, lin, o, shape, ovt=None, ort=None):
    return ("{| c_net := %s; c_T := %d%%nat; c_X := %s; c_map := %s; c_linear := %s; c_ovt := %s; c_ort := %s;\n"
            "   i_net := %s; i_iface := %s; i_alg_same := %s; i_alg_default := %s; i_cur := %s; i_info_shape := %s; i_reload := %s |}") % (
        netc, T, coq_list([coq_list([q(v) for v in r]) for r in X]),
        coq_list(["(%d%%nat, %s)" % (i, coq_list([q(v) for v in r])) for i, r in mapping]),
        coq_bool(lin), coq_opt(ovt, q), coq_opt(ort, q), coq_bool(o["net"]), coq_opt(o["iface"], coq_bool),
        coq_bool(bool(o["alg_same"])), coq_bool(bool(o["alg_default"])),
        coq_list([coq_list(["(%s, %s)" % (q(z[0]), q(z[1])) for z in row]) for row in o["cur"]]),
        "None" if shape is None else "(Some (%d%%nat, %d%%nat))" % tuple(shape),
        "None" if not o.get("reload") else "(Some (%s, %s, %s))" % (
            coq_bool(o["reload"]["net"]), coq_opt(o["reload"]["iface"], coq_bool), coq_bool(bool(o["reload"]["alg_same"]))))


def finish_cases(spec, A, L, phases, cis, X, T, mapping, mkind, colkinds, impl, exact_tie=False, ovt=None, ort=None,
                 var=None):
    """two case dicts (linear False / True) for one schedule"""
    netc = net_coq(A, L, cis, spec["vt"], spec["rt"])
    # effective tolerances of the network / interface / explicit algorithm-side calls
    vt = spec["vt"] if ovt is None else ovt
    rt = spec["rt"] if ort is None else ort
    rows = A or []
    out = []
    for lin in (False, True):
        key = "lin" if lin else "pha"
        o = impl[key]
        cur = currents_exact(rows, cis, X, T, lin)
        amb = False
        if not exact_tie:
            amb = robust(cur, L, vt, rt) is None
        if robust(cur, L, 1e-5, 1e-7) is None:
            amb = True
        inp = dict(A=A, L=L, phases=phases, vt=spec["vt"], rt=spec["rt"], ctor_default=bool(spec.get("ctor_default")),
                   sc=spec.get("sc"), var=var,
                   ovt=ovt, ort=ort, X=X, T=T,
                   mapping=[[i, r] for i, r in mapping], linear=lin, exact_tie=exact_tie)
        c = dict(input=inp, impl=impl, coq=case_coq(netc, T, X, mapping, lin, o, impl["info_shape"], ovt, ort),
                 ambiguous=amb, nontrivial=True,
                 kind="%s/%s/%s/%s%s" % ("lin" if lin else "pha", "+".join(sorted(set(colkinds))),
                                         mkind, "deftol" if (vt, rt) == (1e-5, 1e-7) else "othertol",
                                         "" if ovt is None and ort is None else "-explicit"))
        c["sig"] = [A, L, phases, spec["vt"], spec["rt"], ovt, ort, X, inp["mapping"], lin]
        why = None if amb else monitor(c)
        if why and why.startswith("[" + SIG_TOL + "]"):
            c["sig"] = SIG_TOL
        out.append(c)
    return out


def gen_tie_cases(rng):
    """dyadic data, phase 0: the float computation is exact, so the case is decided even ON the threshold"""
    n = rng.choice([1, 2, 3, 4])
    m = rng.choice([1, 2, 3])
    T = rng.choice([1, 2, 3])
    rows = [[float(rng.choice([0, 0.25, -0.25, 0.5, -0.5, 1, -1, 1])) for _ in range(n)] for _ in range(m)]
    for r in rows:
        if all(c == 0 for c in r):
            r[0] = 1.0
    neg = rng.random() < 0.1
    X = [[rng.randint(0, 256) / 8.0 * (-1 if neg and rng.random() < 0.3 else 1) for _ in range(T)] for _ in range(n)]
    vt, rt = 2.0 ** -17, 2.0 ** -23
    lin_focus = rng.random() < 0.4
    cis = [(1.0, 0.0)] * n
    jc = rng.randrange(m)
    # one-ulp mode: the critical constraint is a single station with coefficient 1, so its current IS the
    # schedule entry and the entry can be put exactly on / one ulp above / one ulp below limit + tolerance
    ulp = rng.random() < 0.3
    if ulp:
        k = rng.randrange(n)
        rows[jc] = [1.0 if i == k else 0.0 for i in range(n)]
        X[k] = [abs(v) for v in X[k]]
    cur = currents_exact(rows, cis, X, T, lin_focus)
    # the critical constraint: largest |sum| below 64 (so that the absolute tolerance is the larger one)
    s = max(abs(z[0]) for z in cur[jc])
    if not (F(1, 4) <= s < 60):
        return []
    limits = []
    for j in range(m):
        if j == jc:
            limits.append(float(s - F(vt)))
        else:
            limits.append(float(max(abs(z[0]) for z in cur[j]) + rng.choice([1, 8, 0.5])))
    variant = rng.choice(["on", "on", "above", "below"])
    if ulp:
        variant = rng.choice(["on", "ulp-above", "ulp-below"])
        if variant != "on":
            tcrit = max(range(T), key=lambda t: abs(cur[jc][t][0]))
            X[k][tcrit] = math.nextafter(X[k][tcrit], math.inf if variant == "ulp-above" else 0.0)
    elif variant != "on":
        # move one contributing entry of the critical column by 2^-10 (still exact)
        tcrit = max(range(T), key=lambda t: abs(cur[jc][t][0]))
        idx = [i for i in range(n) if rows[jc][i] != 0]
        i = rng.choice(idx)
        sign = 1 if (cur[jc][tcrit][0] >= 0) == (rows[jc][i] > 0 or lin_focus) else -1
        X[i][tcrit] += sign * (2.0 ** -10) * (1 if variant == "above" else -1)
    spec = dict(rows=rows, limits=limits, phases=[0.0] * n, vt=vt, rt=rt, partial=None)
    net = build_network(rows, limits, spec["phases"], vt, rt)
    itf = make_interface(net)
    A, L, ph = read_back(net)
    mapping = [(i, list(X[i])) for i in range(n)]
    impl = run_impl(net, itf, X, T, mapping)
    return finish_cases(spec, A, L, ph, cis, X, T, mapping, "dense", ["tie-" + variant], impl, exact_tie=True)


def crash_case(where, e):
    """an unexpected exception of the implementation while building / running a case: reported through
    the monitor (the case is kept out of the Coq run)"""
    import traceback
    return dict(input=dict(crash=where), impl=dict(crash="%s: %s" % (type(e).__name__, e), trace=traceback.format_exc()[-1500:]),
                coq="", ambiguous=True, nontrivial=False, kind="crash", sig=["crash", where, type(e).__name__])


def corpus_cases():
    """witnesses of fixed findings (corpus/C06/*.json), re-run first on every check"""
    import glob
    import json
    import os
    from harness.core import ROOT
    out = []
    for path in sorted(glob.glob(os.path.join(ROOT, "corpus", "C06", "*.json"))):
        with open(path) as f:
            w = json.load(f)
        inp = w["input"]
        net = build_network(inp["A"], inp["L"], inp["phases"], inp["vt"], inp["rt"])
        itf = make_interface(net)
        A, L, ph = read_back(net)
        mapping = [(int(i), r) for i, r in inp["mapping"]]
        impl = run_impl(net, itf, inp["X"], inp["T"], mapping)
        spec = dict(vt=inp["vt"], rt=inp["rt"])
        for c in finish_cases(spec, A, L, ph, cis_of(ph), inp["X"], inp["T"], mapping, "corpus",
                              ["corpus:" + os.path.basename(path)[:-5]], impl):
            out.append(c)
    return out


def other_process_cases(cases, k=12):
    """re-run k recorded inputs in a SECOND process with another PYTHONHASHSEED; every boolean must come out
    the same (mappings are dicts, ids are strings: nothing may depend on hash order)"""
    import json
    import os
    import subprocess
    import sys
    pick = [c for c in cases if "crash" not in c["input"] and not c["input"].get("before")][:400:max(1, 400 // k)][:k]
    if not pick:
        return []
    env = dict(os.environ, PYTHONHASHSEED="4242")
    code = ("import sys, json, warnings; warnings.filterwarnings('ignore'); from harness import c06; "
            "inps = json.load(sys.stdin); "
            "print(json.dumps([c06.summary(c06.rerun(dict(i))) for i in inps]))")
    from harness.core import ROOT
    p = subprocess.run([sys.executable, "-c", code], input=json.dumps([c["input"] for c in pick], default=float), cwd=ROOT,
                       env=env, stdout=subprocess.PIPE, stderr=subprocess.PIPE, text=True, timeout=120)
    out = []
    try:
        got = json.loads(p.stdout.strip().splitlines()[-1])
    except Exception:  # noqa
        return [dict(input=dict(crash="second process"), impl=dict(crash="second process failed: " + p.stderr[-400:]),
                     coq="", ambiguous=True, nontrivial=False, kind="crash", sig=["crash", "second process"])]
    for c, g in zip(pick, got):
        if g != summary(c["impl"]):
            bad = dict(c, coq="", ambiguous=True, nontrivial=False, kind="other-process",
                       impl=dict(c["impl"], notes=["a second process (PYTHONHASHSEED=4242) answers %s, this one %s" % (g, summary(c["impl"]))]))
            out.append(bad)
    return out


def summary(impl):
    return [[impl[k].get(f) for f in ("net", "iface", "alg_same", "alg_default")] for k in ("pha", "lin")]


def gen_cases(rng, n, tier):
    cases = gen_cases_(rng, n, tier)
    try:
        cases.extend(other_process_cases(cases))
    except Exception as e:  # noqa
        cases.append(crash_case("second process", e))
    return cases


def gen_cases_(rng, n, tier):
    cases = []
    crashes = 0
    try:
        cases.extend(corpus_cases())
    except Exception as e:  # noqa
        cases.append(crash_case("corpus", e))
    while len(cases) < n:
        try:
            cases.extend(gen_block(rng))
        except Exception as e:  # noqa
            cases.append(crash_case("gen_block", e))
            crashes += 1
            if crashes > 20:
                break
    return cases[:n]


def gen_pair_block(rng):
    """two live networks of the same shape (same matrix, phases, tolerances) with different limits, queried
    alternately with the same schedules and no construction in between: each answer must be the answer for
    THAT network's limits (a limit matrix shared between instances would show here)"""
    spec1 = rand_network_spec(rng)
    if not spec1["rows"]:
        spec1["rows"], spec1["limits"], spec1["partial"] = [[1.0] * len(spec1["phases"])], [40.0], [False]
    spec1["sc"]["reload"] = False
    f = rng.choice([2.0, 0.5, 1.5, 3.0])
    spec2 = dict(spec1, limits=[x * f for x in spec1["limits"]])
    nets = []
    for sp in (spec1, spec2):
        net = build_network(sp["rows"], sp["limits"], sp["phases"], sp["vt"], sp["rt"], sp["partial"], sp["sc"])
        nets.append((sp, net))
    nets = [(sp, net, make_interface(net)) + read_back(net) for sp, net in nets]
    cases = []
    for _ in range(rng.choice([3, 5])):
        T = rng.choice([1, 1, 2, 3])
        ref = rng.choice(nets)
        X = rand_schedule(rng, len(ref[5]), T)
        X, colkinds = place(rng, ref[3] or [], ref[4], cis_of(ref[5]), ref[0]["vt"], ref[0]["rt"], X, T, rng.random() < 0.35)
        mapping, mkind = make_mapping(rng, X, T)
        order = list(nets) if rng.random() < 0.5 else list(reversed(nets))
        prev = None
        for sp, net, itf, A, L, ph in order:
            impl = run_impl(net, itf, X, T, mapping)
            cs = finish_cases(sp, A, L, ph, cis_of(ph), X, T, mapping, mkind + "/interleaved", colkinds, impl)
            for c in cs:
                c["input"]["before"] = prev
            cases.extend(cs)
            prev = dict(A=A, L=L, phases=ph, vt=sp["vt"], rt=sp["rt"])
    return cases


def gen_block(rng):
    cases = []
    if True:
        if rng.random() < 0.25:
            for _ in range(3):
                cases.extend(gen_tie_cases(rng))
            return cases
        if rng.random() < 0.2:
            return gen_pair_block(rng)
        spec = rand_network_spec(rng)
        spec["ctor_default"] = (spec["vt"], spec["rt"]) == (1e-5, 1e-7) and rng.random() < 0.5
        if spec["ctor_default"]:
            net = build_network(spec["rows"], spec["limits"], spec["phases"], None, None, spec["partial"], spec["sc"])
            spec["vt"], spec["rt"] = float(net.violation_tolerance), float(net.relative_tolerance)
        else:
            net = build_network(spec["rows"], spec["limits"], spec["phases"], spec["vt"], spec["rt"], spec["partial"],
                                spec["sc"])
        itf = make_interface(net)
        if spec["sc"]["reload"]:
            attach_twin(net)
        A, L, ph = read_back(net)
        cis = cis_of(ph)
        for _ in range(rng.choice([3, 5, 8])):
            T = rng.choice([1, 1, 1, 2, 2, 3, 3, 4, 4, 5, 5, 6, 6, 0])
            X = rand_schedule(rng, len(ph), T)
            ovt = ort = None
            zero_tol = False
            if rng.random() < 0.3:
                # explicit tolerance arguments to ChargingNetwork.is_feasible / Interface.is_feasible,
                # including an explicit 0 / 0.0 for each tolerance separately and together
                ovt, ort = rng.choice([(1e-3, None), (None, 1e-4), (1e-9, 1e-12), (1e-5, 1e-7), (0.25, 0.0), (None, 1e-2),
                                       (0.0, None), (None, 0.0), (0.0, 0.0), (0, 0), (0, None), (None, 0),
                                       (0.0, 1e-7), (1e-5, 0.0), (0.0, None), (None, 0.0), (0.0, 0.0), (0, 0),
                                       (-1e-3, None), (None, -1e-4), (-0.5, -1e-3)])
                zero_tol = ovt == 0 or ort == 0
            evt = spec["vt"] if ovt is None else ovt
            ert = spec["rt"] if ort is None else ort
            focus_lin = rng.random() < 0.35
            X, colkinds = place(rng, A or [], L, cis, evt, ert, X, T, focus_lin)
            if A and rng.random() < 0.05:
                # long horizon: all-zero schedule with ONE loaded column, at an index around the multiples of 128
                # or at the very end (a check that walks the schedule in blocks must not skip a period)
                T = rng.choice([128, 129, 255, 256, 257, 300])
                k = rng.choice([c for c in (127, 255, T - 1, 0, 128, 126, 256) if c < T])
                X1 = rand_schedule(rng, len(ph), 1)
                X1, ck = place(rng, A, L, cis, evt, ert, X1, 1, focus_lin)
                X = [[0.0] * T for _ in range(len(ph))]
                for i in range(len(ph)):
                    X[i][k] = X1[i][0]
                colkinds = ck + ["long-T%d-col%d" % (T, k)]
                zero_tol = False
            if zero_tol and A and T > 0 and rng.random() < 0.9:
                # between limit + explicit (zero) tolerance and limit + the network's own tolerance
                X, ok = place_between_tolerances(A, L, cis, X, (evt, ert), (spec["vt"], spec["rt"]), focus_lin,
                                                 rng.uniform(0.2, 0.8))
                if ok:
                    colkinds = colkinds + ["between-explicit-zero-and-network-tolerance"]
            mapping, mkind = make_mapping(rng, X, T)
            var = rand_var(rng)
            impl = run_impl(net, itf, X, T, mapping, ovt, ort, var)
            cases.extend(finish_cases(spec, A, L, ph, cis, X, T, mapping, mkind, colkinds, impl, ovt=ovt, ort=ort, var=var))
        hist = dict(A=A, L=L, ops=[])

        def rejected_stage(Ac, Lc, tag):
            """a REFUSED call (caught here) must leave the network, and every checker's answer, as it was"""
            op = rand_rejected(rng, net, len(hist["ops"]))
            exc = apply_op(net, op)
            hist["ops"].append(op)
            Ar, Lr, phr = read_back(net)
            changed = (Ar, Lr, phr) != (Ac, Lc, ph) or len(net.constraint_index) != len(Lc)
            out = []
            for _ in range(2):
                T = rng.choice([1, 1, 2])
                X = rand_schedule(rng, len(ph), T)
                X, colkinds = place(rng, Ac or [], Lc, cis, spec["vt"], spec["rt"], X, T, rng.random() < 0.3)
                mapping, mkind = make_mapping(rng, X, T)
                var = rand_var(rng)
                impl = run_impl(net, itf, X, T, mapping, var=var)
                if changed:
                    impl["notes"].insert(0, "a refused call (%s -> %s) changed the network: limits %s -> %s, %d constraint names" % (
                        op["op"], exc, Lc[:3], Lr[:3], len(net.constraint_index)))
                cs = finish_cases(spec, Ac, Lc, ph, cis, X, T, mapping, mkind + "/after-" + op["op"] + tag, colkinds, impl, var=var)
                for c in cs:
                    c["input"]["history"] = dict(A=hist["A"], L=hist["L"], ops=[dict(o) for o in hist["ops"]])
                out.extend(cs)
            return out

        if rng.random() < 0.6:
            cases.extend(rejected_stage(A, L, ""))
        # ---- mutate the network between queries, on the SAME Simulator / Interface objects: the interface
        # has already produced an InfrastructureInfo; all three checkers must follow the change
        if A and rng.random() < 0.7:
            for step in range(rng.choice([1, 1, 2, 3])):
                old_names = list(net.constraint_index)
                old_L = [float(x) for x in net.magnitudes]
                op = rand_op(rng, net, step)
                apply_op(net, op)
                net._verif_info = None          # a held InfrastructureInfo is a snapshot of the old network
                if spec["sc"]["reload"]:
                    attach_twin(net)            # reload the network as it is now (mid-life round trip)
                hist["ops"].append(op)
                A2, L2, ph2 = read_back(net)
                names2 = list(net.constraint_index)
                for _ in range(rng.choice([2, 3])):
                    T = rng.choice([1, 1, 2, 3])
                    X = rand_schedule(rng, len(ph), T)
                    focus = rng.random() < 0.3
                    X, colkinds = place(rng, A2 or [], L2, cis, spec["vt"], spec["rt"], X, T, focus)
                    if op["op"] in ("update", "readd") and rng.random() < 0.6 and op["name"] in old_names:
                        jo = old_names.index(op["name"])
                        X = scale_between(A2, L2, cis, spec["vt"], spec["rt"], X, T, names2.index(op["name"]),
                                          float(rhs_exact(old_L[jo], spec["vt"], spec["rt"])), focus)
                        colkinds = colkinds + ["between-old-and-new-limit"]
                    mapping, mkind = make_mapping(rng, X, T)
                    var = rand_var(rng)
                    impl = run_impl(net, itf, X, T, mapping, var=var)
                    cs = finish_cases(spec, A2, L2, ph2, cis, X, T, mapping, mkind + "/after-" + op["op"], colkinds, impl,
                                      var=var)
                    for c in cs:
                        c["input"]["history"] = dict(A=hist["A"], L=hist["L"], ops=[dict(o) for o in hist["ops"]])
                    cases.extend(cs)
                if rng.random() < 0.3:
                    cases.extend(rejected_stage(A2, L2, "-late"))
    return cases


# ------------------------------------------------------------------------------------------
# monitor: C06 stated directly on the implementation's outputs
# ------------------------------------------------------------------------------------------
def monitor(case):
    if "crash" in case["input"]:
        return "implementation raised %s" % case["impl"]["crash"]
    if case.get("kind") == "other-process":
        return case["impl"]["notes"][0]
    if case.get("ambiguous"):
        return None
    inp, impl = case["input"], case["impl"]
    A, L, ph, X, T = inp["A"], inp["L"], inp["phases"], inp["X"], inp["T"]
    vt = inp["vt"] if inp.get("ovt") is None else inp["ovt"]
    rt = inp["rt"] if inp.get("ort") is None else inp["ort"]
    rows = A or []
    cis = cis_of(ph)
    n = len(ph)
    mapping = [(int(i), r) for i, r in inp["mapping"]]
    pha = currents_exact(rows, cis, X, T, False)
    lin = currents_exact(rows, cis, X, T, True)
    tie = inp.get("exact_tie")
    want_pha = decide(pha, L, vt, rt, 0) if tie else robust(pha, L, vt, rt)
    # linear mode on both sides: |sum_i |A_ji| x_i| <= limit + tol, on every schedule
    want_lin = decide(lin, L, vt, rt, 0) if tie else robust(lin, L, vt, rt)
    P, Ln = impl["pha"], impl["lin"]
    nonneg = all(v >= 0 for r in X for v in r)
    for o in (P, Ln):
        if o.get("raised"):
            return "implementation raised %s" % ", ".join(o["raised"])
    if impl.get("notes"):
        return impl["notes"][0]
    for o, name in ((P, "phasor"), (Ln, "linear")):
        r = o.get("reload")
        if r and (r["net"] != o["net"] or r["iface"] != o["iface"] or r["alg_same"] != o["alg_same"]):
            return "network reloaded from its own JSON answers (%s: net %s, interface %s, algorithm side %s), the original (%s, %s, %s)" % (
                name, r["net"], r["iface"], r["alg_same"], o["net"], o["iface"], o["alg_same"])
    # usable by schedulers: infrastructure_info is defined and has M x N shape
    if impl["info_shape"] is None:
        return "infrastructure_info() raised %s" % impl.get("info_error")
    if impl["info_shape"] != [len(rows), n]:
        return "infrastructure_info().constraint_matrix has shape %s, expected %s" % (impl["info_shape"], [len(rows), n])
    # definition
    if want_pha is not None and P["net"] != want_pha:
        return "ChargingNetwork.is_feasible = %s but the phasor definition says %s" % (P["net"], want_pha)
    if not rows and not (P["net"] and Ln["net"] and P["alg_default"] and Ln["alg_default"]
                         and P["iface"] is not False and Ln["iface"] is not False):
        return "a network without constraints rejected a schedule"
    # constraint_current against the definition
    for o, ref in ((P, pha), (Ln, lin)):
        for j, row in enumerate(o["cur"]):
            for t, z in enumerate(row):
                for k in (0, 1):
                    if abs(F(z[k]) - ref[j][t][k]) > F(1, 10**8) * max(1, abs(ref[j][t][k])):
                        return "constraint_current[%d][%d] = %r differs from the definition %r" % (
                            j, t, z, [float(x) for x in ref[j][t]])
    # interface = network on the densified mapping
    lens = set(len(r) for _, r in mapping)
    for o, name in ((P, "phasor"), (Ln, "linear")):
        if not mapping:
            if o["iface"] is not True:
                return "Interface.is_feasible({}) = %s" % o["iface"]
        elif len(lens) > 1:
            if o["iface"] is not None:
                return "Interface.is_feasible accepted schedules of unequal lengths"
        else:
            dense = [dict(mapping).get(i, [0.0] * T) for i in range(n)]
            if dense == X and o["iface"] != o["net"]:
                return "Interface.is_feasible (%s) = %s but ChargingNetwork.is_feasible = %s" % (name, o["iface"], o["net"])
    # linear relaxation is conservative (non-negative schedules)
    if nonneg and want_pha is False:
        if Ln["net"]:
            return "network-side linear check accepts a non-negative schedule that the phasor definition rejects"
        if Ln["alg_same"]:
            return "algorithm-side linear check accepts a non-negative schedule that the phasor definition rejects"
    if want_lin is not None and (Ln["net"] != want_lin or Ln["alg_same"] != want_lin):
        return "linear check (net %s / alg %s) differs from |sum|A|x| <= limit+tol (%s)" % (Ln["net"], Ln["alg_same"], want_lin)
    # the three checkers agree
    if P["alg_same"] != P["net"] and want_pha is not None:
        return "algorithm-side check with the network's tolerances = %s, network-side = %s" % (P["alg_same"], P["net"])
    if Ln["alg_same"] != Ln["net"] and want_lin is not None:
        return "linear mode: algorithm-side check = %s, network-side = %s" % (Ln["alg_same"], Ln["net"])
    for o, name, cur in ((P, "phasor", pha), (Ln, "linear", lin)):
        if o["alg_default"] != o["alg_same"]:
            wd = robust(cur, L, 1e-5, 1e-7)
            ws = decide(cur, L, vt, rt, 0) if tie else robust(cur, L, vt, rt)
            default_net = inp.get("ctor_default") and inp.get("ovt") is None and inp.get("ort") is None
            if default_net and wd is not None and ws is not None and wd != ws:
                return "default-constructed network (tolerances %g, %g): algorithm-side check (default call) = %s, with the network's tolerances = %s (%s)" % (
                    vt, rt, o["alg_default"], o["alg_same"], name)
            if (vt, rt) != (1e-5, 1e-7) and wd is not None and ws is not None and wd != ws:
                return "[%s] effective network tolerances (%g, %g): algorithm-side check with its hard-coded tolerances = %s, with the network's = %s (%s)" % (
                    SIG_TOL, vt, rt, o["alg_default"], o["alg_same"], name)
            if wd is not None and ws is not None:
                return "algorithm-side check: default-tolerance call %s, explicit-tolerance call %s (%s)" % (
                    o["alg_default"], o["alg_same"], name)
    return None


def search(rng, budget_s, broken):
    t0 = time.time()
    while time.time() - t0 < budget_s:
        for c in gen_cases(rng, 120, "quick"):
            if c.get("ambiguous"):
                continue
            r = monitor(c)
            if r and not r.startswith("["):
                return dict(case=c["input"], impl=c["impl"], why=r)
    return None


def rerun(inp):
    A, L, ph = inp["A"], inp["L"], inp["phases"]
    other = None
    if inp.get("before"):
        # re-create the interleaving: the other network is built first and queried right before this one
        b = inp["before"]
        other = build_network(b["A"] or [], b["L"], b["phases"], b["vt"], b["rt"])
    h = inp.get("history")
    A0, L0 = (h["A"], h["L"]) if h else (A, L)
    sc = inp.get("sc") or {}
    if inp.get("ctor_default"):
        net = build_network(A0 or [], L0, ph, None, None, sc=sc)
        # the tolerances are whatever the constructor of the tree under test chose
        inp["vt"], inp["rt"] = float(net.violation_tolerance), float(net.relative_tolerance)
    else:
        net = build_network(A0 or [], L0, ph, inp["vt"], inp["rt"], sc=sc)
    itf = make_interface(net)
    if h:
        # the recorded sequence on ONE Interface: fetch the info, mutate the network, fetch again ...
        refused_notes = []
        for op in h["ops"]:
            itf.infrastructure_info()
            before = read_back(net) + (len(net.constraint_index),)
            exc = apply_op(net, op)
            after = read_back(net) + (len(net.constraint_index),)
            if op["op"].startswith("rej-") and after != before:
                refused_notes.append("a refused call (%s -> %s) changed the network: limits %s -> %s, %d constraint names" % (
                    op["op"], exc, before[1][:3], after[1][:3], after[3]))
    mapping = [(int(i), r) for i, r in inp["mapping"]]
    if other is not None:
        import numpy as np
        try:
            other.is_feasible(np.zeros((len(ph), inp["T"])))
            other.is_feasible(np.zeros((len(ph), inp["T"])), linear=True)
        except Exception:  # noqa
            pass
    if sc.get("reload"):
        attach_twin(net)
    var = dict(inp.get("var") or {})
    if var.get("hold_info"):
        itf_info = itf.infrastructure_info()     # the info held from an earlier query on this network state
        net._verif_info = itf_info
    impl = run_impl(net, itf, inp["X"], inp["T"], mapping, inp.get("ovt"), inp.get("ort"), var)
    if h and refused_notes:
        impl["notes"] = refused_notes + impl.get("notes", [])
    return impl


def replay(w):
    inp = w["case"]
    if "crash" in inp:
        try:
            gen_cases(__import__("random").Random(0), 60, "quick")
        except Exception as e:  # noqa
            return "implementation raised %s" % type(e).__name__
        return None
    inp = dict(inp)
    impl = rerun(inp)
    r = monitor(dict(input=inp, impl=impl))
    # an open known finding (reported separately as KNOWN-FINDING) is not a reproduction of this witness
    return None if (r and r.startswith("[")) else r


def replay_known(entry):
    """re-run the witness of an open finding on the real code; a description if it still fails"""
    w = entry.get("witness", {})
    if entry.get("sig") == SIG_TOL:
        inp = dict(A=[[1.0]], L=[float(w["limit"])], phases=[0.0], vt=w["violation_tolerance"],
                   rt=w["relative_tolerance"], X=[[w["x"]]], T=1, mapping=[[0, [w["x"]]]], linear=False)
        impl = rerun(inp)
        p = impl["pha"]
        if p["alg_default"] != p["net"] or p["alg_default"] != p["iface"]:
            return "network %s interface %s algorithm-side %s" % (p["net"], p["iface"], p["alg_default"])
        return None
    return "not re-checked"
