"""Shared by C03 and C14: run the real Battery / Linear2StageBattery objects on operation sequences,
with np.random.normal patched to return a chosen value, and render the case for Model/Battery.v."""
import fractions
import math
import warnings

from harness.core import q, coq_list, coq_opt, coq_str

F = fractions.Fraction
MODES = {"continuous": 0, "stepwise": 1}

CORR_HEADER = ("From Coq Require Import ZArith QArith List String.\n"
               "From ACN Require Import Base.Num Model.Battery.\nImport ListNotations.\n"
               "Open Scope string_scope.\nOpen Scope Q_scope.\n")


# ---------------------------------------------------------------------------------------------
# implementation side
# ---------------------------------------------------------------------------------------------
class _Noise:
    """patches numpy.random.normal for the duration of one charge call"""
    def __init__(self, value):
        self.value = value

    def __enter__(self):
        import numpy as np
        self.np = np
        self.orig = np.random.normal
        self.calls = 0

        def fake(*a, **k):
            self.calls += 1
            return self.value
        np.random.normal = fake
        return self

    def __exit__(self, *exc):
        self.np.random.normal = self.orig
        return False


def conv(x, dt):
    """the same number in another legal Python/numpy type (value unchanged): 'np' -> numpy float64 (numpy int64 when
    integral), 'int' -> python int when integral else python float, 'float' -> python float"""
    if dt is None or x is None or isinstance(x, str):
        return x
    import numpy as np
    integral = float(x) == int(x) if abs(x) < 2 ** 53 else False
    if dt == "np":
        return np.int64(int(x)) if integral and isinstance(x, int) else np.float64(x)
    if dt == "npf":
        return np.float64(x)
    if dt == "int":
        return int(x) if integral else float(x)
    if dt == "float":
        return float(x)
    return x


def construct(spec):
    """spec: dict(kind='ideal'|'l2', cap, init, maxP[, nl, ts, mode]); returns (battery|None, err)"""
    from acnportal.acnsim.models.battery import Battery, Linear2StageBattery
    dt = spec.get("dtype")
    try:
        if spec["kind"] == "ideal":
            return Battery(conv(spec["cap"], dt), conv(spec["init"], dt), conv(spec["maxP"], dt)), None
        return Linear2StageBattery(conv(spec["cap"], dt), conv(spec["init"], dt), conv(spec["maxP"], dt),
                                   noise_level=conv(spec["nl"], dt), transition_soc=conv(spec["ts"], dt),
                                   charge_calculation=spec["mode"]), None
    except Exception as e:  # noqa
        return None, type(e).__name__


def fnum(x):
    """python number -> float/int usable by q(); numpy scalars unwrapped"""
    if hasattr(x, "item"):
        x = x.item()
    return x


def observe(b, err, rate):
    o = _observe(b, err, rate)
    # the public read-only views must report the same quantities as the attributes
    try:
        if fnum(b.current_charging_power) != fnum(b._current_charging_power) and o["err"] is None:
            o["err"] = "PropertyMismatch(current_charging_power)"
    except Exception as e:  # noqa
        o["err"] = "PropertyRaised(%s)" % type(e).__name__
    return o


def _observe(b, err, rate):
    """non-finite observables (nan/inf, e.g. after a division by a zero voltage in numpy arithmetic) cannot be
    rationals: they are recorded as the pseudo-exception "NonFinite" with the offending fields zeroed, which no
    model outcome matches"""
    vals = dict(rate=fnum(rate) if err is None else 0, charge=fnum(b._current_charge), power=fnum(b._current_charging_power))
    bad = [k for k, v in vals.items() if isinstance(v, float) and not math.isfinite(v)]
    if bad:
        err = "NonFinite(%s)" % ",".join("%s=%r" % (k, vals[k]) for k in bad)
        for k in bad:
            vals[k] = 0
    return dict(err=err, **vals)


def roundtrip(b):
    """obj -> JSON string -> obj of the same class"""
    return type(b).from_json(b.to_json())


def apply_op(b, op, dt=None):
    """op: ('charge', pilot, V, T, noise) | ('reset', x|None); returns obs.  (('json',) is handled by run_ops.)"""
    if op[0] == "charge":
        _, pilot, V, T, noise = op
        pilot, V, T = conv(pilot, dt), conv(V, dt), conv(T, dt)
        err, rate = None, 0
        with _Noise(noise), warnings.catch_warnings():
            warnings.simplefilter("ignore")
            try:
                rate = b.charge(pilot, V, T)
            except Exception as e:  # noqa
                err = type(e).__name__
        return observe(b, err, rate)
    if op[0] == "reset":
        err = None
        try:
            if op[1] is None:
                b.reset()
            else:
                b.reset(conv(op[1], dt))
        except Exception as e:  # noqa
            err = type(e).__name__
        return observe(b, err, 0)
    raise ValueError(op)


def run_impl(spec, ops):
    """returns dict(ctor_err, obs=[...]) — obs empty when the constructor raised"""
    b, cerr = construct(spec)
    if b is None:
        return dict(ctor_err=cerr, obs=[])
    if spec["kind"] == "l2" and spec.get("force_mode") is not None:
        b.charge_calculation = spec["force_mode"]        # attribute reassigned after construction
    originals = []
    if spec.get("copy_first"):
        # the object under test is a deep copy of the constructed one (made before any call)
        originals.append((b, fnum(b._current_charge), fnum(b._current_charging_power)))
        b = deep_copy(b, spec["copy_first"])
    out = dict(ctor_err=None, obs=run_ops(b, ops, spec.get("dtype"), originals)[1])
    out["max_charging_power"] = fnum(b.max_charging_power) if hasattr(b, "max_charging_power") else None
    # objects that were copied from must not have been touched by what happened to their copies
    out["originals_untouched"] = all(fnum(o._current_charge) == c and fnum(o._current_charging_power) == p
                                     for o, c, p in originals)
    return out


def deep_copy(b, how="battery"):
    """copy.deepcopy of the battery itself, of an EV holding it, or of a list of EVs (what Simulator.get_active_evs and
    user code do); returns the copied battery"""
    import copy
    if how == "battery":
        return copy.deepcopy(b)
    from acnportal.acnsim.models import EV
    ev = EV(0, 10, 20, "S", "sess", b)
    if how == "ev":
        return copy.deepcopy(ev)._battery
    other = EV(0, 5, 3, "T", "sess2", copy.deepcopy(b))
    return copy.deepcopy([other, ev, ev])[1]._battery


def run_ops(b, ops, dt=None, originals=None):
    """apply ops to the object (('json',) replaces it by its JSON round trip, ('copy', how) by a deep copy);
    returns (final object, obs list).  originals: list collecting (object, charge, power) of every copied-from object"""
    obs = []
    for op in ops:
        if op[0] == "copy":
            err = None
            try:
                with warnings.catch_warnings():
                    warnings.simplefilter("ignore")
                    c = deep_copy(b, op[1] if len(op) > 1 else "battery")
                if originals is not None:
                    originals.append((b, fnum(b._current_charge), fnum(b._current_charging_power)))
                b = c
            except Exception as e:  # noqa
                err = type(e).__name__
            obs.append(observe(b, err, 0))
        elif op[0] == "json":
            err = None
            try:
                with warnings.catch_warnings():
                    warnings.simplefilter("ignore")
                    b = roundtrip(b)
            except Exception as e:  # noqa
                err = type(e).__name__
            obs.append(observe(b, err, 0))
        else:
            obs.append(apply_op(b, op, dt))
    return b, obs


def run_pair(spec_a, ops_a, spec_b, ops_b, order):
    """two LIVE objects driven alternately (order: list of 0/1 = whose next operation runs); returns the two impl
    records as run_impl would give them for each object alone — instances must not influence each other"""
    a, ea = construct(spec_a)
    b, eb = construct(spec_b)
    if a is None or b is None:
        return run_impl(spec_a, ops_a), run_impl(spec_b, ops_b)
    if spec_a.get("copy_first"):
        a = deep_copy(a, spec_a["copy_first"])
    if spec_b.get("copy_first"):
        b = deep_copy(b, spec_b["copy_first"])
    objs, opss, obs, pos = [a, b], [list(ops_a), list(ops_b)], [[], []], [0, 0]
    dts = [spec_a.get("dtype"), spec_b.get("dtype")]
    seq = list(order) + [0] * len(ops_a) + [1] * len(ops_b)
    for w in seq:
        if pos[w] < len(opss[w]):
            objs[w], o = run_ops(objs[w], [opss[w][pos[w]]], dts[w])
            obs[w].extend(o)
            pos[w] += 1
    return dict(ctor_err=None, obs=obs[0]), dict(ctor_err=None, obs=obs[1])


# ---------------------------------------------------------------------------------------------
# Coq rendering
# ---------------------------------------------------------------------------------------------
def mode_code(spec):
    """the charge_calculation in force when charge() runs"""
    m = spec.get("force_mode") if spec.get("force_mode") is not None else spec["mode"]
    return MODES.get(m, 7)


def batt_coq(spec):
    if spec["kind"] == "ideal":
        k = "Ideal"
    else:
        k = "(TwoStage %s %s %d%%Z)" % (q(spec["nl"]), q(spec["ts"]), MODES.get(spec["mode"], 7))
    return "{| b_kind := %s; b_cap := %s; b_maxP := %s; b_init := %s |}" % (k, q(spec["cap"]), q(spec["maxP"]), q(spec["init"]))


def op_coq(op):
    if op[0] in ("json", "copy"):
        return "Roundtrip"           # JSON round trip / deep copy: the identity on the modelled state
    if op[0] == "charge":
        _, pilot, V, T, noise = op
        return "(Charge %s %s %s %s %s)" % (q(pilot), q(V), q(T), q(noise), q(noise))
    return "(Reset %s)" % coq_opt(op[1], q)


def obs_coq(o):
    return "{| i_err := %s; i_rate := %s; i_charge := %s; i_power := %s |}" % (
        coq_opt(o["err"], coq_str), q(o["rate"]), q(o["charge"]), q(o["power"]))


def case_coq(spec, ops, impl):
    fm = spec.get("force_mode")
    return "{| c_batt := %s;\n   c_force_mode := %s;\n   c_ops := %s;\n   c_ctor_err := %s;\n   c_obs := %s |}" % (
        batt_coq(spec), "None" if fm is None else "(Some %d%%Z)" % MODES.get(fm, 7), coq_list([op_coq(o) for o in ops]), coq_opt(impl["ctor_err"], coq_str),
        coq_list([obs_coq(o) for o in impl["obs"]]))


# ---------------------------------------------------------------------------------------------
# exact quantities of the two-stage kernels (Fractions), used to aim at regime boundaries and to
# decide float-ambiguity
# ---------------------------------------------------------------------------------------------
def l2_quantities(spec, pilot, V, T):
    cap, maxP, ts = F(spec["cap"]), F(spec["maxP"]), F(spec["ts"])
    pd = F(pilot) * F(V) / 1000 / cap / (F(60) / F(T))
    md = maxP / cap / (F(60) / F(T))
    pd3 = md if pd > md else pd
    pts = ts + (pd3 - md) / md * (ts - 1)
    return dict(pd=pd, md=md, pd3=pd3, pts=pts)


def valid_for_model(spec):
    """the model (Coq's x/0 = 0) and Python (ZeroDivisionError) differ when the two-stage code divides by zero;
    such batteries are outside the hypotheses of every theorem and are not generated"""
    if spec["kind"] == "l2":
        return spec["cap"] > 0 and spec["maxP"] > 0
    return True


def stepwise_ambiguous(spec, charge_before, op, first):
    """the only decision of the kernels across which the result is discontinuous: `soc < transition_soc`
    in the stepwise kernel with noise on (subtractive |noise| below, additive noise above).
    first=True: the model sees exactly this state -> ambiguous iff the float and exact decisions differ;
    otherwise (state threaded through earlier float steps) -> ambiguous iff within 1e-9"""
    if spec["kind"] != "l2" or mode_code(spec) != 1 or not (spec["nl"] > 0) or op[0] != "charge":
        return False
    if op[2] <= 0 or op[3] <= 0:
        return False
    cap, ts = spec["cap"], spec["ts"]
    exact = F(charge_before) / F(cap) - F(ts)
    if first:
        return ((charge_before / cap) < ts) != (exact < 0)
    return abs(exact) <= F(1, 10**9)


def exp_argument(spec, charge_before, op):
    """exact argument of the exp() call of the continuous kernel (None when exp is not reached)"""
    if spec["kind"] != "l2" or mode_code(spec) != 0 or op[0] != "charge":
        return None
    _, pilot, V, T, _n = op
    if V <= 0 or T <= 0 or pilot == 0:
        return None
    qs = l2_quantities(spec, pilot, V, T)
    soc = F(charge_before) / F(spec["cap"])
    pd3, pts = qs["pd3"], qs["pts"]
    if pts == 1 or pd3 == 0:
        return None
    if soc < pts:
        if 1 <= (pts - soc) / pd3:
            return None
        return (pd3 + soc - pts) / (pts - 1)
    return pd3 / (pts - 1)


def ill_conditioned(spec, charge_before, op):
    """negative pilots put pilot_transition_soc above 1 and can make the exp argument arbitrarily large in
    magnitude (1/(pts-1)); Num.qexp is validated on [-3000, 5] only, and the doubles lose all precision there"""
    a = exp_argument(spec, charge_before, op)
    return a is not None and not (-3000 <= a <= 5)


def truncate_at_ambiguity(spec, ops, impl):
    """returns (ops', impl', ambiguous): the longest prefix whose decisions are float-robust"""
    if impl["ctor_err"] is not None:
        return ops, impl, False
    if not valid_for_model(spec):
        # a two-stage battery with max_power 0 (e.g. the class-swapped twin of an ideal 0 kW battery): the
        # kernels divide by zero; such cases are dropped by the callers, nothing to truncate
        return ops, impl, False
    charge = spec["init"]
    exact_state = True
    for k, (op, ob) in enumerate(zip(ops, impl["obs"])):
        if stepwise_ambiguous(spec, charge, op, exact_state) or ill_conditioned(spec, charge, op):
            if k == 0:
                return ops, impl, True
            return ops[:k], dict(ctor_err=None, obs=impl["obs"][:k]), False
        charge = ob["charge"]
        # after a reset the state is again exactly the model's
        exact_state = (op[0] == "reset")
    return ops, impl, False


# ---------------------------------------------------------------------------------------------
# numerical integration of the documented two-stage law (model-validation aid and C14 monitor)
#   d soc/dt = min(requested rate, max rate * (1 - soc)/(1 - ts))
# ---------------------------------------------------------------------------------------------
def ode_charge(cap, maxP, ts, charge, pilot, V, T, steps=2000):
    r = min(pilot * V / 1000.0, maxP) / cap / 60.0          # soc per minute
    k = maxP / cap / 60.0 / (1.0 - ts)

    def f(s):
        return min(r, k * (1.0 - s))
    s = charge / cap
    h = T / steps
    for _ in range(steps):
        k1 = f(s)
        k2 = f(s + h / 2 * k1)
        k3 = f(s + h / 2 * k2)
        k4 = f(s + h * k3)
        s += h / 6 * (k1 + 2 * k2 + 2 * k3 + k4)
    return s * cap


def qexp_cases(rng, n):
    xs = [0.0, -1e-9, -1.0, -0.5, -50.0, -700.0, 1.0, 3.5, -1e-3, -3000.0, -1500.0, 5.0]
    while len(xs) < n:
        t = rng.random()
        xs.append(-rng.uniform(0, 40) if t < 0.6 else -rng.uniform(0, 1) if t < 0.8 else
                  -rng.uniform(40, 3000) if t < 0.9 else rng.uniform(0, 5))
    out = []
    for x in xs[:n]:
        y = math.exp(x)
        out.append(dict(input=dict(x=x), impl=dict(exp=y), coq="(%s, %s)" % (q(x), q(y)), ambiguous=False,
                        kind="qexp", sig=["qexp", x], nontrivial=True))
    return out
