"""C03 — physical bounds of every battery model (ideal; two-stage continuous / stepwise; noise)."""
import fractions
import math
import time

from harness import batt, batt_sim
from harness.batt import F

PID = "C03"
GEN_GROUPS = ["Battery", "BatteryGuard", "Evse"]
TARGETS = ["coq/Props/C03.vo", "coq/Model/Battery.vo", "coq/Model/BatteryStation.vo"]
CASES = {"quick": 640, "thorough": 12000}
CORR_HEADER = batt.CORR_HEADER
CHECK_FN = "check_batt"
SHARD = 120
RULE = ("battery class (ideal / two-stage continuous / two-stage stepwise) x noise level x parameters; the initial "
        "charge is aimed at every regime boundary (soc = transition_soc, soc = pilot_transition_soc, crossing exactly "
        "at period end, exactly filling, full, empty) +- {0,1e-12,1e-9,1e-6,1e-3}, the pilot at pilot*V/1000 = max_power, "
        "0, negative, large; followed by a sequence of 1..8 operations (charge with noise injected through a patched "
        "numpy.random.normal, charge with voltage/period <= 0, reset(), reset(x), reset(x > capacity)); plus malformed "
        "constructions (init > capacity, transition_soc outside [0,1), unknown charge_calculation, charge_calculation "
        "reassigned after construction); non-trivial = distinct (battery, operation list); a case is cut before the "
        "first operation whose `soc < transition_soc` test (stepwise + noise: the only discontinuous decision) is "
        "within 1e-9 of flipping, and skipped as ambiguous if that is the first operation; ~10% of the operations are JSON "
        "round trips or deep copies (of the battery, of an EV holding it, of a list of EVs) of the object, 10% of the cases run "
        "on a deep copy from the start, ideal batteries also with max_power exactly 0 / 0.0 / 1e-3, 20% of the cases use numpy / int / float argument types, ~6% are pairs of live objects "
        "differing in one constructor argument and driven alternately, boundaries also at +-1 ulp, periods incl. 7, 9, 13, "
        "45, 90, 0.7, 2.5 min; stream `sim`: real Simulator runs "
        "(1-3 stations with EVSE / DeadbandEVSE / FiniteRatesEVSE incl. the AeroVironment and ClipperCreek rate tables, the "
        "get_evse_by_type factory and custom tables; sequential sessions with batteries of every class started empty .. full; "
        "schedules of accepted pilots with 0 A pauses, on/off and round-robin time-sharing while an EV is connected; "
        "scripted non-negative pilots, noise through the patched numpy.random.normal), one case per station comparing "
        "the recorded pilot_signals / charging_rates rows and final EV energies with the station model")
ASSUMPTIONS = ["theorems are over R (exact arithmetic, real exp); the implementation computes in IEEE doubles",
               "np.random.normal is an arbitrary real (explicit kernel parameter); the harness patches it to return the value given to the model",
               "two-stage theorems assume capacity > 0 and max_power > 0 (the constructors do not check this; with 0 the code raises ZeroDivisionError)",
               "the executable twin uses Num.qexp (rational approximation, validated against math.exp in the qexp stream)"]
TRUSTED_EXTRA = ["Base.Num.qexp as an approximation of exp in the executable twin only (no theorem uses it)"]

OFFS = [0.0, 0.0, 1e-12, 1e-9, 1e-6, 1e-3, 0.05]
CAPS = [8, 24, 40, 50, 60, 64, 85, 100]
MAXPS = [1.44, 3.3, 6.656, 7, 7.68, 11.5, 16, 50]
TSS = [0, 0.25, 0.5, 0.75, 0.8, 0.8, 0.9, 0.99]
NLS = [0, 0, 0, 0.1, 1, 1, 5, -1]          # a negative noise level is legal and means 'off'
VS = [120, 208, 208, 240, 277, 400]
TS_ = [1, 5, 5, 15, 60, 0.5, 7, 9, 2.5, 0.7, 45, 90, 13]      # incl. periods that do not divide an hour


def rand_spec(rng, kind=None):
    t = rng.random()
    if kind is None:
        kind = "ideal" if t < 0.22 else "l2"
    cap = rng.choice(CAPS) if rng.random() < 0.8 else round(rng.uniform(5, 120), 3)
    maxP = rng.choice(MAXPS) if rng.random() < 0.8 else round(rng.uniform(1, 60), 3)
    spec = dict(kind=kind, cap=cap, maxP=maxP, init=0)
    if kind == "ideal" and rng.random() < 0.08:
        spec["maxP"] = rng.choice([0, 0.0, 1e-3])       # a vehicle that accepts (almost) no charge: legal, rate must be 0
    if kind == "l2":
        spec["nl"] = rng.choice(NLS)
        spec["ts"] = rng.choice(TSS) if rng.random() < 0.85 else round(rng.uniform(0, 0.995), 4)
        spec["mode"] = rng.choice(["continuous", "continuous", "stepwise"])
    return spec


def rand_pilot(rng, spec, V):
    t = rng.random()
    edge = spec["maxP"] * 1000.0 / V
    if t < 0.25:
        return float(edge + rng.choice([1, -1]) * rng.choice(OFFS))
    if t < 0.33:
        return 0
    if t < 0.38:
        return rng.choice([-1, -6.5, -32])
    if t < 0.75:
        return rng.choice([6, 8, 16, 24, 32, 32, 48, 80])
    return round(rng.uniform(0.05, 90), 3)


def noise_for(rng, spec):
    nl = spec.get("nl", 0)
    t = rng.random()
    if t < 0.6:
        return rng.gauss(0, nl if nl > 0 else 1)
    return rng.choice([0.0, 1.0, -1.0, 100.0, -100.0, 0.3, -0.3, 1e-9])


def boundary_charges(spec, pilot, V, T):
    """stored charges (exact Fractions) at which some regime test of the class's kernel is an equality"""
    cap, maxP = F(spec["cap"]), F(spec["maxP"])
    out = [F(0), cap, cap / 2]
    P = min(F(pilot) * F(V) / 1000, maxP)
    if T > 0:
        out.append(cap - P * F(T) / 60)                 # exactly filling in this period
        out.append(cap - P * F(T) / 120)
    if spec["kind"] == "l2":
        ts = F(spec["ts"])
        out.append(ts * cap)
        if pilot != 0 and V > 0 and T > 0:
            qs = batt.l2_quantities(spec, pilot, V, T)
            out += [qs["pts"] * cap, (qs["pts"] - qs["pd3"]) * cap,          # knee; crossing exactly at period end
                    (qs["pts"] - qs["pd3"] / 2) * cap, (qs["pts"] + (1 - qs["pts"]) / 2) * cap]
    return out


def mode_is(spec, m):
    return spec["kind"] == "l2" and (spec.get("force_mode") or spec["mode"]) == m


def rand_ops(rng, spec, V, T, first_pilot):
    n = rng.choice([1, 1, 2, 3, 4, 6, 8])
    ops = []
    pilot = first_pilot
    pattern = rng.choice(["const", "vary", "vary", "zeros"])
    for i in range(n):
        t = rng.random()
        if i > 0 and t < 0.07:
            x = rng.choice([None, None, spec["cap"] / 2, spec["cap"], spec["cap"] * 1.0000001, spec["cap"] + 5, 0])
            ops.append(("reset", x))
            continue
        if i > 0 and t < 0.13:
            ops.append(("json",))                      # the object is replaced by its JSON round trip mid-sequence
            continue
        if i > 0 and t < 0.17:
            ops.append(("copy", rng.choice(["battery", "ev", "evlist"])))      # ... by a deep copy
            continue
        if t < 0.24:
            badV, badT = rng.choice([(0, T), (-1, T), (V, 0), (V, -5), (0, 0)])
            ops.append(("charge", pilot, badV, badT, noise_for(rng, spec)))
            continue
        if i > 0:
            if pattern == "vary":
                pilot = rand_pilot(rng, spec, V)
            elif pattern == "zeros" and rng.random() < 0.5:
                pilot = 0
        ops.append(("charge", pilot, V, T, noise_for(rng, spec)))
    return ops


def malformed(rng):
    spec = rand_spec(rng)
    t = rng.random()
    if t < 0.35 or spec["kind"] == "ideal":
        spec["init"] = spec["cap"] + rng.choice([1e-9, 1e-3, 1, 50])
    elif t < 0.6:
        spec["ts"] = rng.choice([1, 1.0000001, 1.5, -0.1, -1e-9])
    elif t < 0.8:
        spec["mode"] = "bogus"
    else:
        spec["force_mode"] = rng.choice(["bogus", "stepwise", "continuous"])
        spec["init"] = spec["cap"] / 2
    return spec


def one_case(rng, spec=None):
    if spec is None:
        spec = malformed(rng) if rng.random() < 0.06 else rand_spec(rng)
    V, T = rng.choice(VS), rng.choice(TS_)
    pilot = rand_pilot(rng, spec, V)
    if "force_mode" not in spec and spec["init"] == 0:
        if rng.random() < 0.8:
            c = rng.choice(boundary_charges(spec, pilot, V, T)) + F(rng.choice([1, -1]) * rng.choice(OFFS)) * F(spec["cap"]) / 64
            c = float(c)
        else:
            c = round(rng.uniform(0, spec["cap"]), 4)
        if rng.random() < 0.12:                        # one ulp next to the boundary
            c = math.nextafter(c, rng.choice([-math.inf, math.inf]))
        if c > spec["cap"] and rng.random() < 0.85:
            c = spec["cap"]
        if c < 0 and rng.random() < 0.7:
            c = 0.0
        spec["init"] = c
    ops = rand_ops(rng, spec, V, T, pilot)
    if rng.random() < 0.2:
        spec["dtype"] = rng.choice(DTYPES)             # same numbers as numpy scalars / python ints / floats
    if rng.random() < 0.1 and "force_mode" not in spec:
        spec["copy_first"] = rng.choice(["battery", "ev", "evlist"])      # the object under test is a deep copy
    return build(spec, ops)


DTYPES = ["np", "npf", "int", "float"]


def pair_cases(rng):
    """two live batteries driven alternately: B is A with ONE constructor argument changed (so that anything cached
    under a key that omits it, or kept on the class / module, leaks from one to the other); both receive the same
    calls.  Returns the two cases; each object's observations are compared with the model of that object alone."""
    a = rand_spec(rng)
    V, T = rng.choice(VS), rng.choice(TS_)
    pilot = rand_pilot(rng, a, V)
    if pilot < 0 or 0 < pilot < 0.05:
        pilot = 32
    a["init"] = round(rng.uniform(0, a["cap"]), 3) if rng.random() < 0.5 else float(rng.choice(boundary_charges(a, pilot, V, T)))
    a["init"] = min(max(a["init"], 0.0), float(a["cap"]))
    b = dict(a)
    what = rng.choice(["maxP", "maxP", "cap", "init", "ts", "nl", "mode", "class"])
    if what == "maxP":
        b["maxP"] = a["maxP"] * rng.choice([0.5, 2, 3]) if rng.random() < 0.7 else rng.choice(MAXPS)
    elif what == "cap":
        b["cap"] = a["cap"] * 2
    elif what == "init":
        b["init"] = a["init"] / 2
    elif what == "class":
        b = dict(kind="ideal", cap=a["cap"], maxP=a["maxP"], init=a["init"]) if a["kind"] == "l2" else \
            dict(a, kind="l2", nl=0, ts=0.8, mode="continuous")
    elif a["kind"] == "l2":
        if what == "ts":
            b["ts"] = rng.choice([x for x in TSS if x != a["ts"]])
        elif what == "nl":
            b["nl"] = 0 if a["nl"] > 0 else 1
        else:
            b["mode"] = "stepwise" if a["mode"] == "continuous" else "continuous"
    else:
        b["maxP"] = a["maxP"] * 2
    ops = [o for o in rand_ops(rng, a, V, T, pilot)]
    if len(ops) < 2:
        ops = ops + [("charge", pilot, V, T, noise_for(rng, a))]
    order = [rng.choice([0, 1]) for _ in range(2 * len(ops))]
    if rng.random() < 0.5:
        a, b = b, a                                        # which of the two goes first / has the larger value
    return build_pair(a, b, ops, order)


def build_pair(a, b, ops, order):
    ia, ib = batt.run_pair(a, ops, b, ops, order)
    ca, cb = build(a, ops, ia, tag="pair"), build(b, ops, ib, tag="pair")
    for c, which in ((ca, 0), (cb, 1)):
        c["input"]["pair"] = dict(a=a, b=b, ops=[list(o) for o in ops], order=order, which=which)
    return [ca, cb]


def build(spec, ops, impl=None, tag=None):
    if impl is None:
        impl = batt.run_impl(spec, ops)
    if impl["ctor_err"] is not None:
        ops = []
    ops, impl, amb = batt.truncate_at_ambiguity(spec, ops, impl)
    kind = spec["kind"] if spec["kind"] == "ideal" else "l2-%s%s" % (spec.get("force_mode") or spec["mode"], "+noise" if spec["nl"] > 0 else "")
    if impl["ctor_err"] is not None:
        kind += "/ctor-error"
    elif any(o["err"] for o in impl["obs"]):
        kind += "/with-error-op"
    elif len(ops) > 1:
        kind += "/seq"
    else:
        kind += "/single"
    if tag:
        kind += "/" + tag
    if spec.get("dtype"):
        kind += "/dtype"
    return dict(input=dict(spec=spec, ops=[list(o) for o in ops]), impl=impl, coq=batt.case_coq(spec, ops, impl),
                ambiguous=amb, kind=kind, sig=[spec, [list(o) for o in ops]], nontrivial=True)


def gen_cases(rng, n, tier):
    cases = [build(dict(s), [tuple(o) for o in ops]) for s, ops in CORPUS]
    while len(cases) < n:
        if rng.random() < 0.06:
            cases.extend(c for c in pair_cases(rng) if batt.valid_for_model(c["input"]["spec"]))
            continue
        c = one_case(rng)
        if not batt.valid_for_model(c["input"]["spec"]):
            continue
        cases.append(c)
    return cases[:n]


def sim_cases(rng, nsims):
    """real Simulator runs; one case per station: recorded pilot / rate rows vs the station model"""
    out = []
    for _ in range(nsims):
        inp = batt_sim.rand_sim(rng, __import__("harness.c03", fromlist=["x"]))
        out.extend(build_sim(inp))
    return out


def build_sim(inp):
    impl = batt_sim.run_sim(inp)
    amb = impl["error"] is None and batt_sim.ambiguous(inp, impl)
    out = []
    for s, coq in enumerate(batt_sim.station_cases(inp, impl)):
        out.append(dict(input=dict(sim=inp, station=s), impl=impl, coq=coq, ambiguous=amb, kind="sim/station",
                        sig=["sim", inp, s], nontrivial=impl["periods"] > 0))
    return out


def extra_streams(rng, tier):
    return [("sim", batt_sim.HEADER, batt_sim.CHECK_FN, sim_cases(rng, 40 if tier == "quick" else 400)),
            ("qexp", CORR_HEADER, "check_qexp", batt.qexp_cases(rng, 60 if tier == "quick" else 600))]


# witnesses of earlier findings are always part of the stream (known_findings.json: fixed in 79f722b)
CORPUS = [
    (dict(kind="l2", cap=50, maxP=7, init=10, nl=1, ts=0.8, mode="continuous"), [("charge", 1, 208, 5, 1.0)]),
    (dict(kind="l2", cap=50, maxP=7, init=10, nl=1, ts=0.8, mode="continuous"), [("charge", 1, 208, 5, -1.0)]),
    (dict(kind="l2", cap=50, maxP=7, init=45, nl=1, ts=0.8, mode="continuous"), [("charge", 32, 208, 5, 100.0)]),
    (dict(kind="l2", cap=50, maxP=7, init=45, nl=1, ts=0.8, mode="stepwise"), [("charge", 32, 208, 5, 100.0)]),
    (dict(kind="l2", cap=50, maxP=7, init=10, nl=1, ts=0.8, mode="stepwise"), [("charge", 32, 208, 5, 100.0)]),
    (dict(kind="ideal", cap=50, maxP=7, init=49.9, ), [("charge", 32, 208, 5, 0.0), ("charge", 32, 208, 5, 0.0)]),
    # a battery rated exactly 0 kW accepts no charge (int and float zero)
    (dict(kind="ideal", cap=50, maxP=0, init=10), [("charge", 32, 240, 5, 0.0), ("charge", 80, 240, 15, 0.0)]),
    (dict(kind="ideal", cap=50, maxP=0.0, init=10), [("charge", 32, 240, 5, 0.0)]),
    # deep copies keep every constructor option
    (dict(kind="l2", cap=50, maxP=7, init=30, nl=1, ts=0.5, mode="stepwise", copy_first="ev"),
     [("charge", 32, 208, 5, 0.5), ("copy", "evlist"), ("charge", 32, 208, 5, -0.5)]),
]


# ---------------------------------------------------------------------------------------------
# monitor: C03 stated on the implementation's recorded behaviour
# ---------------------------------------------------------------------------------------------
REL = 1e-9


def monitor_sim(case):
    """Hence in every simulation 0 <= recorded rate <= recorded pilot at every station and period."""
    impl, s = case["impl"], case["input"]["station"]
    if impl["error"] is not None:
        return "simulation with valid non-negative pilots raised %s" % impl["error"]
    for t, (p, r) in enumerate(zip(impl["pilots"][s], impl["rates"][s])):
        tol = REL * max(1.0, abs(p))
        if not (-tol <= r <= p + tol):
            return "station %d period %d: recorded rate %r outside [0, recorded pilot %r]" % (s, t, r, p)
    # every other public view of the same quantities must tell the same story
    v, sid = impl.get("views"), impl.get("sids", [None] * (s + 1))[s]
    if v:
        for t, (pil, rat) in enumerate(v["net"][:impl["periods"]]):
            if pil[s] != impl["pilots"][s][t] or rat[s] != impl["rates"][s][t]:
                return ("station %d period %d: network reports pilot %r / rate %r, the simulator recorded %r / %r"
                        % (s, t, pil[s], rat[s], impl["pilots"][s][t], impl["rates"][s][t]))
        if v["df_rates"][sid] != impl["rates"][s] or v["df_pilots"][sid] != impl["pilots"][s]:
            return "station %s: charging_rates_as_df / pilot_signals_as_df column differs from the matrices' row %d" % (sid, s)
        sim = case["input"]["sim"]
        for t, applied, actual in v["iface"]:
            for k, sess in enumerate(sim["sessions"]):
                name = "sess%d" % k
                if sess["station"] != s or name not in applied or name not in actual:
                    continue
                p, r = applied[name], actual[name]
                if 1 <= t <= impl["periods"] and p != impl["pilots"][s][t - 1]:
                    return "Interface.last_applied_pilot_signals[%s] at t=%d is %r, recorded pilot %r" % (name, t, p, impl["pilots"][s][t - 1])
                if not (-REL <= r <= p + REL * max(1.0, abs(p))):
                    return "Interface at t=%d: last actual rate %r of %s outside [0, last applied pilot %r]" % (t, r, name, p)
    rr = impl.get("rerun")
    if rr is not None and (rr["error"] is not None or not rr["same"]):
        return "second simulation of the same EV objects after EV.reset() differs from the first (error %r)" % rr["error"]
    return None


def monitor(case):
    if case.get("kind") == "qexp" or case.get("ambiguous"):
        return None
    if case.get("kind") == "sim/station":
        return monitor_sim(case)
    spec, ops, impl = case["input"]["spec"], case["input"]["ops"], case["impl"]
    cap, maxP, init = spec["cap"], spec["maxP"], spec["init"]
    l2 = spec["kind"] == "l2"
    # constructor guards
    must_reject = init > cap or (l2 and not (0 <= spec["ts"] < 1)) or (l2 and spec["mode"] not in batt.MODES)
    if must_reject != (impl["ctor_err"] is not None):
        return "constructor %s although init=%r cap=%r ts=%r mode=%r" % (
            "accepted" if must_reject else "refused (%s)" % impl["ctor_err"], init, cap, spec.get("ts"), spec.get("mode"))
    if impl["ctor_err"] is not None:
        return None if impl["ctor_err"] == "ValueError" else "constructor raised %s" % impl["ctor_err"]
    hyp = (cap > 0 and maxP > 0) if l2 else maxP >= 0        # C03_ideal needs max_power >= 0 only
    if impl.get("max_charging_power") is not None and impl["max_charging_power"] != maxP:
        return "max_charging_power reports %r for a battery constructed with max_power %r" % (impl["max_charging_power"], maxP)
    if impl.get("originals_untouched") is False:
        return "charging a deep copy changed the battery it was copied from"
    charge, power = init, 0
    mode_ok = (not l2) or batt.mode_code(spec) in (0, 1)
    tainted = False      # a negative pilot was applied: the state may exceed capacity (outside the hypotheses)
    for k, (op, ob) in enumerate(zip(ops, impl["obs"])):
        tol = REL * max(1.0, abs(cap))
        if op[0] in ("json", "copy"):
            if ob["err"] is not None or ob["charge"] != charge or ob["power"] != power:
                return "op %d: %s changed the battery: %r, charge %r -> %r, power %r -> %r" % (
                    k, "JSON round trip" if op[0] == "json" else "deep copy", ob["err"], charge, ob["charge"], power, ob["power"])
        elif op[0] == "reset":
            x = op[1]
            if x is not None and x > cap:
                if ob["err"] != "ValueError" or ob["charge"] != charge or ob["power"] != power:
                    return "op %d: reset(%r) above capacity %r not refused / state changed" % (k, x, cap)
            else:
                want = init if x is None else x
                if ob["err"] is not None or ob["charge"] != want or ob["power"] != 0:
                    return "op %d: reset(%r) gave charge %r power %r (expected %r, 0)" % (k, x, ob["charge"], ob["power"], want)
                tainted = False
        else:
            _, pilot, V, T, noise = op
            if V <= 0 or T <= 0 or not mode_ok:
                if ob["err"] != "ValueError" or ob["charge"] != charge or ob["power"] != power:
                    return "op %d: charge(V=%r, T=%r) must raise ValueError and leave the state alone; got %r, charge %r -> %r" % (
                        k, V, T, ob["err"], charge, ob["charge"])
            elif pilot < 0:
                tainted = True
            elif hyp and not tainted and charge <= cap * (1 + 1e-12):
                if ob["err"] is not None:
                    return "op %d: charge raised %s on valid arguments" % (k, ob["err"])
                rtol = REL * max(1.0, abs(pilot))
                if not (-rtol <= ob["rate"] <= pilot + rtol):
                    return "op %d: rate %r outside [0, pilot=%r]" % (k, ob["rate"], pilot)
                if not (-tol <= ob["power"] <= maxP * (1 + REL)):
                    return "op %d: power %r outside [0, max_power=%r]" % (k, ob["power"], maxP)
                if ob["charge"] < charge - tol:
                    return "op %d: stored charge decreased %r -> %r" % (k, charge, ob["charge"])
                if ob["charge"] > cap * (1 + REL) + (tol if cap == 0 else 0):
                    return "op %d: stored charge %r exceeds capacity %r" % (k, ob["charge"], cap)
        charge, power = ob["charge"], ob["power"]
    return None


def search(rng, budget_s, broken):
    t0 = time.time()
    while time.time() - t0 < budget_s:
        for _ in range(300):
            c = one_case(rng)
            r = monitor(c)
            if r:
                return dict(case=c["input"], impl=c["impl"], why=r)
        for _ in range(20):
            for c in pair_cases(rng):
                r = monitor(c)
                if r:
                    return dict(case=c["input"], impl=c["impl"], why=r)
        for c in sim_cases(rng, 10):
            r = monitor(c)
            if r:
                return dict(case=c["input"], impl=c["impl"], why=r)
    return None


def replay(w):
    inp = w["case"]
    if "sim" in inp:
        for c in build_sim(inp["sim"]):
            r = monitor(c)
            if r:
                return r
        return None
    if inp.get("pair"):
        pr = inp["pair"]
        cs = build_pair(dict(pr["a"]), dict(pr["b"]), [tuple(o) for o in pr["ops"]], list(pr["order"]))
        return monitor(cs[pr["which"]]) or monitor(cs[1 - pr["which"]])
    spec, ops = inp["spec"], [tuple(o) for o in inp["ops"]]
    c = build(dict(spec), ops)
    return monitor(c)
