"""C09 — interrupted, serialised and resumed runs equal the uninterrupted run.

Correspondence: generated histories are run on the REAL Simulator: a reference run, then for EVERY
scheduler call k a run whose scheduler raises at call k, followed by (i) run() again on the same
object and (ii) to_json -> Simulator.from_json -> update_scheduler(fresh scheduler) -> run().
Stream ""   : discrete observables (iteration, _resolve, _last_schedule_update, queue array in heap
              order, event_history, ev_history keys, occupancy, scheduler-call log) of the reference,
              crash, loaded and both resumed states against Model/Resume.v (check_c09).
Stream "reg": the live object graph at the crash point, the context_dict produced by the real
              _to_registry and the object graph of the loaded simulator against Model/Registry.v
              (check_c09reg: DFS order and content of the registry, canonical form of the load).
Monitor (property on the implementation): both resumed runs equal the reference run (pilot_signals,
charging_rates, per-session energies and battery charge, peak, event_history, iteration,
schedule_history); after loading, every session is one EV object shared by its EVSE, ev_history,
event_history and the pending events; the loaded graph carries the same classes, scalars and
references as the dumped one."""
import datetime
import hashlib
import json
import os
import sys
import time
import warnings

import numpy as np

from harness.core import z, coq_list, coq_bool, coq_opt, coq_str, ROOT, REPO

PID = "C09"
GEN_GROUPS = ["ResumeZ", "Serial"]
TARGETS = ["coq/Props/C09.vo", "coq/Model/Resume.vo", "coq/Model/ResumeHeap.vo", "coq/Model/Registry.vo"]
CASES = {"quick": 40, "thorough": 600}          # histories; every scheduler call of each is a crash point
CORR_HEADER = ("From Coq Require Import ZArith List String.\n"
               "From ACN Require Import Base.Num Base.ResumeBase Model.Resume Model.ResumeHeap.\nImport ListNotations.\n"
               "Open Scope string_scope.\nOpen Scope Z_scope.\n")
CHECK_FN = "check_c09_both"   # own CPython heapq model and the C11 EventQueue model
SHARD = 60
REG_HEADER = ("From Coq Require Import ZArith List String.\n"
              "From ACN Require Import Base.Num Model.Registry.\nImport ListNotations.\n"
              "Open Scope string_scope.\nOpen Scope Z_scope.\n")
RULE = ("history = 1-4 stations (EVSE / DeadbandEVSE / FiniteRatesEVSE; some EVSE / DeadbandEVSE left at the default max_rate=inf), back-to-back sessions per station with "
        "Battery or Linear2StageBattery (continuous/stepwise, with and without noise), ties of plugins/unplugs at one "
        "timestamp, RecomputeEvents before/between/after the sessions, untyped base Events, max_recompute in {None,1,2,3}, "
        "store_schedule_history on/off, scripted / UncontrolledCharging / sorted schedulers, the interruption an Exception, "
        "a BaseException subclass or KeyboardInterrupt, raised at the start or at the very end of the algorithm's run "
        "(after it fetched and edited its session copies: sorted / round-robin preprocessing, a scripted allocator "
        "that books on its copies); sorted / round-robin with the SimpleRampdown estimator (learned state: always the "
        "same scheduler object after a round trip, raise at the start), the loaded simulator given a fresh scheduler / the same scheduler "
        "object / one registered with another simulator; station ids whose sort order differs from registration order, "
        "mixed-case, numeric-looking and empty ids; periods 0.5/2.5/7; non-default tolerances; signals; scheduler output as "
        "ints / numpy scalars / numpy arrays; numpy timestamps; a scheduler that overwrites the lists it returned; dumps "
        "through string / path / buffer; per history: dump of the completed and of the not yet started simulator, a chain "
        "of interruptions, a sibling simulator run between the two continuations, a second load of the same dump, events "
        "added and a constraint changed at the interruption (in place vs loaded), for two histories a load in a second "
        "process with another PYTHONHASHSEED; shuffled event insertion "
        "order; one case per (history, scheduler call k at which the scheduler raises); the corpus witnesses first; a "
        "small share of histories belongs to the known-finding class (zero-stay session); "
        "non-trivial = distinct (history, k)")
ASSUMPTIONS = [
    "the scheduler's output is a function of the simulator state it observes (scheduler-internal state is not "
    "serialised by acnportal and is outside the property)",
    "C09_resume is proved for every event-queue implementation satisfying queue_laws (pop returns exactly the due "
    "events, push adds one event); that heapq-based EventQueue satisfies them is property C11; the CPython heapq "
    "model used here is compared with the real queue array at every crash point",
    "no event raises while it is processed (plugging into an occupied or unknown station is C01's subject)",
    "JSON text encoding (json.dumps/json.loads, NpEncoder) is trusted: the registry model works on the tree",
]
TRUSTED_EXTRA = ["tools/serial_gen.py (ast dataflow over _to_dict/_from_dict/__init__/run/_process_event -> Gen/Serial.v)"]

warnings.filterwarnings("ignore")
sys.path.insert(0, os.path.join(ROOT, "tools"))

KNOWN_ZERO_STAY = "known:zero-stay-session"


class SchedulerCrash(Exception):
    pass


class SchedulerAbort(BaseException):
    """an interruption outside the Exception hierarchy (like a solver time-out signal)"""


INTERRUPTS = (SchedulerCrash, SchedulerAbort, KeyboardInterrupt)
EXC_KINDS = [SchedulerCrash, SchedulerAbort, KeyboardInterrupt]


def exc_kind(h, k):
    """which exception class the scheduler raises at call k of history h (deterministic)"""
    return (h["script_seed"] + 2 * k) % 3


def stateful(h):
    """does the scheduler keep learned state of its own (SimpleRampdown bounds)?  That state is not part of the
    simulator or of its JSON: it survives exactly when the SAME scheduler object is given to the loaded simulator,
    and an aborted run of the algorithm must not have touched it (so such a scheduler raises at the start)."""
    return h["sched"][0] == "sorted_ramp"


def late_raise(h, k):
    """does the scheduler raise at the very END of its run (after it has fetched and edited its session
    copies and computed a schedule) instead of at the beginning?"""
    return (h["script_seed"] // 5 + k) % 2 == 1 and not stateful(h)


def attach_mode(h, k):
    """which scheduler object is given to the LOADED simulator: 0 a fresh instance, 1 the very object that
    drove the interrupted run, 2 an instance that is already registered with another simulator"""
    return 1 if stateful(h) else (h["script_seed"] // 3 + k) % 3


# ---------------------------------------------------------------------------------------------
# history generator
# ---------------------------------------------------------------------------------------------
def gen_history(rng, special=None, big=False):
    n_st = rng.choice([1, 2, 2, 3, 3, 4]) if not big else rng.choice([3, 4, 5, 6])
    stations = []
    for i in range(n_st):
        t = rng.random()
        if t < 0.4:
            kind = ["C", 0, rng.choice([16, 32, 32, 40, None])]      # None: the default max_rate=inf
        elif t < 0.7:
            kind = ["D", rng.choice([6, 8]), rng.choice([16, 32, None])]
        else:
            kind = ["F", rng.choice([[8, 16, 24, 32], [6, 12, 18], [16, 32], [0, 8, 16]])]
        stations.append(dict(kind=kind, voltage=rng.choice([208, 240])))
    horizon = rng.choice([4, 6, 8, 10, 12]) if not big else rng.choice([12, 16, 20, 24])
    sessions = []
    tie_time = rng.randint(0, max(0, horizon - 2))
    for i in range(n_st):
        t = tie_time if rng.random() < 0.45 else rng.randint(0, max(0, horizon - 2))
        while t < horizon and len(sessions) < (9 if not big else 20):
            stay = rng.choice([1, 1, 2, 2, 3, 4, 5])
            dep = t + stay
            if rng.random() < 0.3:
                dep = max(t + 1, tie_time if tie_time > t else dep)     # unplug ties across stations
            r = rng.random()
            cap = rng.choice([5, 10, 20, 40])
            init = rng.choice([0, 0, cap * 0.5, cap * 0.9, cap])
            maxp = rng.choice([3.3, 6.6, 7.0, 10])
            if r < 0.45:
                batt = ["B", cap, init, maxp]
            else:
                batt = ["L2", cap, init, maxp, rng.choice([0, 0, 0.2]), rng.choice([0.8, 0.5, 0.9, 0, 0.0]),
                        rng.choice(["continuous", "stepwise"])]
            energy = rng.choice([0.5, 1, 2, 4, 8, 0.01, 0])
            sessions.append(dict(station=i, arrival=t, departure=dep, energy=energy, battery=batt,
                                 est_departure=rng.choice([None, dep, dep + 1])))
            if rng.random() < 0.45:
                break
            t = dep + rng.choice([0, 0, 1, 2])
    if not sessions:
        sessions.append(dict(station=0, arrival=0, departure=2, energy=1, battery=["B", 10, 0, 6.6], est_departure=None))
    last = max(s["departure"] for s in sessions)
    extra = []
    for _ in range(rng.choice([0, 0, 1, 2, 3])):
        extra.append(["RecomputeEvent", rng.choice([rng.randint(0, last), last, last + 1, last + rng.randint(1, 3), 0])])
    mr = rng.choice([None, None, 1, 2, 3])
    sched = rng.choice([["scripted"], ["scripted"], ["scripted"], ["uncontrolled"], ["sorted", rng.choice(["edf", "fcfs", "llf", "rr"])]])
    if any(st["kind"][0] in "CD" and st["kind"][2] is None for st in stations) and sched[0] == "sorted":
        sched = ["uncontrolled"]
    if rng.random() < 0.12 and not special:
        # a scheduler with LEARNED state: sorted / round-robin with the SimpleRampdown upper-bound estimator, on a
        # history where the learned bounds matter: continuous EVSEs, on-board chargers that draw less than the
        # pilot (so bounds ramp down after the first period), long overlapping sessions, a shared limit
        sched = ["sorted_ramp", rng.choice(["edf", "fcfs", "llf", "rr"])]
        n_st = rng.choice([2, 3])
        stations = [dict(kind=["C", 0, 32], voltage=rng.choice([208, 240])) for _ in range(n_st)]
        sessions = []
        for i in range(n_st):
            a = rng.choice([0, 0, 1, 2])
            d = a + rng.choice([5, 6, 8])
            sessions.append(dict(station=i, arrival=a, departure=d, energy=rng.choice([8, 12]),
                                 battery=["B", 40, 0, rng.choice([3.3, 3.3, 5.0, 6.6]) if i else 3.3],
                                 est_departure=rng.choice([None, d])))
        last = max(x["departure"] for x in sessions)
        extra = [e for e in extra if e[1] <= last][:1]
        mr = rng.choice([None, 1, 1, 2])
    if special == "zero_stay":
        sched = ["scripted"]
        s = rng.choice(sessions)
        for o in sessions:       # keep the station free afterwards
            if o is not s and o["station"] == s["station"] and o["arrival"] >= s["arrival"]:
                o["drop"] = True
        sessions = [o for o in sessions if not o.get("drop")]
        s["departure"] = s["arrival"] - rng.choice([0, 0, 1]) if s["arrival"] > 0 else s["arrival"]
        s["est_departure"] = None
    if special == "untyped":
        # base-class Event objects (event_type ""): processed without any effect
        if rng.random() < 0.6:
            # the class of the fixed finding: the untyped event drains the queue, max_recompute drives the calls
            mr = rng.choice([1, 2])
            extra = [e for e in extra if e[1] <= last]
            extra.append(["Event", last + rng.randint(1, 3)])
        for _ in range(rng.choice([0, 1, 2])):
            extra.append(["Event", rng.randint(0, last + 2)])
    order = list(range(len(sessions) + len(extra)))
    rng.shuffle(order)
    h = dict(stations=stations, sessions=sessions, extra=extra, mr=mr, sched=sched, order=order,
             store_hist=rng.random() < 0.5, period=rng.choice([1, 5, 5, 7, 0.5, 2.5]), script_seed=rng.randint(0, 10**6),
             np_seed=rng.randint(0, 10**6), constraint=rng.choice([None, None, 60, 1000]), special=special,
             start=[rng.choice([2019, 2020, 2021]), rng.randint(1, 12), rng.randint(1, 12), rng.randint(0, 23),
                    rng.randint(0, 59), rng.randint(0, 59), rng.choice([0, 0, 250000, 123456])])
    if sched[0] == "sorted_ramp":
        h["constraint"] = rng.choice([40, 48, 60])
    # ids, tolerances, signals, dtypes (checklist items 4, 6, 8, 3)
    if rng.random() < 0.4:
        h["station_ids"] = rng.choice(STATION_ID_SCHEMES[1:])[:n_st] if n_st <= 6 else None
    if rng.random() < 0.3:
        h["session_ids"] = rng.choice(SESSION_ID_SCHEMES[1:])
    if rng.random() < 0.3:
        h["tols"] = rng.choice([[0, 0], [1e-3, 0.0], [0.5, 1e-2], [1e-9, 1e-12]])
    if rng.random() < 0.25:
        h["signals"] = rng.choice([{"tariff": [0.1, 0.25, 3]}, {"a": {"b": None}, "n": 0}, {}, []])
    if sched[0] == "scripted":
        h["sched_dtype"] = rng.choice([0, 0, 1, 2, 3, 4])
        if rng.random() < 0.15 and not special:
            h["mutating_sched"] = True
            h["sched_dtype"] = 0
            h["store_hist"] = False       # schedule_history keeps references to the scheduler's own lists
    if rng.random() < 0.2:
        h["np_times"] = True
    if sched[0] == "scripted" and not special and not h.get("mutating_sched") and rng.random() < 0.35:
        h["alloc"] = True
        h["sched_dtype"] = 0
    return h


STATION_ID_SCHEMES = [
    None,                                             # S0, S1, ...
    ["S-9", "S-10", "S-11", "S-8", "S-100", "S-2"],   # lexicographic order != registration order
    ["b", "A", "a", "B", "c", "C"],                   # mixed case
    ["10", "9", "08", "7", "100", "1e1"],             # numeric looking
    ["x", "", "0", "X", " ", "None"],                 # falsy / odd strings
]
SESSION_ID_SCHEMES = [None, "rev-numeric", "mixed", "falsy"]


def st_id(h, i):
    ids = h.get("station_ids")
    return ids[i] if ids else "S%d" % i


def se_id(h, n):
    sch = h.get("session_ids")
    if sch == "rev-numeric":
        return "%d" % (30 - n)
    if sch == "mixed":
        return ("Sess-%d" if n % 2 else "sess-%d") % (11 - n)
    if sch == "falsy":
        return ["", "0", "None"][n] if n < 3 else "s%d" % n
    return "s%d" % n


_SESS = {}      # session id -> session number of the history being run
SKIPPED = []    # why reference runs were unusable (the reference run itself raised)


def allowable(kind):
    if kind[0] == "C":
        if kind[2] is None:
            return [0, 48, 16, 8, 6.5, 100]
        return [0, kind[2], kind[2] / 2, 8, 6.5, kind[2]]
    if kind[0] == "D":
        if kind[2] is None:
            return [0, kind[1], 40, kind[1] + 10]
        return [0, kind[1], kind[2], (kind[1] + kind[2]) / 2]
    return [0] + list(kind[1])


def script(h, t):
    """the scripted scheduler: a function of the iteration only"""
    import random
    r = random.Random(h["script_seed"] * 7919 + t)
    length = r.choice([1, 1, 1, 2, 3])
    out = {}
    for i, st in enumerate(h["stations"]):
        if r.random() < 0.8:
            out[st_id(h, i)] = [r.choice(allowable(st["kind"])) for _ in range(length)]
    # dtype variants of the scheduler output: python numbers, ints where possible, numpy scalars, numpy arrays
    dt = h.get("sched_dtype", 0)
    if dt == 1:
        out = {k: [int(x) if float(x).is_integer() else x for x in v] for k, v in out.items()}
    elif dt == 2:
        out = {k: [np.float64(x) for x in v] for k, v in out.items()}
    elif dt == 3:
        out = {k: np.array(v, dtype=float) for k, v in out.items()}
    elif dt == 4:
        out = {k: (np.array(v) if j % 2 else [np.int64(x) if float(x).is_integer() else x for x in v])
               for j, (k, v) in enumerate(out.items())}
    return out


# ---------------------------------------------------------------------------------------------
# building and running the real simulator
# ---------------------------------------------------------------------------------------------
def make_scheduler(h):
    from acnportal.algorithms import BaseAlgorithm, UncontrolledCharging, SortedSchedulingAlgo, RoundRobin
    from acnportal.algorithms import earliest_deadline_first, first_come_first_served, least_laxity_first
    s = h["sched"]
    if s[0] == "scripted":
        class Scripted(BaseAlgorithm):
            def run(self_inner):
                if h.get("mutating_sched"):
                    # the scheduler owns the objects it returned: it overwrites them at its next call
                    for v in getattr(self_inner, "_prev", {}).values():
                        for j in range(len(v)):
                            v[j] = 99.0
                out = script(h, self_inner.interface.current_time)
                if h.get("alloc"):
                    # an allocator that books its plan on ITS copies of the sessions (not idempotent) and
                    # derives the pilots from the edited copies
                    ids = [st_id(h, i) for i in range(len(h["stations"]))]
                    length = len(next(iter(out.values()))) if out else 1
                    for sess in self_inner.interface.active_sessions():
                        i = ids.index(sess.station_id)
                        sess.energy_delivered += 0.125 * (i + 1)
                        if len(sess.max_rates):
                            sess.max_rates[0] = min(sess.max_rates[0], 64.0) / 2
                        al = allowable(h["stations"][i]["kind"])
                        key = int(round(sess.energy_delivered * 8)) + int(sess.max_rates[0] if len(sess.max_rates) else 0)
                        out[sess.station_id] = [al[key % len(al)]] * length
                self_inner._prev = out
                return out
        a = Scripted()
        a.max_recompute = h["mr"]
        return a
    if s[0] == "uncontrolled":
        a = UncontrolledCharging()
    else:
        fn = dict(edf=earliest_deadline_first, fcfs=first_come_first_served, llf=least_laxity_first,
                  rr=first_come_first_served)[s[1]]
        if s[0] == "sorted_ramp":
            from acnportal.algorithms import SimpleRampdown
            kw = dict(estimate_max_rate=True, max_rate_estimator=SimpleRampdown())
        else:
            kw = {}
        a = RoundRobin(fn, **kw) if s[1] == "rr" else SortedSchedulingAlgo(fn, **kw)
    if h["mr"] is not None:
        a.max_recompute = h["mr"]
    return a


def effective_mr(h):
    if h["sched"][0] == "scripted":
        return h["mr"]
    return h["mr"] if h["mr"] is not None else 1


_CRASHING = None


def crashing_class():
    """Crashing(inner, k, calls): a BaseAlgorithm that wraps a scheduler; its k-th call (0-based) raises an
    exception of the given kind; logs the iterations of successful calls"""
    global _CRASHING
    if _CRASHING is None:
        from acnportal.algorithms import BaseAlgorithm

        class Crashing(BaseAlgorithm):
            def __init__(self, inner, k, calls, kind=0, late=False):
                super().__init__()
                self.inner, self.k, self.n, self.calls, self.kind, self.late = inner, k, 0, calls, kind, late
                self.max_recompute = inner.max_recompute

            def register_interface(self, interface):
                super().register_interface(interface)
                self.inner.register_interface(interface)

            def run(self):
                n = self.n
                self.n += 1
                if self.k is not None and n == self.k:
                    if self.late:
                        # the algorithm runs completely (it may edit the session objects it was given)
                        # and fails when it is about to return
                        self.inner.run()
                    raise EXC_KINDS[self.kind]("scheduler raised at call %d" % n)
                r = self.inner.run()
                self.calls.append(int(self.interface.current_time))
                return r
        _CRASHING = Crashing
    return _CRASHING


def Crashing(inner, k, calls, kind=0, late=False):
    return crashing_class()(inner, k, calls, kind, late)


def make_evse(i, st):
    from acnportal.acnsim.models import EVSE, DeadbandEVSE, FiniteRatesEVSE
    k = st["kind"]
    if k[0] == "C":
        return EVSE(st["id"], min_rate=k[1]) if k[2] is None else EVSE(st["id"], max_rate=k[2], min_rate=k[1])
    if k[0] == "D":
        return (DeadbandEVSE(st["id"], deadband_end=k[1]) if k[2] is None
                else DeadbandEVSE(st["id"], deadband_end=k[1], max_rate=k[2]))
    return FiniteRatesEVSE(st["id"], list(k[1]))


def make_events(h):
    from acnportal.acnsim import PluginEvent, RecomputeEvent, Event
    from acnportal.acnsim.models import EV, Battery, Linear2StageBattery
    evs = []
    _SESS.clear()
    npt = (lambda x: np.int64(x)) if h.get("np_times") else (lambda x: x)
    for n, s in enumerate(h["sessions"]):
        _SESS[se_id(h, n)] = n
        b = s["battery"]
        if b[0] == "B":
            batt = Battery(b[1], b[2], b[3])
        else:
            batt = Linear2StageBattery(b[1], b[2], b[3], noise_level=b[4], transition_soc=b[5], charge_calculation=b[6])
        ev = EV(npt(s["arrival"]), npt(s["departure"]), np.float64(s["energy"]) if h.get("np_times") else s["energy"],
                st_id(h, s["station"]), se_id(h, n), batt, estimated_departure=s["est_departure"])
        evs.append(PluginEvent(npt(s["arrival"]), ev))
    for cls, t in h["extra"]:
        evs.append(RecomputeEvent(npt(t)) if cls == "RecomputeEvent" else Event(npt(t)))
    return [evs[i] for i in h["order"]]


def build(h, scheduler):
    from acnportal.acnsim import Simulator, ChargingNetwork, EventQueue, Current
    tols = h.get("tols")
    net = ChargingNetwork(*tols) if tols else ChargingNetwork()
    for i, st in enumerate(h["stations"]):
        net.register_evse(make_evse(i, dict(st, id=st_id(h, i))), st["voltage"], 0)
    if h["constraint"]:
        net.add_constraint(Current([st_id(h, i) for i in range(len(h["stations"]))]), h["constraint"], name="C0")
    return Simulator(net, scheduler, EventQueue(make_events(h)), datetime.datetime(*h.get("start", [2020, 1, 1])),
                     period=h["period"], signals=h.get("signals"),
                     store_schedule_history=h["store_hist"], verbose=False)


def sess_no(ev_or_none):
    return _SESS.get(ev_or_none.session_id, 99) if ev_or_none is not None else -1


def ev_triple(e):
    return [e.event_type, int(e.timestamp), sess_no(getattr(e, "ev", None))]


def observe(sim, calls):
    occ = []
    for i, sid in enumerate(sim.network.station_ids):
        ev = sim.network.get_ev(sid)
        if ev is not None:
            occ.append([i, sess_no(ev)])
    return dict(iter=int(sim._iteration), resolve=bool(sim._resolve),
                last=None if sim._last_schedule_update is None else int(sim._last_schedule_update),
                queue=[[e.event_type, int(ts), sess_no(getattr(e, "ev", None))] for ts, e in sim.event_queue._queue],
                ehist=[ev_triple(e) for e in sim.event_history],
                evh=[_SESS.get(k, 99) for k in sim.ev_history.keys()], occ=occ, calls=list(calls))


def norm(v):
    """JSON-able normal form of an attribute value (numbers as floats, arrays as lists)"""
    from acnportal.acnsim.base import BaseSimObj
    if isinstance(v, BaseSimObj):
        return "<ref>"
    if isinstance(v, (bool, np.bool_)):
        return bool(v)
    if v is None or isinstance(v, str):
        return v
    if isinstance(v, (int, float, np.integer, np.floating)):
        f = float(v)
        return repr(f)
    if isinstance(v, np.ndarray):
        return [norm(x) for x in v.tolist()]
    if isinstance(v, dict):
        return [["%s:%s" % (type(k).__name__, k), norm(x)] for k, x in v.items()]
    if isinstance(v, (list, tuple)):
        return [norm(x) for x in v]
    if isinstance(v, datetime.datetime):
        return v.isoformat()
    return "<obj>"


def numeric(sim):
    """the observables named by the property, in exact form"""
    return dict(
        iter=int(sim._iteration),
        pilots=norm(sim.pilot_signals), rates=norm(sim.charging_rates),
        energy=[[sid, norm(ev.energy_delivered), norm(ev._battery._current_charge), norm(ev.current_charging_rate)]
                for sid, ev in sim.ev_history.items()],
        peak=norm(sim.peak), ehist=[ev_triple(e) for e in sim.event_history],
        sched_hist=norm(sim.schedule_history), queue_left=len(sim.event_queue._queue),
        resolve=bool(sim._resolve))


def identity_report(sim):
    """problems with object sharing in a simulator (expected: none)"""
    bad = []
    evs = {}

    def see(where, ev):
        evs.setdefault(ev.session_id, {})[id(ev)] = where
    for sid in sim.network.station_ids:
        ev = sim.network.get_ev(sid)
        if ev is not None:
            see("evse " + sid, ev)
            if sim.ev_history.get(ev.session_id) is not ev:
                bad.append("network.get_ev(%s) is not ev_history[%s]" % (sid, ev.session_id))
    for k, ev in sim.ev_history.items():
        see("ev_history", ev)
    for ts, e in sim.event_queue._queue:
        if hasattr(e, "ev"):
            see("queue %s@%d" % (e.event_type, ts), e.ev)
            if e.event_type == "Unplug" and sim.ev_history.get(e.ev.session_id) is not e.ev:
                bad.append("pending UnplugEvent(%d).ev is not ev_history[%s]" % (ts, e.ev.session_id))
    for e in sim.event_history:
        if hasattr(e, "ev"):
            see("event_history", e.ev)
    for sid, d in evs.items():
        if len(d) > 1:
            bad.append("session %s is %d distinct EV objects (%s)" % (sid, len(d), ", ".join(sorted(d.values()))))
    batts = {}
    for sid, ev in sim.ev_history.items():
        batts.setdefault(id(ev._battery), []).append(sid)
    for b, sids in batts.items():
        if len(sids) > 1:
            bad.append("sessions %s share one battery object" % sids)
    return bad


# ---- object graphs -----------------------------------------------------------------------------
_REFKEYS = None


def ref_keys():
    """class name -> attributes dumped through a nested _to_registry, in call order (from the code text)"""
    global _REFKEYS
    if _REFKEYS is None:
        import serial_gen
        tab = serial_gen.Table(REPO)
        _REFKEYS = {c: serial_gen.dumped(tab, c)[2] for c in serial_gen.CLASSES}
    return _REFKEYS


def flatten_refs(v, out):
    from acnportal.acnsim.base import BaseSimObj
    if isinstance(v, BaseSimObj):
        out.append(v)
    elif isinstance(v, dict):
        for x in v.values():
            flatten_refs(x, out)
    elif isinstance(v, (list, tuple)):
        for x in v:
            flatten_refs(x, out)


def children(obj):
    out = []
    for key in ref_keys().get(type(obj).__name__, []):
        flatten_refs(getattr(obj, key), out)
    return out


def digest(obj):
    sc = [[k, norm(v)] for k, v in sorted(vars(obj).items())]
    return int(hashlib.sha256(json.dumps(sc).encode()).hexdigest()[:14], 16), sc


def graph_of(root):
    """DFS preorder numbering of the objects reachable from root: (nodes, id->addr)
    nodes[i] = [class name, scalar digest, [child addrs], scalars]"""
    addr, nodes = {}, []

    def visit(o):
        if id(o) in addr:
            return addr[id(o)]
        a = len(nodes)
        addr[id(o)] = a
        d, sc = digest(o)
        nodes.append([type(o).__name__, d, None, sc])
        nodes[a][2] = [visit(c) for c in children(o)]
        return a
    visit(root)
    return nodes, addr


def registry_view(registry, addr):
    """the real context_dict in insertion order, with ids renamed by addr: [[addr, class, [ref addrs]]]"""
    ctx = registry["context_dict"]
    out = []

    def refs(v, acc):
        if isinstance(v, str) and v in ctx:
            acc.append(addr.get(int(v), -1))
        elif isinstance(v, dict):
            for x in v.values():
                refs(x, acc)
        elif isinstance(v, (list, tuple)):
            for x in v:
                refs(x, acc)
    for k, e in ctx.items():
        acc = []
        refs(e["attributes"], acc)
        out.append([addr.get(int(k), -1), e["class"].rsplit(".", 1)[-1], acc])
    return out, addr.get(int(registry["id"]), -1)


def run_chain_impl(h, ref_ncalls):
    """several interruptions in one simulation, each followed by run() again, some of them with a
    JSON round trip in between; returns (plan, numeric observables | problem string)"""
    import random
    from acnportal.acnsim import Simulator
    r = random.Random(h["script_seed"] * 31 + 5)
    ks = [r.randint(0, 2) for _ in range(r.choice([2, 3, 4]))]
    via_json = [r.random() < 0.5 for _ in ks]
    np.random.seed(h["np_seed"])
    calls = []
    wrap = Crashing(make_scheduler(h), ks[0], calls, r.randint(0, 2), not stateful(h))
    sim = build(h, wrap)
    try:
        for i in range(len(ks) + 1):
            try:
                sim.run()
                break
            except INTERRUPTS:
                pass
            nxt = ks[i + 1] if i + 1 < len(ks) else None
            if via_json[i]:
                st = np.random.get_state()
                sim = Simulator.from_json(sim.to_json())
                np.random.set_state(st)
                if r.random() < 0.5 or stateful(h):
                    wrap.k, wrap.n, wrap.kind = nxt, 0, r.randint(0, 2)      # the very same scheduler object
                else:
                    wrap = Crashing(make_scheduler(h), nxt, calls, r.randint(0, 2), r.random() < 0.5 and not stateful(h))
                sim.update_scheduler(wrap)
            else:
                wrap.k, wrap.n, wrap.kind = nxt, 0, r.randint(0, 2)
        if sim.event_queue._queue and not sim._resolve:
            return [ks, via_json], "run() returned with events pending"
        return [ks, via_json], numeric(sim)
    except Exception as e:   # noqa
        return [ks, via_json], "chain of interruptions raised %s: %s" % (type(e).__name__, e)


def dump_load(sim, mode):
    """to_json / from_json through the three documented channels: 0 string, 1 file path, 2 file-like buffer"""
    import io
    import tempfile
    from acnportal.acnsim import Simulator
    if mode == 1:
        d = tempfile.mkdtemp(prefix="c09_")
        path = os.path.join(d, "sim.json")
        try:
            sim.to_json(path)
            with open(path) as f:
                text = f.read()
            return Simulator.from_json(path), text
        finally:
            try:
                os.unlink(path)
                os.rmdir(d)
            except OSError:
                pass
    if mode == 2:
        buf = io.StringIO()
        sim.to_json(buf)
        text = buf.getvalue()
        buf.seek(0)
        return Simulator.from_json(buf), text
    text = sim.to_json()
    return Simulator.from_json(text), text


def state_diffs(nodes, nodes2):
    diffs = []
    if len(nodes) != len(nodes2):
        diffs.append("%d objects dumped, %d loaded" % (len(nodes), len(nodes2)))
    for a, (n1, n2) in enumerate(zip(nodes, nodes2)):
        if n1[0] != n2[0] or n1[2] != n2[2]:
            diffs.append("object %d: %s%s loaded as %s%s" % (a, n1[0], n1[2], n2[0], n2[2]))
        elif n1[1] != n2[1]:
            d = [(x[0], x[1], y[1]) for x, y in zip(n1[3], n2[3]) if x != y and x[0] != "scheduler"]
            if d or len(n1[3]) != len(n2[3]):
                diffs.append("%s object %d: attributes differ after load: %s" % (n1[0], a, str(d)[:300]))
    return diffs[:5]


def sibling(h):
    """a simulation of the same shape with other values (other schedules, energies, noise)"""
    h2 = dict(h, script_seed=h["script_seed"] + 1, np_seed=h["np_seed"] + 1)
    h2["sessions"] = [dict(x, energy=x["energy"] * 0.5 + 0.25) for x in h["sessions"]]
    return h2


def plain_run(h):
    np.random.seed(h["np_seed"])
    sim = build(h, Crashing(make_scheduler(h), None, []))
    sim.run()
    return numeric(sim), sim


def mutate_after_interruption(sim, h):
    """what a user may do with an interrupted simulator before resuming it"""
    from acnportal.acnsim import PluginEvent, RecomputeEvent, Current
    from acnportal.acnsim.models import EV, Battery
    last = max([x["departure"] for x in h["sessions"]] + [t for _, t in h["extra"]] + [sim._iteration])
    sim.event_queue.add_event(RecomputeEvent(sim._iteration + 1))
    n = len(h["sessions"])
    _SESS["added-session"] = n
    ev = EV(last + 1, last + 3, 2.5, st_id(h, 0), "added-session", Battery(20, 1, 6.6))
    sim.event_queue.add_event(PluginEvent(last + 1, ev))
    if h["constraint"]:
        sim.network.update_constraint("C0", Current([st_id(h, i) for i in range(len(h["stations"]))]),
                                      h["constraint"] * 0.5)


def run_mutated_impl(h, k):
    """interrupt at call k; add events / change a constraint; resume (a) in place and (b) after a JSON round trip:
    both must end in the same state"""
    try:
        out = []
        for via_json in (False, True):
            np.random.seed(h["np_seed"])
            wrap = Crashing(make_scheduler(h), k, [], exc_kind(h, k))
            sim = build(h, wrap)
            try:
                sim.run()
                return None
            except INTERRUPTS:
                pass
            if via_json:
                st = np.random.get_state()
                sim, _ = dump_load(sim, 0)
                np.random.set_state(st)
                if stateful(h):
                    wrap.k, wrap.n = None, 0
                    sim.update_scheduler(wrap)
                else:
                    sim.update_scheduler(Crashing(make_scheduler(h), None, []))
            mutate_after_interruption(sim, h)
            try:
                sim.run()
            except INTERRUPTS:
                raise
            except Exception as e:   # noqa
                # the changed scenario may legitimately end in an error of the simulated system (e.g. round robin
                # handing a dead-band pilot to a DeadbandEVSE once the limit is halved: InvalidRateError); what C09
                # demands is that both resumptions behave alike, so the error class is the outcome compared
                out.append("raised %s" % type(e).__name__)
                continue
            out.append(numeric(sim))
        if isinstance(out[0], str) or isinstance(out[1], str):
            if out[0] == out[1]:
                return None
            return ("interrupted at call %d, events added and constraint changed: resumed in place %s, after a JSON "
                    "round trip %s" % (k, out[0] if isinstance(out[0], str) else "completed",
                                       out[1] if isinstance(out[1], str) else "completed"))
        d = first_diff(out[0], out[1])
        return None if d is None else "interrupted at call %d, events added and constraint changed, resumed in place vs after a JSON round trip: %s differs" % (k, d)
    except Exception as e:   # noqa
        return "mutation after the interruption at call %d: %s: %s" % (k, type(e).__name__, e)


def child_main(path):
    """second process (another PYTHONHASHSEED): load the dumped simulator, give it a scheduler, run"""
    with open(path) as f:
        job = json.load(f)
    from acnportal.acnsim import Simulator
    h = job["history"]
    make_events(h)          # fills the session numbering
    sim = Simulator.from_json(job["text"])
    sim.update_scheduler(Crashing(make_scheduler(h), None, []))
    sim.run()
    print("C09CHILD " + json.dumps(numeric(sim)))


def run_in_second_process(h, text):
    import subprocess
    import tempfile
    fd, path = tempfile.mkstemp(prefix="c09_", suffix=".json")
    try:
        with os.fdopen(fd, "w") as f:
            json.dump(dict(history=h, text=text), f)
        env = dict(os.environ, PYTHONHASHSEED="4711", PYTHONPATH="%s:%s" % (REPO, ROOT))
        p = subprocess.run([sys.executable, "-m", "harness.c09", "--child", path], cwd=ROOT, env=env,
                           stdout=subprocess.PIPE, stderr=subprocess.PIPE, text=True, timeout=120)
        for line in p.stdout.split("\n"):
            if line.startswith("C09CHILD "):
                return json.loads(line[9:])
        return "second process failed: " + (p.stderr.strip().split("\n") or [""])[-1][:300]
    finally:
        os.unlink(path)


def has_noise(h):
    return any(x["battery"][0] == "L2" and x["battery"][4] for x in h["sessions"])


def run_history(h, second_process=False):
    """reference run + one record per crash point k.  Returns None if the history cannot be used
    (the reference run itself raises)."""
    from acnportal.acnsim import Simulator
    np.random.seed(h["np_seed"])
    ref_calls = []
    ref = build(h, Crashing(make_scheduler(h), None, ref_calls))
    try:
        ref.run()
    except Exception as e:   # noqa
        SKIPPED.append("%s: %s" % (type(e).__name__, str(e)[:120]))
        return None
    ref_obs, ref_num = observe(ref, ref_calls), numeric(ref)
    ncalls = len(ref_calls)
    recs = []
    extras = {}
    # a completed simulator survives a round trip as well (state, identity)
    try:
        nodes_ref, _ = graph_of(ref)
        done, _ = dump_load(ref, h["script_seed"] % 3)
        make_events(h)
        nodes_done, _ = graph_of(done)
        d = state_diffs(nodes_ref, nodes_done)
        extras["completed"] = ("completed simulator after a round trip: " + "; ".join(d[:2] + identity_report(done)[:2])
                               if d or identity_report(done) else None)
    except Exception as e:   # noqa
        extras["completed"] = "dump/load of the completed simulator raised %s: %s" % (type(e).__name__, e)
    chain_plan, chain_res = run_chain_impl(h, ncalls)
    # dump before the first run(): the loaded simulator must produce the reference run as well
    try:
        np.random.seed(h["np_seed"])
        fresh = build(h, Crashing(make_scheduler(h), None, []))
        loaded, _ = dump_load(fresh, (h["script_seed"] + 1) % 3)
        loaded.update_scheduler(Crashing(make_scheduler(h), None, []))
        loaded.run()
        pre_res = numeric(loaded)
    except Exception as e:   # noqa
        pre_res = "dump before run(), load, run() raised %s: %s" % (type(e).__name__, e)
    # one interruption point per history carries the additional scenario families
    kx = (h["script_seed"] % ncalls) if ncalls else None
    sib = sibling(h)
    try:
        sib_ref = plain_run(sib)[0]
    except Exception:   # noqa
        sib_ref = None
    if kx is not None:
        extras["mutated"] = run_mutated_impl(h, kx)
    for k in range(ncalls):
        np.random.seed(h["np_seed"])
        calls = []
        wrap = Crashing(make_scheduler(h), k, calls, exc_kind(h, k), late_raise(h, k))
        sim = build(h, wrap)
        try:
            sim.run()
            recs.append(dict(k=k, problem="the scheduler's call %d was never reached" % k))
            continue
        except INTERRUPTS:
            pass
        crash_obs = observe(sim, calls)
        rec = dict(k=k, ref=ref_obs, crash=crash_obs,
                   raised=EXC_KINDS[exc_kind(h, k)].__name__ + (" at the end of its run" if late_raise(h, k) else ""))
        problem = None
        # dump at the interruption point; dumping must not change the simulator
        nodes, addr = graph_of(sim)
        registry = sim._to_registry()[0]
        io_mode = (h["script_seed"] // 27 + k) % 3
        donor, donor_wrap = sim, wrap
        if stateful(h):
            # a scheduler with learned state can serve ONE continuation: the round trip gets an identical second
            # interrupted simulation with its own scheduler object
            np.random.seed(h["np_seed"])
            donor_wrap = Crashing(make_scheduler(h), k, [], exc_kind(h, k), late_raise(h, k))
            donor = build(h, donor_wrap)
            try:
                donor.run()
            except INTERRUPTS:
                pass
        try:
            sim2, text = dump_load(donor, io_mode)
        except Exception as e:   # noqa
            sim2, text = None, None
            problem = "to_json/from_json (%s) raised %s: %s" % (["string", "path", "buffer"][io_mode], type(e).__name__, e)
        nodes_after, _ = graph_of(donor)
        if [n[:3] for n in nodes_after] != [n[:3] for n in nodes]:
            problem = (problem + "; " if problem else "") + "to_json changed the simulator it dumped"
        rec["graph"] = [n[:3] for n in nodes]
        rec["ctx"], rec["ctx_root"] = registry_view(registry, addr)
        rng_state = np.random.get_state()

        def in_place():
            np.random.set_state(rng_state)
            sim.run()
            rec["resumed"] = observe(sim, calls)
            rec["resumed_num"] = numeric(sim)

        def after_load():
            np.random.set_state(rng_state)
            calls2 = list(crash_obs["calls"])
            mode = attach_mode(h, k)
            if mode == 1:
                # the scheduler object that drove the interrupted run (still bound to the old simulator)
                sched2 = donor_wrap
                sched2.k, sched2.n, sched2.calls = None, 0, calls2
            elif mode == 2:
                # a scheduler that is already registered with another simulator of the same history
                sched2 = Crashing(make_scheduler(h), None, calls2)
                build(h, sched2)
            else:
                sched2 = Crashing(make_scheduler(h), None, calls2)
            rec["attach"] = ["fresh", "same-object", "registered-elsewhere"][mode]
            sim2.update_scheduler(sched2)
            rec["loaded"] = observe(sim2, calls2)
            rec["identity"] = identity_report(sim2)
            nodes2, _ = graph_of(sim2)
            rec["graph2"] = [n[:3] for n in nodes2]
            rec["state_diffs"] = state_diffs(nodes, nodes2)
            sim2.run()
            rec["resumed_loaded"] = observe(sim2, calls2)
            rec["resumed_loaded_num"] = numeric(sim2)

        # order of the two continuations alternates; with the same scheduler object the in-place one goes first
        steps = [("run() after the interruption", in_place), ("dump/load/run", after_load)]
        if (h["script_seed"] // 9 + k) % 2 and (attach_mode(h, k) != 1 or stateful(h)):
            steps.reverse()
        rec["order"] = [n for n, _ in steps]
        for idx, (name, fn) in enumerate(steps):
            if name == "dump/load/run" and sim2 is None:
                continue
            try:
                fn()
            except Exception as e:   # noqa
                problem = (problem + "; " if problem else "") + "%s raised %s: %s" % (name, type(e).__name__, e)
            if idx == 0 and k == kx and sib_ref is not None:
                # another simulator of the same shape runs completely between the two continuations
                try:
                    got = plain_run(sib)[0]
                    make_events(h)
                    d = first_diff(sib_ref, got)
                    if d:
                        extras["sibling"] = "a second simulator run while this one was interrupted: its %s differs from its run in isolation" % d
                except Exception as e:   # noqa
                    extras["sibling"] = "second simulator raised %s: %s" % (type(e).__name__, e)
                    make_events(h)
        if k == kx and text is not None and not stateful(h):
            # a second, independent load of the same dump (fresh scheduler objects: not for schedulers with learned state)
            try:
                np.random.set_state(rng_state)
                sim3 = Simulator.from_json(text)
                shared = {id(o) for o in _objects(sim2)} & {id(o) for o in _objects(sim3)} if sim2 is not None else set()
                sim3.update_scheduler(Crashing(make_scheduler(h), None, []))
                sim3.run()
                d = first_diff(ref_num, numeric(sim3))
                if shared:
                    extras["second_load"] = "two loads of one dump share %d objects" % len(shared)
                elif d:
                    extras["second_load"] = "a second load of the same dump, run after the first: %s differs from the uninterrupted run" % d
            except Exception as e:   # noqa
                extras["second_load"] = "second load raised %s: %s" % (type(e).__name__, e)
            if second_process and not has_noise(h):
                got = run_in_second_process(h, text)
                if isinstance(got, str):
                    extras["process"] = got
                else:
                    d = first_diff(ref_num, got)
                    if d:
                        extras["process"] = "dump loaded and resumed in a second process (other PYTHONHASHSEED): %s differs from the uninterrupted run" % d
        rec["ref_num"] = ref_num
        if k == 0:
            rec["chain_plan"], rec["chain"] = chain_plan, chain_res
            rec["pre"] = pre_res
        if problem:
            rec["problem"] = problem
        recs.append(rec)
    if recs:
        recs[0]["extras"] = {a: b for a, b in extras.items() if b}
    return recs


def _objects(root):
    """all BaseSimObj objects reachable from root"""
    seen, out, todo = set(), [], [root]
    while todo:
        o = todo.pop()
        if id(o) in seen:
            continue
        seen.add(id(o))
        out.append(o)
        todo.extend(children(o))
    return out


# ---------------------------------------------------------------------------------------------
# Coq terms
# ---------------------------------------------------------------------------------------------
def zz(n):
    return "(%d)" % n if n < 0 else "%d" % n


def triple(t):
    return "(%s, %s, %s)" % (coq_str(t[0]), zz(t[1]), zz(t[2]))


def obs_coq(o):
    return ("{| o_iter := %s; o_resolve := %s; o_last := %s; o_queue := %s; o_ehist := %s; o_evh := %s; "
            "o_occ := %s; o_calls := %s |}") % (
        zz(o["iter"]), coq_bool(o["resolve"]), coq_opt(o["last"], zz), coq_list([triple(t) for t in o["queue"]]),
        coq_list([triple(t) for t in o["ehist"]]), coq_list([zz(x) for x in o["evh"]]),
        coq_list(["(%s, %s)" % (zz(a), zz(b)) for a, b in o["occ"]]), coq_list([zz(x) for x in o["calls"]]))


def events_coq(h):
    evs = []
    for n, s in enumerate(h["sessions"]):
        evs.append('(mk_event "PluginEvent" %s %s %s %s)' % (zz(s["arrival"]), zz(n), zz(s["station"]), zz(s["departure"])))
    for cls, t in h["extra"]:
        evs.append('(mk_event "%s" %s (-1) (-1) (-1))' % (cls, zz(t)))
    return coq_list([evs[i] for i in h["order"]])


def fuel_of(h):
    ts = [s["departure"] for s in h["sessions"]] + [s["arrival"] for s in h["sessions"]] + [t for _, t in h["extra"]]
    return max(ts) + 6


def graph_coq(nodes):
    return coq_list(["(%d%%nat, mkobj %s %d %s)" % (a, coq_str(n[0]), n[1], coq_list(["%d%%nat" % c for c in n[2]]))
                     for a, n in enumerate(nodes)])


def history_sig(h):
    return hashlib.sha256(json.dumps(h, sort_keys=True).encode()).hexdigest()[:12]


def cases_of_history(h, second_process=False):
    recs = run_history(h, second_process)
    if recs is None:
        return None
    main, reg = [], []
    hs = history_sig(h)
    special = h.get("special")
    for rec in recs:
        sig = [hs, rec["k"]]
        if special == "zero_stay":
            sig = KNOWN_ZERO_STAY
        inp = dict(history=h, k=rec["k"])
        kind = "%s/%s/%s" % (h["sched"][0], "mr%s" % effective_mr(h), special or "plain")
        complete = all(x in rec for x in ("resumed", "loaded", "resumed_loaded"))
        impl = {x: rec.get(x) for x in ("ref", "crash", "resumed", "loaded", "resumed_loaded", "identity",
                                        "state_diffs", "problem", "ref_num", "resumed_num", "resumed_loaded_num", "attach", "raised",
                                        "chain_plan", "chain", "pre", "extras", "order")}
        if complete:
            coq = ("{| c_events := %s; c_mr := %s; c_k := %d%%nat; c_fuel := %d%%nat;\n   i_ref := %s;\n   i_crash := %s;\n"
                   "   i_resumed := %s;\n   i_loaded := %s;\n   i_resumed_loaded := %s |}") % (
                events_coq(h), coq_opt(effective_mr(h), zz), rec["k"], fuel_of(h), obs_coq(rec["ref"]),
                obs_coq(rec["crash"]), obs_coq(rec["resumed"]), obs_coq(rec["loaded"]), obs_coq(rec["resumed_loaded"]))
        else:
            coq = None
        main.append(dict(input=inp, impl=impl, coq=coq, ambiguous=False, kind=kind, sig=sig, nontrivial=True))
        if complete and "graph2" in rec:
            rcoq = ("{| r_heap := %s; r_root := 0%%nat; r_fuel := 12%%nat;\n   i_ctx := %s; i_ctx_root := %d%%nat;\n"
                    "   i_heap2 := %s; i_root2 := 0%%nat |}") % (
                graph_coq(rec["graph"]),
                coq_list(["(%d%%nat, (%s, %s))" % (a, coq_str(c), coq_list(["%d%%nat" % r for r in rs]))
                          for a, c, rs in rec["ctx"]]), rec["ctx_root"], graph_coq(rec["graph2"]))
            reg.append(dict(input=dict(inp, stream="registry"), impl=dict(graph=rec["graph"], ctx=rec["ctx"],
                                                                         graph2=rec["graph2"]),
                            coq=rcoq, ambiguous=False, kind="registry/%d-objects" % (10 * (len(rec["graph"]) // 10)),
                            sig=["reg"] + (sig if isinstance(sig, list) else [sig, hs, rec["k"]]), nontrivial=True))
    return main, reg


_REG_CASES = []


def corpus_histories():
    """witnesses of fixed findings (corpus/C09/*.json): (name, history); every crash point of each is run first"""
    import glob
    out = []
    for path in sorted(glob.glob(os.path.join(ROOT, "corpus", "C09", "*.json"))):
        with open(path) as f:
            out.append((os.path.basename(path)[:-5], json.load(f)["case"]["history"]))
    return out


def gen_cases(rng, n, tier):
    global _REG_CASES
    _REG_CASES = []
    cases = []
    for name, h in corpus_histories():
        res = cases_of_history(h)
        if res is None:
            cases.append(dict(input=dict(history=h, k=0), impl=dict(problem="corpus %s: the reference run raises" % name),
                              coq="bad_case", ambiguous=False, kind="corpus", sig=["corpus", name], nontrivial=True))
            continue
        for c in res[0]:
            c["kind"] = "corpus/" + name
            c["sig"] = ["corpus", name, c["input"]["k"]]
        cases.extend(res[0])
        _REG_CASES.extend(res[1])
    made = 0
    attempts = 0
    skipped = 0
    while made < n and attempts < 20 * n:
        attempts += 1
        r = rng.random()
        special = "zero_stay" if r < 0.05 else "untyped" if r < 0.10 else None
        h = gen_history(rng, special, big=(tier == "thorough" and rng.random() < 0.15))
        res = cases_of_history(h, second_process=(made < 2))
        if res is None or not res[0]:
            skipped += 1
            continue
        made += 1
        cases.extend(res[0])
        _REG_CASES.extend(res[1])
    # cases without a complete impl record cannot be evaluated by the model; they are reported by the monitor
    for c in cases:
        if c["coq"] is None:
            c["ambiguous"] = False
            c["coq"] = "bad_case"
    return cases


REG_CAP = {"quick": 400, "thorough": 2500}


def extra_streams(rng, tier):
    cases = _REG_CASES
    cap = REG_CAP.get(tier, 400)
    if len(cases) > cap:
        cases = rng.sample(cases, cap)
    return [("reg", REG_HEADER, "check_c09reg", cases)]


# ---------------------------------------------------------------------------------------------
# the property on the implementation
# ---------------------------------------------------------------------------------------------
def first_diff(a, b):
    for key in a:
        if a[key] != b.get(key):
            return key
    return None


def monitor(case, include_known=False):
    """the property on the implementation's recorded behaviour.  Cases of the open known-finding class
    (zero-stay sessions) diverge on the unchanged code already; they are never offered as the failing input of
    something else (include_known is used only when the known finding itself is replayed)."""
    i = case["impl"]
    if case["input"].get("stream") == "registry":
        return None
    if isinstance(case.get("sig"), str) and case["sig"].startswith("known:") and not include_known:
        return None
    if i.get("problem"):
        return i["problem"]
    ref = i["ref_num"]
    d = first_diff(ref, i["resumed_num"])
    if d:
        return "run() again after the scheduler raised %s at call %d: %s differs from the uninterrupted run" % (
            i.get("raised"), case["input"]["k"], d)
    d = first_diff(ref, i["resumed_loaded_num"])
    if d:
        return ("to_json/from_json/update_scheduler(%s scheduler)/run() after the scheduler raised %s at call %d: %s differs "
                "from the uninterrupted run" % (i.get("attach"), i.get("raised"), case["input"]["k"], d))
    if i.get("chain") is not None:
        if isinstance(i["chain"], str):
            return "%s (interruptions %s)" % (i["chain"], i["chain_plan"])
        d = first_diff(ref, i["chain"])
        if d:
            return "interruptions at calls %s (JSON round trip: %s), each followed by run(): %s differs from the uninterrupted run" % (
                i["chain_plan"][0], i["chain_plan"][1], d)
    for name, msg in (i.get("extras") or {}).items():
        return msg
    if i.get("pre") is not None:
        if isinstance(i["pre"], str):
            return i["pre"]
        d = first_diff(ref, i["pre"])
        if d:
            return "simulator dumped before run(), loaded and run: %s differs from the uninterrupted run" % d
    if i["identity"]:
        return "after loading: " + "; ".join(i["identity"][:3])
    if i["state_diffs"]:
        return "loaded simulator does not carry the dumped state: " + "; ".join(i["state_diffs"][:2])
    lo, cr = i["loaded"], i["crash"]
    for key in ("iter", "resolve", "last", "queue", "ehist", "evh", "occ"):
        if lo[key] != cr[key]:
            return "loaded simulator differs from the dumped one in %s" % key
    return None


def replay_case(inp):
    h, k = inp["history"], inp["k"]
    res = cases_of_history(h)
    if res is None:
        return "the reference run raises"
    for c in res[0]:
        if c["input"]["k"] == k:
            return monitor(c, include_known=True)
    return None


def replay(w):
    return replay_case(w["case"])


def search(rng, budget_s, broken):
    t0 = time.time()
    while time.time() - t0 < budget_s:
        h = gen_history(rng, None)
        res = cases_of_history(h)
        if res is None:
            continue
        for c in res[0]:
            r = monitor(c)
            if r:
                return dict(case=c["input"], impl=c["impl"], why=r)
    return None


KNOWN_STOCHASTIC = "stochastic-network-json-drops-queue"
FINDING_FILES = {KNOWN_ZERO_STAY: "coq/Props/C09_findings.v",
                 KNOWN_STOCHASTIC: "coq/Props/C09_findings_stochastic.v"}


def replay_stochastic(entry):
    """the witness of the open finding `stochastic-network-json-drops-queue` (found by the C19 check): a simulation
    on contrib.acnsim.StochasticNetwork, interrupted while an EV waits, resumed (a) in place and (b) after a JSON
    round trip.  Returns what still fails (None if repaired)."""
    import random
    from acnportal.acnsim import Simulator, EventQueue, PluginEvent
    from acnportal.acnsim.models import EV, EVSE, Battery
    from acnportal.algorithms import UncontrolledCharging
    from acnportal.contrib.acnsim import StochasticNetwork

    def make(k):
        net = StochasticNetwork(early_departure=True)
        net.register_evse(EVSE("S0", max_rate=32), 240, 0)
        evs = [EV(0, 8, 2.0, "x", "first", Battery(100, 0, 7)), EV(1, 7, 5.0, "x", "second", Battery(100, 0, 7))]
        return Simulator(net, Crashing(UncontrolledCharging(), k, []), EventQueue([PluginEvent(e.arrival, e) for e in evs]),
                         datetime.datetime(2020, 1, 1), period=5, verbose=False)

    def summary(sim):
        n = sim.network
        return dict(iter=int(sim._iteration), swaps=n.swaps, never_charged=n.never_charged, early_unplug=n.early_unplug,
                    energy=[[k, norm(v.energy_delivered)] for k, v in sim.ev_history.items()],
                    rates=norm(sim.charging_rates), pilots=norm(sim.pilot_signals),
                    ehist=[[e.event_type, int(e.timestamp)] for e in sim.event_history])
    try:
        random.seed(0)
        ref = make(None)
        ref.run()
        want = summary(ref)
        random.seed(0)
        a = make(2)
        try:
            a.run()
            return "the witness no longer reaches the interruption point"
        except INTERRUPTS:
            pass
        waiting = list(a.network.waiting_queue.keys())
        text = a.to_json()
        st = random.getstate()
        a.run()
        d = first_diff(want, summary(a))
        if d:
            return "StochasticNetwork witness: in-memory resume differs from the uninterrupted run in %s" % d
        random.setstate(st)
        b = Simulator.from_json(text)
        b.update_scheduler(Crashing(UncontrolledCharging(), None, []))
        lost = []
        if list(getattr(b.network, "waiting_queue", {}).keys()) != waiting:
            lost.append("waiting_queue %s -> %s" % (waiting, list(getattr(b.network, "waiting_queue", {}).keys())))
        if getattr(b.network, "early_departure", None) is not True:
            lost.append("early_departure True -> %s" % getattr(b.network, "early_departure", None))
        try:
            b.run()
        except Exception as e:   # noqa
            return "loaded simulator lost %s; run() raised %s: %s" % ("; ".join(lost) or "nothing visible", type(e).__name__, e)
        d = first_diff(want, summary(b))
        if d or lost:
            return "loaded simulator lost %s; resumed run differs in %s" % ("; ".join(lost) or "nothing visible", d)
        return None
    except Exception as e:   # noqa
        return "StochasticNetwork witness could not be run: %s: %s" % (type(e).__name__, e)


def replay_known(entry):
    """re-run the witness of an open known finding; returns what still fails (None if repaired)"""
    if entry.get("sig") == KNOWN_STOCHASTIC:
        return replay_stochastic(entry)
    w = entry.get("witness")
    if not w:
        return "not re-checked"
    return replay_case(w)


def _open_finding_files():
    """Props/C09_findings*.v hold the _refuted theorems of the open findings; each is compiled only while its
    entry is open and its witness still fails on the implementation (DESIGN 4.5)"""
    from harness import core
    out = []
    try:
        for e in core.known_findings(PID):
            f = FINDING_FILES.get(e.get("sig"))
            if e.get("status") == "open" and f and replay_known(e):
                out.append(f)
    except Exception:   # noqa
        return tuple(FINDING_FILES.values())
    return tuple(out)


EXTRA_PROP_FILES = _open_finding_files()
# their dependencies must be rebuilt by make whenever Gen/ changes
TARGETS = TARGETS + [f[:-2] + ".vo" for f in EXTRA_PROP_FILES]


if __name__ == "__main__":
    if len(sys.argv) == 3 and sys.argv[1] == "--child":
        child_main(sys.argv[2])
