"""C15 — generated sessions are well-formed and their batteries can hold the request.

Three correspondence streams, all through the REAL code of $ACN_REPO:
  ""      acndata_events.get_evs (DataClient replaced by a stub that returns our documents)
  "stoch" stochastic_events.GaussianMixtureEvents(stub gmm) / a StochasticEvents subclass:
          sample -> clip_samples -> generate_events -> _convert_ev_matrix
  "fit"   battery.batt_cap_fn, then the fitted real Linear2StageBattery charged at 32 A for the stay
against Model/Convert.v (built on the regenerated Gen/Convert_Q.v, Gen/Fit_Q.v, Gen/FitConst.v,
Gen/Battery_Q.v)."""
import datetime
import math
import numbers
import time
import fractions
import warnings

from harness.core import q, z, coq_list, coq_bool, coq_opt, coq_str

PID = "C15"
GEN_GROUPS = ["Convert", "Fit", "FitConst"]
TARGETS = ["coq/Props/C15.vo", "coq/Model/Convert.vo", "coq/Proofs/ConvertDeliver.vo"]
CASES = {"quick": 190, "thorough": 4000}
CORR_HEADER = ("From Coq Require Import ZArith QArith List String.\n"
               "From ACN Require Import Base.Num Model.Convert.\nImport ListNotations.\n"
               "Open Scope string_scope.\nOpen Scope Q_scope.\n")
CHECK_FN = "check_c15"
SHARD = 40
RULE = ("stream acn: get_evs on 1-4 synthetic session documents (aware datetimes in 7 pytz zones, instants placed "
        "at period boundaries +-{0,1us,1ms,1s} around DST changes, the epoch grid and random), periods {1,5,15,60} and periods that do not divide 60 {7,8,9,11,25,40,45,90,2.5,7.5}, "
        "max_len, force_feasible, battery_params None/{Battery}/{Linear2StageBattery+batt_cap_fn}, energies on both "
        "sides of the force_feasible cap and of the fit's feasibility limit, malformed (negative energy); "
        "stream stoch: raw sample matrices (0-4 rows x 1-3 days incl. empty days, rows outside the clip bounds and "
        "invalid rows) through sample/clip_samples/generate_events/_convert_ev_matrix; "
        "stream fit: (energy, stay, voltage, period) covering closed-form / bisection / infeasible / inf branches and "
        "every ladder capacity, fitted battery charged for the stay; streams seqs/seqa: 2-3 successive generate_events / "
        "get_evs calls that REUSE the caller's battery_params dict (and kwargs dict, documents) with different "
        "max_battery_power / voltage / period / max_len / force_feasible, every call compared with the (stateless) "
        "model; non-trivial = distinct input; a case is "
        "ambiguous (skipped) when an int()/floor argument is a non-integer within float error of an integer or a "
        "float decision of the fit is within 1e-9 (closed form, feasibility) / 1e-13 (bisection stop) of its threshold")
ASSUMPTIONS = ["datetime.timestamp() of an aware datetime is its POSIX time (supplied to the model from the integer "
               "seconds/microseconds the document was built from, not from .timestamp())",
               "exact rational arithmetic and a 1e-20-accurate rational exp in the model vs IEEE doubles in the code",
               "R theorems about the fit assume the battery the fit is written for: max_power = 32*V/1000, "
               "transition_soc = 0.8, noise_level = 0, pilot 32 A"]
TRUSTED_EXTRA = ["pytz zone tables / datetime arithmetic used to build the documents (only the UTC instant matters to the model)",
                 "sklearn GaussianMixture replaced by a stub returning the generated raw sample matrix"]

F = fractions.Fraction
EPOCH = None

ZONES = ["UTC", "America/Los_Angeles", "Europe/Berlin", "Asia/Kolkata", "Australia/Lord_Howe",
         "America/St_Johns", "Pacific/Kiritimati"]
# UTC seconds of interesting instants: DST changes (LA fall 2018 / spring 2019, Berlin, Lord Howe), leap day,
# new year, an early post-epoch instant
ANCHORS = [1541322000, 1552212000, 1553994000, 1540688400, 1554562800, 1570282200, 1582934400, 1546300800,
           1536000000, 86400 * 400, 1600000000]
LADDER = [8, 24, 40, 60, 85, 100]


def _imports():
    global EPOCH
    import pytz
    if EPOCH is None:
        EPOCH = datetime.datetime(1970, 1, 1, tzinfo=pytz.utc)
    return pytz


def mkdt(sec, us, zone):
    pytz = _imports()
    return (EPOCH + datetime.timedelta(seconds=sec, microseconds=us)).astimezone(pytz.timezone(zone))


def ts_exact(sec, us):
    return F(sec) + F(us, 10 ** 6)


def err_tag(e):
    if isinstance(e, RecursionError):
        return "RecursionError"            # the message varies with where the limit is hit
    return "%s:%s" % (type(e).__name__, str(e))


# ---------------------------------------------------------------------------------------------
# float-ambiguity detectors (decide with Fractions which cases the exact model may not judge)
# ---------------------------------------------------------------------------------------------
def floor_ambiguous(qv, margin, exact_ok=True):
    """qv exact; True when qv is not an integer but within `margin` of one (exact_ok=False: an exact
    integer counts too — the float computation goes through an inexact factor such as 60/7)"""
    r = qv - math.floor(qv)
    d = min(r, 1 - r)
    return (d != 0 or not exact_ok) and d < margin


def psec(T):
    """seconds per period, exactly"""
    return F(60) * F(T)


def pph_exact(T):
    """is the float 60 / T the exact periods-per-hour?"""
    return F(60 / T) == F(60) / F(T)


PERIODS = [1, 5, 5, 5, 15, 60, 7, 8, 9, 11, 25, 40, 45, 90, 2.5, 7.5]   # incl. periods that do not divide 60


def ts_margin(tsv, T):
    qv = tsv / psec(T)
    return F(24, 10 ** 7) / psec(T) + 16 * abs(qv) * F(1, 2 ** 53) + F(1, 10 ** 12)


def fit_margin(E, n, V, T):
    """replay batt_cap_fn's decisions in floats; True when one of them is too close to call"""
    E, V, T = float(E), float(V), float(T)
    for cap in LADDER:
        if E > cap:
            continue
        delta = E / cap
        m = 32 * V / 1000 / cap / (60 / T)
        den = math.exp(m * n / (0.8 - 1)) - 1
        init = None
        if den == 0:
            if delta > 0:
                return False          # inf: returned at once
            cf = False
        else:
            init_soc = 1 + delta / den
            if abs(init_soc - 0.8) < 1e-9 * max(1.0, abs(init_soc)):
                return True
            cf = init_soc >= 0.8
            if cf:
                init = init_soc * cap

        def D(x):
            if n <= (0.8 - x) / m:
                return m * n
            return 1 + math.exp((m * n + x - 0.8) / (0.8 - 1)) * (0.8 - 1) - x
        if not cf:
            d0 = D(0)
            if abs(d0 - delta) < 1e-9 and not (n == 0 and delta == 0):    # 0 < 0 is exact
                return True
            if d0 < delta:
                init = -1
            else:
                lb, ub = 0.8 - m * n, 1
                for _ in range(400):
                    mid = (lb + ub) / 2
                    val = D(mid)
                    if abs(abs(val - delta) - 1e-9) < 1e-13:
                        return True
                    if abs(val - delta) < 1e-9:
                        break
                    if val - delta > 0:
                        lb = mid
                    else:
                        ub = mid
                init = mid * cap
        if abs(init) < 1e-12:
            return True
        if init >= 0:
            return False
    return False


# ---------------------------------------------------------------------------------------------
# running the implementation
# ---------------------------------------------------------------------------------------------
def is_fit(bp):
    return bp in ("fit", "fitkw", "fitkw0")


def bp_value(bp):
    from acnportal.acnsim.models.battery import Battery, Linear2StageBattery, batt_cap_fn
    if bp == "none":
        return None
    if bp == "battery":
        return {"type": Battery}
    if bp == "batterykw":  # an (empty) kwargs dict supplied by the caller
        return {"type": Battery, "kwargs": {}}
    if bp == "fitkw":      # the 'kwargs' key: passed on to the battery constructor
        return {"type": Linear2StageBattery, "capacity_fn": batt_cap_fn, "kwargs": dict(FIT_KWARGS)}
    if bp == "fitkw0":     # legal corner: transition_soc = 0 (rampdown from the start), explicit zero noise
        return {"type": Linear2StageBattery, "capacity_fn": batt_cap_fn, "kwargs": dict(FIT_KWARGS0)}
    return {"type": Linear2StageBattery, "capacity_fn": batt_cap_fn}


FIT_KWARGS = {"noise_level": 0.125, "transition_soc": 0.75}
FIT_KWARGS0 = {"noise_level": 0, "transition_soc": 0.0}


def ev_obs(ev, V=None, T=None):
    b = ev._battery
    o = _ev_obs(ev)
    if V is not None and type(b).__name__ == "Linear2StageBattery" and not math.isinf(o["init"]):
        # the property's last sentence on converter output: a battery with the returned (capacity,
        # initial charge) and the power the fit assumes, charged at 32 A for the stay
        from acnportal.acnsim.models.battery import Linear2StageBattery
        try:
            b2 = Linear2StageBattery(o["cap"], o["init"], 32 * V / 1000)
            for _ in range(max(0, o["departure"] - o["arrival"])):
                b2.charge(32, V, T)
            o["fit_delivered"] = float(b2._current_charge) - o["init"]
        except Exception as e:  # noqa
            o["fit_error"] = err_tag(e)
    if V is not None:
        # JSON round trip of the generated EV (to_json / from_json): the reloaded object must show the
        # same session, and is then charged flat out through the public EV.charge for the whole stay
        try:
            from acnportal.acnsim.models.ev import EV
            ev2 = EV.from_json(ev.to_json())
            o2 = _ev_obs(ev2)
            o["json_diff"] = sorted(k for k in o2 if o2[k] != o[k])
            if type(b).__name__ == "Battery" and not (math.isinf(o["init"]) or math.isnan(o["requested"])):
                for _ in range(max(0, o["departure"] - o["arrival"])):
                    ev2.charge(1000, V, T)
                o["flat_out"] = float(ev2.energy_delivered)
        except Exception as e:  # noqa
            o["json_error"] = err_tag(e)
    return o


def _ev_obs(ev):
    b = ev._battery
    return dict(arrival=int(ev.arrival), departure=int(ev.departure), requested=float(ev.requested_energy),
                cap=float(b._capacity), init=float(b._init_charge),
                int_types=bool(isinstance(ev.arrival, numbers.Integral) and isinstance(ev.departure, numbers.Integral)),
                est_dep=int(ev.estimated_departure), max_power=float(b._max_power),
                session=str(ev.session_id), station=str(ev.station_id), btype=type(b).__name__,
                bkw=[getattr(b, "_noise_level", None), getattr(b, "_transition_soc", None)])


# (sessionID, spaceID): falsy, numeric-looking, mixed case, registration order != lexicographic order
ODD_IDS = [(0, ""), ("", 0), ("S-10", "S-9"), ("S-9", "s-11"), ("007", 10), ("Sess", "S-10")]


def doc_ids(inp, i):
    if inp.get("ids") == "odd":
        return ODD_IDS[i % len(ODD_IDS)]
    return "sess%d" % i, "space%d" % i


def as_dtype(x, how):
    """the same number as another numeric type (numpy scalar / python int) — dtype family of the audit"""
    if how is None or x is None or isinstance(x, bool):
        return x
    import numpy as np
    if how == "np":
        return np.int64(x) if float(x).is_integer() and not isinstance(x, float) else np.float64(x)
    if how == "int" and float(x).is_integer():
        return int(x)
    return x


def make_docs(inp):
    _imports()
    docs = []
    for i, d in enumerate(inp["docs"]):
        sid, spid = doc_ids(inp, i)
        docs.append(dict(connectionTime=mkdt(d["conn"][0], d["conn"][1], d["zone"]),
                         disconnectTime=mkdt(d["disc"][0], d["disc"][1], d["zone"]),
                         kWhDelivered=as_dtype(d["kwh"], inp.get("dtype")), sessionID=sid, spaceID=spid))
    return docs


def run_acn(inp, bp_obj="fresh", docs_obj=None, keep=None):
    """get_evs with DataClient stubbed; returns dict(evs=[...]) or dict(error=tag)"""
    _imports()
    from acnportal.acnsim.events import acndata_events as ae
    docs = make_docs(inp) if docs_obj is None else docs_obj
    ids = [d["sessionID"] for d in docs]

    class StubClient:
        def __init__(self, token):
            self.token = token

        def get_sessions_by_time(self, site, start, end):
            return iter(docs)
    orig = ae.DataClient
    ae.DataClient = StubClient
    try:
        start = mkdt(inp["start"][0], inp["start"][1], inp["zone"])
        with warnings.catch_warnings():
            warnings.simplefilter("ignore")
            try:
                fn = ae.generate_events if inp.get("via") == "queue" else ae.get_evs
                dt_ = inp.get("dtype")
                evs = fn("token", "site", start, start + datetime.timedelta(days=30), as_dtype(inp["T"], dt_),
                         as_dtype(inp["V"], dt_), as_dtype(inp["maxP"], dt_), max_len=as_dtype(inp["max_len"], dt_),
                         battery_params=bp_value(inp["bp"]) if bp_obj == "fresh" else bp_obj,
                         force_feasible=inp["ff"])
            except Exception as e:  # noqa
                return dict(error=err_tag(e))
        if inp.get("via") == "queue":       # acndata_events.generate_events: an EventQueue of PluginEvents
            items = sorted(((ids.index(it[1].ev.session_id), it) for it in evs.queue), key=lambda p: p[0])
            out = []
            for _, it in items:
                o = ev_obs(it[1].ev, inp["V"], inp["T"])
                o["event_ts"] = int(it[0])
                o["event_type"] = it[1].event_type
                out.append(o)
            if keep is not None:
                keep.extend(it[1].ev for _, it in items)
            return dict(evs=out)
        if keep is not None:
            keep.extend(evs)
        return dict(evs=[ev_obs(e, inp["V"], inp["T"]) for e in evs])
    finally:
        ae.DataClient = orig


def make_gen(cls, clip):
    """a generator object and its feed box (the raw draws it will serve); reusable across calls"""
    from acnportal.acnsim.events.stochastic_events import StochasticEvents, GaussianMixtureEvents
    box = dict(served=[], i=0)

    def nxt(n):
        m = box["served"][box["i"]]
        box["i"] += 1
        assert len(m) == n
        return m.copy()

    class StubGMM:
        def sample(self, n):
            return nxt(n), None

    class MyEvents(StochasticEvents):          # the documented extension point: fit / sample
        def fit(self, data, **kw):
            pass

        def sample(self, n):
            return self.clip_samples(nxt(n))
    if cls == "gmm":
        return GaussianMixtureEvents(*clip, pretrained_model=StubGMM()), box
    return MyEvents(*clip), box


def run_stoch(inp, bp_obj="fresh", gen_pair=None, keep=None):
    import numpy as np
    import io
    import contextlib
    from acnportal.acnsim.events.stochastic_events import StochasticEvents
    dt_ = inp.get("dtype")
    bpv = bp_value(inp["bp"]) if bp_obj == "fresh" else bp_obj
    T, V, maxP, max_len = (as_dtype(inp[k], dt_) for k in ("T", "V", "maxP", "max_len"))
    direct = inp["cls"] == "direct"
    if direct:
        # the public static converter on a caller-owned matrix (no clipping, one day); int dtype when asked
        rows = inp["days"][0]
        matrix = np.array(rows, dtype=(int if inp.get("int_matrix") else float)).reshape((len(rows), 3))
        before = matrix.copy()
    else:
        days = [np.array(d, dtype=float).reshape((len(d), 3)) for d in inp["days"]]
        gen, box = gen_pair if gen_pair is not None else make_gen(inp["cls"], inp["clip"])
        box["served"], box["i"] = [d for d in days if len(d) > 0], 0
    with warnings.catch_warnings(), contextlib.redirect_stdout(io.StringIO()):
        warnings.simplefilter("ignore")
        try:
            if direct:
                evs = StochasticEvents._convert_ev_matrix(matrix, T, V, maxP, max_len, bpv, inp["ff"])
                items = [(ev.arrival, ev) for ev in evs]
            else:
                queue = gen.generate_events([len(d) for d in days], T, V, maxP, max_len=max_len,
                                            battery_params=bpv, force_feasible=inp["ff"])
                items = [(it[0], it[1].ev) for it in queue.queue]
        except Exception as e:  # noqa
            return dict(error=err_tag(e))
    out = []
    for ts, ev in items:
        o = ev_obs(ev, inp["V"], inp["T"])
        o["row"] = int(o["session"].split("_")[1])
        o["event_ts"] = int(ts)
        o["_ev"] = ev
        out.append(o)
    out.sort(key=lambda o: o["row"])
    ev_list = [o.pop("_ev") for o in out]
    if keep is not None:
        keep.extend(ev_list)
    res = dict(evs=out)
    if direct:
        res["matrix_same"] = bool((matrix == before).all())
        matrix[:] = -7                      # the caller scribbles over its matrix afterwards
        res["after_scribble"] = [_ev_obs(ev) for ev in ev_list]
    return res


def run_fit(inp):
    from acnportal.acnsim.models.battery import Linear2StageBattery, batt_cap_fn
    dt_ = inp.get("dtype")
    E, n, V, T = as_dtype(inp["E"], dt_), as_dtype(inp["n"], dt_), as_dtype(inp["V"], dt_), as_dtype(inp["T"], dt_)
    n_int = int(inp["n"])
    with warnings.catch_warnings():
        warnings.simplefilter("ignore")
        try:
            cap, init = batt_cap_fn(E, n, V, T)
        except ValueError as e:
            return dict(kind=2, error=err_tag(e))
        except RecursionError as e:
            return dict(kind=3, error=err_tag(e))
        cap, init = float(cap), float(init)
        if math.isinf(init):
            return dict(kind=1, cap=cap)
        extra = {}
        try:
            # the function keeps no state: another request in between, then the same request again
            batt_cap_fn(3.0, 9, 240, 15)
            again = batt_cap_fn(E, n, V, T)
            extra["again_same"] = (float(again[0]), float(again[1])) == (cap, init)
        except Exception as e:  # noqa
            extra["again_same"] = False
        try:
            batt = Linear2StageBattery(cap, init, 32 * V / 1000)
            rates = [float(batt.charge(32, V, T)) for _ in range(n_int)]
            final = float(batt._current_charge)
            # reset() and charge again; reset(x) then reset(); JSON round trip half way through the stay
            batt.reset()
            for _ in range(n_int):
                batt.charge(32, V, T)
            extra["reset_same"] = float(batt._current_charge) == final
            batt.reset(init / 2)
            batt.reset()
            extra["reset_init"] = float(batt._current_charge) == init
            for _ in range(n_int // 2):
                batt.charge(32, V, T)
            b2 = Linear2StageBattery.from_json(batt.to_json())
            for _ in range(n_int - n_int // 2):
                b2.charge(32, V, T)
            extra["json_mid_same"] = float(b2._current_charge) == final
        except Exception as e:  # noqa
            return dict(kind=4 if init > cap else 0, cap=cap, init=init, final=-1.0, by_rates=-1.0,
                        charge_error=err_tag(e))
    return dict(kind=0, cap=cap, init=init, final=final,
                by_rates=float(sum(rates) * V / 1000 * (T / 60)), **extra)


# ---------------------------------------------------------------------------------------------
# Coq terms
# ---------------------------------------------------------------------------------------------
def obs_coq(o):
    return "{| ev_arrival := %s; ev_departure := %s; ev_requested := %s; ev_cap := %s; ev_init := %s |}" % (
        zlit_(o["arrival"]), zlit_(o["departure"]), q(o["requested"]), q(o["cap"]), q(o["init"]))


def zlit_(n):
    return "(%s)%%Z" % z(n)


def bp_coq(bp):
    return "BP_fit" if is_fit(bp) else "BP_default"


def res_coq(impl, item):
    if "error" in impl:
        return "(Err %s)" % coq_str(impl["error"])
    return "(Ok %s)" % coq_list([item(o) for o in impl["evs"]])


def acn_coq(inp, impl):
    docs = coq_list(["(%s, %s, %s)" % (q(ts_exact(*d["conn"])), q(ts_exact(*d["disc"])), q(d["kwh"]))
                     for d in inp["docs"]])
    return ("{| c_start := %s; c_T := %s; c_V := %s; c_maxP := %s; c_max_len := %s; c_bp := %s; c_ff := %s;\n"
            "   c_docs := %s;\n   i_evs := %s |}") % (
        q(ts_exact(*inp["start"])), q(inp["T"]), q(inp["V"]), q(inp["maxP"]), coq_opt(inp["max_len"], zlit_),
        bp_coq(inp["bp"]), coq_bool(inp["ff"]), docs, res_coq(impl, obs_coq))


def stoch_coq(inp, impl):
    b = inp["clip"]
    days = coq_list([coq_list(["(%s, %s, %s)" % (q(r[0]), q(r[1]), q(r[2])) for r in d]) for d in inp["days"]])
    return ("{| s_clip := {| a_min := %s; a_max := %s; d_min := %s; d_max := %s; e_min := %s; e_max := %s |};\n"
            "   s_T := %s; s_V := %s; s_maxP := %s; s_max_len := %s; s_bp := %s; s_ff := %s;\n"
            "   s_days := %s;\n   i_sevs := %s |}") % (
        q(b[0]), q(b[1]), q(b[2]), q(b[3]), q(b[4]), q(b[5]), q(inp["T"]), q(inp["V"]), q(inp["maxP"]),
        coq_opt(inp["max_len"], q), bp_coq(inp["bp"]), coq_bool(inp["ff"]), days,
        res_coq(impl, lambda o: "(%s, %s)" % (zlit_(o["row"]), obs_coq(o))))


def fit_coq(inp, impl):
    return "{| f_E := %s; f_n := %d%%nat; f_V := %s; f_T := %s; i_fit := %s; i_cap := %s; i_init := %s; i_final := %s |}" % (
        q(inp["E"]), inp["n"], q(inp["V"]), q(inp["T"]), zlit_(impl["kind"]), q(impl.get("cap", 0)),
        q(impl.get("init", 0)), q(impl.get("final", 0)))


# ---------------------------------------------------------------------------------------------
# generators
# ---------------------------------------------------------------------------------------------
VOLTS = [208, 208, 240, 277, 120]
MAXP = [3.3, 6.6, 6.656, 7, 7.68, 10, 50]
OFFS = [(0, 1), (0, -1), (0, 3), (0, -2)]              # microseconds from a boundary: float-ambiguous, rare
OFFS_SURE = [(0, 0), (0, 0), (0, 0), (0, 1000), (0, -1000), (1, 0), (-1, 0), (0, 500000), (0, -20000)]


def near_boundary(rng, base_sec, T):
    """an instant (sec, us) on / next to a period boundary of the epoch grid"""
    P = int(psec(T))
    k = base_sec // P
    s, us = rng.choice(OFFS) if rng.random() < 0.04 else rng.choice(OFFS_SURE)
    sec = k * P + s
    if us < 0:
        sec -= 1
        us += 10 ** 6
    return [sec, us]


def rand_instant(rng, lo, hi):
    return [rng.randint(lo, hi), rng.choice([0, 0, rng.randint(0, 999999)])]


def deliverable_32(V, stay, T):
    return 32 * V / 1000 * stay * T / 60


def gen_acn_input(rng):
    T = rng.choice(PERIODS)
    zone = rng.choice(ZONES)
    anchor = rng.choice(ANCHORS)
    start = near_boundary(rng, anchor - rng.choice([0, 1800, 3600, 7200, 86400]), T) if rng.random() < 0.6 \
        else rand_instant(rng, anchor - 86400, anchor)
    V = rng.choice(VOLTS)
    maxP = rng.choice(MAXP)
    bp = rng.choice(["none", "battery", "fit", "fit", "fitkw"])
    ff = rng.random() < 0.5
    max_len = rng.choice([None, None, None, 0, 1, 3, 12, 48, 100])
    via = rng.choice(["evs", "evs", "queue"])
    ids = rng.choice(["plain", "plain", "plain", "odd"])
    dtype = rng.choice([None, None, "np", "int"])
    if rng.random() < 0.12:
        bp = "fitkw0"
    docs = []
    t0 = start[0]
    for _ in range(rng.choice([1, 1, 2] if bp in ("fit", "fitkw") else [1, 1, 2, 3, 4])):
        if rng.random() < 0.6:
            conn = near_boundary(rng, t0 + rng.randint(0, 6 * 3600), T)
        else:
            conn = rand_instant(rng, t0, t0 + 8 * 3600)
        if rng.random() < 0.06:          # a session that began before the simulation start: negative arrival
            conn = near_boundary(rng, start[0] - rng.randint(1, 5 * 3600), T)
        dur_choice = rng.random()
        if dur_choice < 0.15:        # same period / very short
            dsec = rng.choice([0, 1, 20, 59])
        elif dur_choice < 0.55:      # a whole number of periods (+- a little)
            dsec = rng.choice([1, 2, 3, 6, 12, 24, 36, 60, 100]) * int(psec(T)) + rng.choice([0, 0, -1, 1, 30])
        else:
            dsec = rng.randint(60, 14 * 3600)
        disc = [conn[0] + max(dsec, 0), rng.choice([conn[1], conn[1], rng.randint(conn[1], 999999)])]
        stay_guess = int(max(0, disc[0] // psec(T) - conn[0] // psec(T)))
        if max_len is not None:
            stay_guess = min(stay_guess, max_len)
        kind = rng.random()
        if bp in ("fit", "fitkw") and rng.random() < 0.8:
            kind = rng.uniform(0.5, 0.85)            # mostly requests the fit can serve
        capP = maxP * stay_guess * T / 60
        cap32 = deliverable_32(V, stay_guess, T)
        if kind < 0.25:
            kwh = rng.choice([0.5, 1, 3.3, 6.6, 10, 13.37, 25])
        elif kind < 0.5:
            kwh = capP * rng.choice([0.5, 0.999, 1.0, 1.001, 2])
            if rng.random() < 0.3 and capP > 0:    # exactly on / one ulp around the force_feasible cap
                kwh = rng.choice([capP, math.nextafter(capP, 0.0), math.nextafter(capP, math.inf)])
        elif kind < 0.85:
            kwh = min(cap32, 95.0) * rng.choice([0.02, 0.1, 0.3, 0.5, 0.8, 0.99])
            if ff and maxP < 32 * V / 1000 and rng.random() < 0.7:
                kwh = min(kwh, capP * rng.choice([0.3, 0.9, 0.999]))
        elif kind < 0.93:
            kwh = rng.choice([0.0, 45.0, 90.0, 100.0, 120.0])
        elif kind < 0.97:
            kwh = round(rng.uniform(0, 30), 3)
        else:
            kwh = -1.5                # malformed document
        docs.append(dict(conn=conn, disc=disc, kwh=float(kwh), zone=rng.choice([zone, zone, rng.choice(ZONES)])))
        t0 = conn[0]
    return dict(stream="acn", start=start, zone=zone, T=T, V=V, maxP=maxP, max_len=max_len, ff=ff, bp=bp, docs=docs,
                via=via, ids=ids, dtype=dtype)


def acn_ambiguous(inp, impl):
    T = inp["T"]
    insts = [inp["start"]] + [d["conn"] for d in inp["docs"]] + [d["disc"] for d in inp["docs"]]
    for s in insts:
        tsv = ts_exact(*s)
        if floor_ambiguous(tsv / psec(T), ts_margin(tsv, T)):
            return True
    if is_fit(inp["bp"]) and "evs" in impl:
        for o in impl["evs"]:
            if fit_margin(o["requested"], o["departure"] - o["arrival"], inp["V"], T):
                return True
    if is_fit(inp["bp"]) and "error" in impl:
        # find the failing document: every prefix document may be the culprit; be conservative
        off = math.floor(ts_exact(*inp["start"]) / psec(T))
        for d in inp["docs"]:
            a = math.floor(ts_exact(*d["conn"]) / psec(T)) - off
            dep = math.floor(ts_exact(*d["disc"]) / psec(T)) - off
            if inp["max_len"] is not None and dep - a > inp["max_len"]:
                dep = a + inp["max_len"]
            e = d["kwh"]
            if inp["ff"]:
                e = min(e, inp["maxP"] * (dep - a) * (T / 60))
            if fit_margin(e, dep - a, inp["V"], T):
                return True
    return False


def make_acn_case(inp):
    impl = run_acn(inp)
    amb = acn_ambiguous(inp, impl)
    kind = "acn/%s/%s%s%s" % (inp["bp"], "ff" if inp["ff"] else "noff", "/maxlen" if inp["max_len"] is not None else "",
                              "/error" if "error" in impl else "")
    return dict(input=inp, impl=impl, coq=acn_coq(inp, impl), ambiguous=amb, kind=kind, sig=inp, nontrivial=True)


def gen_stoch_input(rng):
    T = rng.choice(PERIODS)
    V = rng.choice(VOLTS)
    maxP = rng.choice(MAXP)
    bp = rng.choice(["none", "battery", "fit"])
    ff = rng.random() < 0.5
    max_len = rng.choice([None, None, None, 0.5, 1, 3, 24, 0])
    clip = rng.choice([[0.0, 24.0, 0.0833, 48.0, 0.5, 150.0]] * 2 +
                      [[6.0, 20.0, 0.25, 12.0, 1.0, 60.0], [-5.0, 30.0, -1.0, 100.0, -1.0, 200.0],
                       [0.0, 24.0, 0.0, 48.0, 0.0, 150.0]])
    cls = rng.choice(["gmm", "sub"])
    days = []
    for _ in range(rng.choice([1, 1, 2, 3])):
        rows = []
        for _ in range(rng.choice([0, 1, 2, 3, 4])):
            a = rng.choice([rng.choice([0.0, 6.5, 8.25, 8.3, 10, 23.75, 24.0, 0.71, 13.37]),
                            round(rng.uniform(-2, 26), 3), rng.randint(0, 24 * 8) / 8, rng.randint(0, 24 * 8) / 8])
            if rng.random() < 0.03:
                a = rng.choice([0.7, 13 + 1 / 12, 0.1])       # a*60/T is an integer only in exact arithmetic
            d = rng.choice([rng.choice([0.05, 0.0833, 0.25, 0.5, 0.9, 1, 3, 6.05, 8, 12, 50]),
                            round(rng.uniform(-1, 14), 3), rng.randint(0, 96) / 4])
            dc = min(max(d, clip[2]), clip[3])
            if max_len is not None:
                dc = min(dc, max_len)
            pick = rng.random()
            if bp == "fit" and rng.random() < 0.8:
                pick = 0.5
            if pick < 0.3:
                e = maxP * dc * rng.choice([0.5, 0.999, 1.0, 1.001, 1.5])
            elif pick < 0.7 and bp == "fit":
                e = deliverable_32(V, max(int(dc * 60 / T), 0), T) * rng.choice([0.05, 0.3, 0.6, 0.9])
                if ff and maxP < 32 * V / 1000:
                    e = min(e, maxP * dc * rng.choice([0.4, 0.95, 1.5]))
                e = min(e, 95.0)
            else:
                e = rng.choice([0.0, -2.0, 0.5, 3, 6.6, 10, 15, 49.5, 160.0, round(rng.uniform(0, 40), 3)])
            rows.append([float(a), float(d), float(e)])
        days.append(rows)
    inp = dict(stream="stoch", cls=cls, clip=clip, T=T, V=V, maxP=maxP, max_len=max_len, ff=ff, bp=bp, days=days,
               dtype=rng.choice([None, None, "np", "int"]))
    if rng.random() < 0.15:
        make_direct(inp, rng)
    return inp


WIDE = [-1e12, 1e12, -1e12, 1e12, -1e12, 1e12]


def make_direct(inp, rng):
    """turn a stoch input into a direct call of the static _convert_ev_matrix on a caller-owned matrix"""
    rows = [r for d in inp["days"] for r in d] or [[6.5, 2.0, 5.0]]
    inp.update(cls="direct", clip=list(WIDE), days=[rows])
    if rng.random() < 0.4:                       # an integer-dtype matrix
        inp["int_matrix"] = True
        inp["days"] = [[[float(int(x)) for x in r] for r in rows]]
    return inp


def stoch_rows_exact(inp):
    """(row index, a, d, e) after clip and day shift, exactly (Fractions), for monitor/ambiguity"""
    b = [F(x) for x in inp["clip"]]
    out, idx = [], 0
    for dnum, rows in enumerate(inp["days"]):
        for r in rows:
            a = min(max(F(r[0]), b[0]), b[1]) + 24 * dnum
            d = min(max(F(r[1]), b[2]), b[3])
            e = min(max(F(r[2]), b[4]), b[5])
            out.append((idx, a, d, e))
            idx += 1
    return out


def stoch_ambiguous(inp, impl):
    T = inp["T"]
    pph = F(60) / F(T)
    for idx, a, d, e in stoch_rows_exact(inp):
        if a < 0 or d <= 0 or e <= 0:
            continue
        if inp["max_len"] is not None and d > F(inp["max_len"]):
            d = F(inp["max_len"])
        for v in (a * pph, (a + d) * pph):
            if floor_ambiguous(v, F(1, 10 ** 9) * max(1, abs(v)), exact_ok=pph_exact(T)):
                return True
    if is_fit(inp["bp"]):
        if "evs" in impl:
            for o in impl["evs"]:
                if fit_margin(o["requested"], o["departure"] - o["arrival"], inp["V"], T):
                    return True
        else:
            for idx, a, d, e in stoch_rows_exact(inp):
                if a < 0 or d <= 0 or e <= 0:
                    continue
                if inp["max_len"] is not None and d > F(inp["max_len"]):
                    d = F(inp["max_len"])
                stay = math.floor((a + d) * pph) - math.floor(a * pph)
                if inp["ff"]:
                    e = min(e, F(inp["maxP"]) * stay / pph)
                if fit_margin(float(e), stay, inp["V"], T):
                    return True
    return False


def make_stoch_case(inp):
    impl = run_stoch(inp)
    amb = stoch_ambiguous(inp, impl)
    kind = "stoch/%s/%s/%s%s%s" % (inp["cls"], inp["bp"], "ff" if inp["ff"] else "noff",
                                   "/maxlen" if inp["max_len"] is not None else "", "/error" if "error" in impl else "")
    return dict(input=inp, impl=impl, coq=stoch_coq(inp, impl), ambiguous=amb, kind=kind, sig=inp, nontrivial=True)


def gen_fit_input(rng):
    V = rng.choice(VOLTS)
    T = rng.choice(PERIODS)
    n = rng.choice([0, 1, 2, 3, 6, 12, 12, 24, 32, 48, 64, 100, 150])
    if T >= 40:
        n = min(n, 48)
    cap = rng.choice(LADDER)
    m = 32 * V / 1000 / cap / (60 / T)
    mn = m * n
    d0 = mn if mn <= 0.8 else 1 - 0.2 * math.exp(-(mn - 0.8) / 0.2)     # max deliverable SoC from empty
    cf_lim = 0.2 * (1 - math.exp(-5 * mn))                                # closed form applies up to here
    pick = rng.random()
    if pick < 0.3:
        delta = cf_lim * rng.choice([0.01, 0.2, 0.5, 0.9, 1 - 1e-6, 1 + 1e-6, 1.0])
    elif pick < 0.7:
        delta = cf_lim + (d0 - cf_lim) * rng.choice([0.01, 0.1, 0.3, 0.5, 0.8, 0.99, 1 - 1e-6, 1.0])
    elif pick < 0.85:
        delta = d0 * rng.choice([1 + 1e-6, 1.001, 1 / 1.001, 1.5])
    else:
        delta = rng.choice([0.0, 0.05, 0.5, 1.0, 1.0 - 1e-12, 1.2])
    E = float(delta * cap)
    if rng.random() < 0.1:
        E = float(rng.choice([0.0, 1.0, 8.0, 8.000001, 24.0, 60.0, 100.0, 100.5, 7.3, 55.5]))
    if rng.random() < 0.03:
        E = float(rng.choice([-1.5, -0.25, -20.0]))      # malformed request
    return dict(stream="fit", E=E, n=n, V=V, T=T, dtype=rng.choice([None, None, "np", "int"]))


def make_fit_case(inp):
    impl = run_fit(inp)
    amb = fit_margin(inp["E"], inp["n"], inp["V"], inp["T"])
    kind = "fit/" + {0: "ok", 1: "inf", 2: "nofit", 3: "recursion", 4: "refused"}[impl["kind"]]
    if impl["kind"] == 0:
        kind += "/cap%d" % int(impl["cap"])
        m = 32 * inp["V"] / 1000 / impl["cap"] / (60 / inp["T"])
        kind += "/closed" if impl["init"] / impl["cap"] >= 0.8 else "/bisect"
    return dict(input=inp, impl=impl, coq=fit_coq(inp, impl), ambiguous=amb, kind=kind, sig=inp, nontrivial=True)


CORPUS_FIT = [dict(stream="fit", E=-1.5, n=0, V=240, T=1),        # malformed: no root, RecursionError
              dict(stream="fit", E=-1.5, n=12, V=240, T=5),
              dict(stream="fit", E=10.0, n=24, V=208, T=5),
              dict(stream="fit", E=1.0, n=0, V=208, T=5),
              dict(stream="fit", E=0.0, n=0, V=208, T=5)]
CORPUS_STOCH = [dict(stream="stoch", cls="gmm", clip=[0.0, 24.0, 0.0833, 48.0, 0.5, 150.0], T=5, V=208, maxP=7,
                     max_len=1, ff=True, bp="none", days=[[[6.5, 8, 10], [8.3, 6.05, 3], [10, 3, 15]]])]


# ---------------------------------------------------------------------------------------------
# sequences of calls that REUSE the caller's argument objects (battery_params dict and its kwargs
# dict, the generator object, the document dicts) with different numeric arguments: a call must
# behave like an independent call (the model is stateless) and leave the caller's objects alone
# ---------------------------------------------------------------------------------------------
def snapshot(bpv):
    if bpv is None:
        return None
    return dict(keys=sorted(bpv.keys()), type=bpv["type"].__name__,
                kwargs=(None if "kwargs" not in bpv else dict(bpv["kwargs"])))


def run_seq(inp):
    """returns [impl per call]; impl has the extra keys bp_before / bp_after (and docs_same, late_same).
    The SAME battery_params object, the SAME generator instances (calls alternate between inst 0 / 1,
    two live instances with different clip bounds) and the SAME document dicts are used by all calls;
    the EVs returned by every call are held and re-read after the last call and after the caller has
    scribbled over its own arguments and over the objects returned by the other calls."""
    bpv = bp_value(inp["bp"])
    outs, held = [], []
    docs_obj = make_docs(inp["calls"][0]) if inp["path"] == "acn" and inp.get("share_docs") else None
    gens = {}
    for call in inp["calls"]:
        before = snapshot(bpv)
        docs_before = None if docs_obj is None else [dict(d) for d in docs_obj]
        keep = []
        if inp["path"] == "stoch":
            pair = None
            if call["cls"] != "direct":
                key = call.get("inst", 0)
                if key not in gens:
                    gens[key] = make_gen(call["cls"], call["clip"])
                pair = gens[key]
            impl = run_stoch(call, bp_obj=bpv, gen_pair=pair, keep=keep)
        else:
            impl = run_acn(call, bp_obj=bpv, docs_obj=docs_obj, keep=keep)
        impl["bp_before"], impl["bp_after"] = before, snapshot(bpv)
        if docs_obj is not None:
            impl["docs_same"] = (docs_before == [dict(d) for d in docs_obj])
        held.append(keep)
        outs.append(impl)
    # the caller now changes what it owns ...
    if bpv is not None:
        bpv.setdefault("kwargs", {})["transition_soc"] = 0.5
        bpv["type"] = None
    if docs_obj is not None:
        for d in docs_obj:
            d["kWhDelivered"] = 999.0
            d["connectionTime"] = d["disconnectTime"]
    # ... and every held result is re-read: unchanged, and independent of the other calls' results
    for k, (impl, keep) in enumerate(zip(outs, held)):
        if "evs" in impl:
            late = [_ev_obs(ev) for ev in keep]
            early = [{kk: o[kk] for kk in late[i]} for i, o in enumerate(impl["evs"])] if len(late) == len(impl["evs"]) else None
            impl["late_same"] = (late == early)
            for ev in keep:                       # scribble over this call's results before reading the next
                ev._battery._current_charge = -1.0
                ev._requested_energy = -1.0
    return outs


def gen_seq_input(rng, path):
    bp = rng.choice(["battery", "battery", "batterykw", "fit", "fitkw", "fitkw0", "none"])
    n = rng.choice([2, 2, 3, 4])
    calls = []
    if path == "stoch":
        bases = [gen_stoch_input(rng), gen_stoch_input(rng)]
        for b_ in bases:
            if b_["cls"] == "direct":
                b_.update(cls=rng.choice(["gmm", "sub"]), clip=[0.0, 24.0, 0.0833, 48.0, 0.5, 150.0])
        two = rng.random() < 0.5                     # two live generator instances used alternately
        powers = rng.sample([3.3, 6.6, 7, 10, 50], n)
        for k in range(n):
            inst = k % 2 if two else 0
            c = gen_stoch_input(rng)
            was_direct = c["cls"] == "direct"
            c.update(bp=bp, maxP=powers[k])
            if not was_direct:
                c.update(cls=bases[inst]["cls"], clip=bases[inst]["clip"], inst=inst)
                if rng.random() < 0.5:
                    c["days"] = bases[0]["days"]     # the same draws again (a parameter sweep)
            if rng.random() < 0.7:
                c["ff"] = True
            calls.append(c)
        return dict(stream="seq", path="stoch", bp=bp, calls=calls)
    base = gen_acn_input(rng)
    share = rng.random() < 0.6
    powers = rng.sample([3.3, 6.6, 7, 7.68, 10, 50], n)
    for k in range(n):
        c = gen_acn_input(rng)
        c.update(bp=bp, maxP=powers[k])
        if share:
            c.update(docs=base["docs"], start=base["start"], zone=base["zone"], ids=base["ids"], dtype=base["dtype"])
        if rng.random() < 0.7:
            c["ff"] = True
        calls.append(c)
    return dict(stream="seq", path="acn", bp=bp, calls=calls, share_docs=share)


def make_seq_case(inp):
    impls = run_seq(inp)
    stoch = inp["path"] == "stoch"
    amb = any((stoch_ambiguous if stoch else acn_ambiguous)(c, i) for c, i in zip(inp["calls"], impls))
    coq = coq_list([(stoch_coq if stoch else acn_coq)(c, i) for c, i in zip(inp["calls"], impls)])
    kind = "seq/%s/%s/%d%s" % (inp["path"], inp["bp"], len(inp["calls"]),
                               "/error" if any("error" in i for i in impls) else "")
    return dict(input=inp, impl=impls, coq=coq, ambiguous=amb, kind=kind, sig=inp, nontrivial=True)


def monitor_seq(inp, impls):
    for k, (c, i) in enumerate(zip(inp["calls"], impls)):
        r = (monitor_stoch if inp["path"] == "stoch" else monitor_acn)(c, i)
        if r:
            return "call %d of %d (same battery_params object%s): %s" % (
                k + 1, len(impls), "" if i["bp_before"] == impls[0]["bp_before"] else
                ", which an earlier call changed to %r" % (i["bp_before"],), r)
    for k, i in enumerate(impls):
        if i.get("late_same") is False:
            return ("the EVs returned by call %d of %d changed afterwards (later calls / the caller editing its own "
                    "battery_params, documents or other calls' results)" % (k + 1, len(impls)))
    for k, (c, i) in enumerate(zip(inp["calls"], impls)):
        if i["bp_after"] != i["bp_before"]:
            return ("call %d of %d modified the caller's battery_params: %r -> %r"
                    % (k + 1, len(impls), i["bp_before"], i["bp_after"]))
        if i.get("docs_same") is False:
            return "call %d of %d modified the caller's session documents" % (k + 1, len(impls))
    return None


CORPUS_SEQ = [dict(stream="seq", path="stoch", bp="battery", calls=[
    dict(stream="stoch", cls="sub", clip=[0.0, 24.0, 0.0833, 48.0, 0.5, 150.0], T=5, V=208, maxP=p, max_len=None,
         ff=True, bp="battery", days=[[[6.5, 1.0, 10.0], [8.3, 6.05, 3.0], [10.0, 2.0, 12.0]]]) for p in (3.3, 6.6)])]


def corpus(stream):
    """corpus/C15/*.json (minimised past findings / disagreements) — always run first"""
    import glob
    import json
    import os
    root = os.path.join(os.path.dirname(os.path.dirname(os.path.abspath(__file__))), "corpus", PID)
    out = []
    for f in sorted(glob.glob(os.path.join(root, "*.json"))):
        with open(f) as fh:
            inp = json.load(fh)
        inp.pop("note", None)
        if inp.get("stream") == stream:
            out.append(inp)
    return out


def gen_cases(rng, n, tier):
    return [make_acn_case(i) for i in corpus("acn")] + [make_acn_case(gen_acn_input(rng)) for _ in range(n)]


def extra_streams(rng, tier):
    n = CASES[tier]
    stoch = [make_stoch_case(i) for i in corpus("stoch") + CORPUS_STOCH] + \
        [make_stoch_case(gen_stoch_input(rng)) for _ in range(n // 2)]
    fit = [make_fit_case(i) for i in corpus("fit") + CORPUS_FIT] + [make_fit_case(gen_fit_input(rng)) for _ in range(n * 2 // 5)]
    hdr = CORR_HEADER
    nseq = max(20, n // 8)
    seq_s = [make_seq_case(i) for i in CORPUS_SEQ] + [make_seq_case(gen_seq_input(rng, "stoch")) for _ in range(nseq)]
    seq_a = [make_seq_case(gen_seq_input(rng, "acn")) for _ in range(nseq // 2)]
    return [("stoch", hdr, "check_c15_stoch", stoch), ("fit", hdr, "check_c15_fit", fit),
            ("seqs", hdr, "(forallb check_c15_stoch)", seq_s), ("seqa", hdr, "(forallb check_c15)", seq_a)]


# ---------------------------------------------------------------------------------------------
# implementation-level monitor (the property stated on recorded behaviour)
# ---------------------------------------------------------------------------------------------
REL = F(1, 10 ** 9)


def close(a, b, scale=1):
    a, b = F(a), F(b)
    return abs(a - b) <= REL * max(1, abs(a), abs(b), scale)


def check_battery(bp, o, V, T):
    req, cap, init = F(o["requested"]), F(o["cap"]), F(o["init"])
    if not is_fit(bp):
        if not (close(cap - init, req) and init == 0):
            return "default battery: capacity - initial charge = %r, requested %r" % (float(cap - init), float(req))
        if o["btype"] != "Battery":
            return "default battery type is %s" % o["btype"]
    else:
        if init < 0 or init > cap or init + req > cap * (1 + REL):
            return "fitted battery cannot hold the request: cap %r init %r requested %r" % (o["cap"], o["init"], o["requested"])
        if o["cap"] not in LADDER:
            return "capacity %r is not a ladder step" % o["cap"]
        want_kw = {"fitkw": [FIT_KWARGS["noise_level"], FIT_KWARGS["transition_soc"]],
                   "fitkw0": [FIT_KWARGS0["noise_level"], FIT_KWARGS0["transition_soc"]]}.get(bp, [0, 0.8])
        if o["btype"] != "Linear2StageBattery" or o["bkw"] != want_kw:
            return "battery %s%r does not carry the requested type / kwargs" % (o["btype"], o["bkw"])
        if "fit_error" in o:
            return "the fitted battery cannot be built / charged: %s" % o["fit_error"]
        if "fit_delivered" in o and abs(F(o["fit_delivered"]) - req) > 2 * REL * cap + F(1, 10 ** 12):
            return ("fitted battery charged at 32 A for the %d-period stay takes %r kWh, requested %r"
                    % (o["departure"] - o["arrival"], o["fit_delivered"], o["requested"]))
    return None


def check_roundtrip(o, ff, maxP, T):
    """JSON round trip of the generated EV, then the reloaded EV charged flat out through EV.charge"""
    if "json_error" in o:
        return "generated EV cannot be saved / reloaded / charged: %s" % o["json_error"]
    if o.get("json_diff"):
        return "EV reloaded from its JSON differs in %s" % ", ".join(o["json_diff"])
    if "flat_out" in o:
        stay = o["departure"] - o["arrival"]
        can = F(maxP) * max(stay, 0) * F(T) / 60
        want = F(o["requested"]) if ff else min(F(o["requested"]), can)
        if not close(o["flat_out"], want):
            return ("EV (default battery) charged flat out for its %d-period stay received %r kWh, %s %r"
                    % (stay, o["flat_out"], "requested" if ff else "expected", float(want)))
    return None


def fit_feasible(E, n, V, T):
    """clearly feasible for the fit: some ladder step >= E takes E from empty in n periods, with margin"""
    E = float(E)
    if E < 0:
        return False
    if n <= 0:
        return E == 0
    for cap in LADDER:
        if E > cap:
            continue
        mn = 32 * V / 1000 / cap / (60 / T) * n
        d0 = mn if mn <= 0.8 else 1 - 0.2 * math.exp(-(mn - 0.8) / 0.2)
        if d0 * cap >= E * (1 + 1e-6) + 1e-9:
            return True
    return False


def rejection_ok(bp, sessions, V, T, recursion=False):
    """sessions: (energy, stay).  A ValueError is a legitimate rejection only if some session has a
    negative energy (Battery refuses capacity < initial charge; the fit's bisection has no root and hits
    the recursion limit) or, with the fit, is not clearly feasible (ValueError only)"""
    for e, stay in sessions:
        if e < 0:
            return True
        if is_fit(bp) and not fit_feasible(e, stay, V, T) and not recursion:
            return True
    return False


def monitor_acn(inp, impl):
    T = inp["T"]
    off = math.floor(ts_exact(*inp["start"]) / psec(T))
    if "error" in impl:
        rec = impl["error"] == "RecursionError" and is_fit(inp["bp"])
        if not impl["error"].startswith("ValueError") and not rec:
            return "get_evs raised %s" % impl["error"]
        sess = []
        for d in inp["docs"]:
            a = math.floor(ts_exact(*d["conn"]) / psec(T)) - off
            dep = math.floor(ts_exact(*d["disc"]) / psec(T)) - off
            if inp["max_len"] is not None and dep - a > inp["max_len"]:
                dep = a + inp["max_len"]
            e = F(d["kwh"])
            if inp["ff"]:
                e = min(e, F(inp["maxP"]) * (dep - a) * F(T) / 60)
            sess.append((e, dep - a))
        if not rejection_ok(inp["bp"], sess, inp["V"], T, recursion=rec):
            return "get_evs raised %s although every session is acceptable" % impl["error"]
        return None
    if len(impl["evs"]) != len(inp["docs"]):
        return "number of EVs differs from number of documents"
    prev = None
    rows = []
    for d, o in zip(inp["docs"], impl["evs"]):
        a = math.floor(ts_exact(*d["conn"]) / psec(T)) - off
        dep = math.floor(ts_exact(*d["disc"]) / psec(T)) - off
        if not o["int_types"]:
            return "arrival/departure are not ints"
        if o["arrival"] != a:
            return "arrival %d is not the period index of connectionTime minus that of start (%d)" % (o["arrival"], a)
        if inp["max_len"] is not None and dep - a > inp["max_len"]:
            dep = a + inp["max_len"]
        if o["departure"] != dep:
            return "departure %d, expected %d (period index of disconnectTime, capped by max_len)" % (o["departure"], dep)
        if o["departure"] < o["arrival"] and (inp["max_len"] is None or inp["max_len"] >= 0):
            return "departure before arrival"
        if o["est_dep"] != o["departure"]:
            return "estimated departure differs from departure"
        if "event_ts" in o and (o["event_ts"] != o["arrival"] or o["event_type"] != "Plugin"):
            return "generate_events: event (%r, %s) for an EV arriving at %d" % (o["event_ts"], o["event_type"], o["arrival"])
        stay = o["departure"] - o["arrival"]
        want = F(d["kwh"])
        if inp["ff"]:
            want = min(want, F(inp["maxP"]) * stay * F(T) / 60)
        if not close(o["requested"], want):
            return "requested energy %r, expected %r" % (o["requested"], float(want))
        if not close(o["max_power"], inp["maxP"]):
            return "battery max power %r is not max_battery_power" % o["max_power"]
        r = check_battery(inp["bp"], o, inp["V"], T) or check_roundtrip(o, inp["ff"], inp["maxP"], T)
        if r:
            return r
        sid, spid = doc_ids(inp, len(rows))
        if (o["session"], o["station"]) != (str(sid), str(spid)):
            return "session / station ids %r, expected %r" % ((o["session"], o["station"]), (str(sid), str(spid)))
        rows.append((ts_exact(*d["conn"]), o["arrival"]))
    rows.sort()
    for (c1, a1), (c2, a2) in zip(rows, rows[1:]):
        if a1 > a2:
            return "arrival order does not follow connection order"
    return None


def monitor_stoch(inp, impl):
    T = inp["T"]
    pph = F(60) / F(T)
    if "error" in impl:
        rec = impl["error"] == "RecursionError" and is_fit(inp["bp"])
        if not impl["error"].startswith("ValueError") and not rec:
            return "generate_events raised %s" % impl["error"]
        if all(len(d) == 0 for d in inp["days"]):
            return None                      # np.vstack of nothing
        sess = []
        for idx, a, d, e in stoch_rows_exact(inp):
            if a < 0 or d <= 0 or e <= 0:
                continue
            if inp["max_len"] is not None and d > F(inp["max_len"]):
                d = F(inp["max_len"])
            stay = math.floor((a + d) * pph) - math.floor(a * pph)
            if inp["ff"]:
                e = min(e, F(inp["maxP"]) * stay / pph)
            sess.append((e, stay))
        if not rejection_ok(inp["bp"], sess, inp["V"], T, recursion=rec):
            return "generate_events raised %s although every row is acceptable" % impl["error"]
        return None
    if impl.get("matrix_same") is False:
        return "_convert_ev_matrix modified the caller's matrix"
    if "after_scribble" in impl and impl["after_scribble"] != [{k: o[k] for k in a_} for o, a_ in zip(impl["evs"], impl["after_scribble"])]:
        return "EVs changed when the caller overwrote its matrix after the call"
    want = []
    for idx, a, d, e in stoch_rows_exact(inp):
        if a < 0 or d <= 0 or e <= 0:
            continue
        if inp["max_len"] is not None and d > F(inp["max_len"]):
            d = F(inp["max_len"])
        if inp["ff"]:
            e = min(e, F(inp["maxP"]) * (math.floor((a + d) * pph) - math.floor(a * pph)) / pph)
        want.append((idx, math.floor(a * pph), math.floor((a + d) * pph), e, d))
    if [w[0] for w in want] != [o["row"] for o in impl["evs"]]:
        return "rows converted %r, valid rows %r" % ([o["row"] for o in impl["evs"]], [w[0] for w in want])
    for w, o in zip(want, impl["evs"]):
        if (o["arrival"], o["departure"]) != (w[1], w[2]):
            return "row %d: arrival/departure %r, expected floor indices %r" % (w[0], (o["arrival"], o["departure"]), (w[1], w[2]))
        if o["event_ts"] != o["arrival"]:
            return "plugin event time differs from arrival"
        if o["departure"] < o["arrival"]:
            return "departure before arrival"
        if inp["max_len"] is not None and (o["departure"] - o["arrival"]) > F(inp["max_len"]) * pph + 1:
            return "stay exceeds max_len"
        if not close(o["requested"], w[3]):
            return "row %d: requested %r, expected %r" % (w[0], o["requested"], float(w[3]))
        if o["station"] != "station_%d" % w[0]:
            return "station id"
        if not close(o["max_power"], inp["maxP"]):
            return "row %d: battery max power %r is not this call's max_battery_power %r" % (w[0], o["max_power"], inp["maxP"])
        if inp["ff"] and F(o["requested"]) > F(o["max_power"]) * (o["departure"] - o["arrival"]) * F(T) / 60 * (1 + REL):
            return ("row %d: force_feasible request %r kWh is not deliverable by its battery (%r kW) in %d periods"
                    % (w[0], o["requested"], o["max_power"], o["departure"] - o["arrival"]))
        r = check_battery(inp["bp"], o, inp["V"], T) or check_roundtrip(o, inp["ff"], inp["maxP"], T)
        if r:
            return r
        if inp["ff"] and F(o["requested"]) > F(inp["maxP"]) * (o["departure"] - o["arrival"]) * F(T) / 60 * (1 + REL):
            return ("force_feasible: requested %r kWh exceeds what max_battery_power can deliver in the %d-period stay"
                    % (o["requested"], o["departure"] - o["arrival"]))
    return None


def monitor_fit(inp, impl):
    E, n, V, T = F(inp["E"]), inp["n"], inp["V"], inp["T"]
    if impl["kind"] == 2:
        # rejected: no ladder capacity >= E can take E in n periods at 32 A starting empty
        for cap in LADDER:
            if E > cap:
                continue
            m = 32 * V / 1000 / cap / (60 / T)
            mn = m * n
            d0 = mn if mn <= 0.8 else 1 - 0.2 * math.exp(-(mn - 0.8) / 0.2)
            if d0 * cap > float(E) + 1e-6 * cap:
                return "feasible request %r kWh / %d periods rejected (capacity %d can take %r)" % (inp["E"], n, cap, d0 * cap)
        return None
    if E < 0:
        return None                  # malformed request: any outcome but a crash of the harness is a rejection
    if impl["kind"] == 3:
        return "batt_cap_fn hit the recursion limit on a non-negative request"
    if impl["kind"] == 1:
        return None if (n == 0 and E > 0) else "infinite initial charge for a non-degenerate request"
    cap, init = F(impl["cap"]), F(impl["init"])
    if "charge_error" in impl:
        return "the fitted battery cannot be built / charged: %s" % impl["charge_error"]
    for key, what in (("again_same", "batt_cap_fn returned something else for the same request after another request"),
                      ("reset_same", "after reset() the same charging delivers a different amount"),
                      ("reset_init", "reset(x) then reset() does not restore the fitted initial charge"),
                      ("json_mid_same", "a JSON round trip of the battery half way through the stay changes the outcome")):
        if impl.get(key) is False:
            return what
    if impl["cap"] not in LADDER or cap < E:
        return "capacity %r is not a ladder step >= request" % impl["cap"]
    if init < 0 or init > cap or init + E > cap * (1 + REL):
        return "fitted battery cannot hold the request: cap %r init %r requested %r" % (impl["cap"], impl["init"], inp["E"])
    delivered = F(impl["final"]) - init
    if abs(delivered - E) > 2 * REL * cap + F(1, 10 ** 12):
        return "charging at 32 A for %d periods delivered %r kWh, requested %r" % (n, float(delivered), inp["E"])
    if abs(F(impl["by_rates"]) - E) > 2 * REL * cap + F(1, 10 ** 9):
        return "sum of charging rates gives %r kWh, requested %r" % (impl["by_rates"], inp["E"])
    # minimality of the capacity: every smaller ladder step >= E is infeasible from empty
    for c in LADDER:
        if c >= impl["cap"] or E > c:
            continue
        m = 32 * V / 1000 / c / (60 / T)
        mn = m * n
        d0 = mn if mn <= 0.8 else 1 - 0.2 * math.exp(-(mn - 0.8) / 0.2)
        if d0 * c > float(E) + 1e-6 * c:
            return "capacity %d skipped although it can take the request" % c
    return None


def monitor(case):
    if case.get("ambiguous"):
        return None
    inp, impl = case["input"], case["impl"]
    return {"acn": monitor_acn, "stoch": monitor_stoch, "fit": monitor_fit, "seq": monitor_seq}[inp["stream"]](inp, impl)


def make_case(inp):
    return {"acn": make_acn_case, "stoch": make_stoch_case, "fit": make_fit_case, "seq": make_seq_case}[inp["stream"]](inp)


def search(rng, budget_s, broken):
    t0 = time.time()
    gens = [lambda r: gen_seq_input(r, "stoch"), lambda r: gen_seq_input(r, "acn"),
            gen_acn_input, gen_stoch_input, gen_fit_input]
    while time.time() - t0 < budget_s:
        for g in gens:
            for _ in range(60):
                c = make_case(g(rng))
                r = monitor(c)
                if r:
                    return dict(case=c["input"], impl=c["impl"], why=r)
    return None


def replay(w):
    c = make_case(w["case"])
    c["ambiguous"] = False
    return monitor(c)
