"""C16 — the predefined site networks never admit more power than the transformer ratings; pods and
sub-panels stay within their rating; every EVSE has one of the three line-to-line phase angles and
is covered by a transformer constraint.

The dump coq/Gen/Sites.v (tools/dump_sites.py: the three factories are EXECUTED on every run) is the
tie between the code and the theorems; in addition random / boundary schedules are pushed through the
real network.is_feasible of every dumped configuration and through the model's on the dumped data,
and the per-transformer sum V*I is compared."""
import math
import os
import sys
import time
import fractions
import warnings
from harness.core import q, coq_list, coq_bool, ROOT
from harness import c06

warnings.filterwarnings("ignore")
sys.path.insert(0, os.path.join(ROOT, "tools"))
import dump_sites  # noqa: E402

PID = "C16"
GEN_GROUPS = ["SiteLim", "Sites"]
TARGETS = ["coq/Props/C16.vo", "coq/Model/Sites.vo"]
CASES = {"quick": 190, "thorough": 3820}   # prelude cases + dumped configurations x 4 / 100 interleaved rounds (see notes/C16.md)
SHARD = 18
CORR_HEADER = ("From Coq Require Import String ZArith QArith List Bool.\n"
               "From ACN Require Import Base.Num Model.Feasible Gen.Sites Model.Sites.\nImport ListNotations.\n"
               "Open Scope Q_scope.\n")
CHECK_FN = "check_c16"
RULE = ("all 46 dumped instances (3 sites x basic/real EVSEs x 3 capacity settings at 208 V; voltage arguments 200/120/240; "
        "the alias CaltechACN; degenerate capacities 0 kW and 1e9 kW; equal values for independent parameters, e.g. JPL 45/45) are built first, each with an Interface, a JSON-reloaded "
        "twin and an Interface on the twin, then queried with no construction in between: corpus witnesses, a prelude per site "
        "(larger/smaller transformer back to back with a balanced schedule just inside the larger one's limits; long horizons "
        "T=128..257 with one over-limit column at 127/255/last), then round-robin rounds (one schedule width per round incl. 0 "
        "periods, instances of one site back to back): non-negative schedules within the EVSE limits (all / one phase group / one "
        "transformer / sparse / balanced / integer-valued as int arrays), most loaded constraint scaled to limit*(1+-k*1e-7), "
        "inside or outside; compared with the model on the dump: network.is_feasible (phase-aware, linear), Interface.is_feasible, "
        "utils.infrastructure_constraints_feasible on the N x T matrix, the reloaded twin directly and through its Interface, sum "
        "V*I per transformer; the network's limits/matrix must be unchanged by the queries; the dump of a second process "
        "(other PYTHONHASHSEED) must be identical; distinct = (instance, schedule); decisions that change under a +-1e-9 slack "
        "are skipped")
ASSUMPTIONS = ["theorems are over R with exact arithmetic; sqrt3*120 V is used for the nominal 208 V line-to-line voltage (208/207.85 = 1.0007 is the nameplate rounding)",
               "which stations hang behind which transformer / which capacity parameter rates which transformer is ground truth written in tools/dump_sites.py from the site documentation; check_site verifies that the dumped constraint rows have exactly that structure",
               "the dump covers three capacity settings per site; all capacities are covered by the symbolic limit formulas (C16_all_caps) and by the fact that the wiring does not depend on the capacity (check_family)"]
TRUSTED_EXTRA = ["tools/dump_sites.py (executes the factories, classifies constraint rows by name)"]

F = fractions.Fraction
SQ3 = math.sqrt(3)
PHASES = (30.0, -90.0, 150.0)
SIG_OBJ = "object-dtype-matrix"
_nets = {}


def configs():
    """(site, basic_evse, index into dump_sites.variants(site), kwargs) — the dumped configurations"""
    out = []
    for site in ("caltech", "jpl", "office001"):
        for idx, (basic, kw) in enumerate(dump_sites.variants(site)):
            out.append((site, basic, idx, kw))
    return out


def kw_of(site, idx):
    return dump_sites.variants(site)[idx][1]


def get_net(site, basic, idx):
    key = (site, idx)
    if key not in _nets:
        import io
        import contextlib
        with contextlib.redirect_stdout(io.StringIO()):
            _nets[key] = dump_sites.build(site, basic, kw_of(site, idx))
    return _nets[key]


_extra = {}


def get_extra(site, basic, idx):
    """per instance: an Interface on the network, the network reloaded from its own JSON, an Interface on
    that; what the reload preserved"""
    key = (site, idx)
    if key not in _extra:
        import numpy as np
        from acnportal.acnsim.network import ChargingNetwork
        net = get_net(site, basic, idx)
        itf = c06.make_interface(net)
        rel = ChargingNetwork.from_json(net.to_json())
        ritf = c06.make_interface(rel)
        same = dict(
            station_ids=list(rel.station_ids) == list(net.station_ids),
            phase_angles=bool(np.array_equal(rel._phase_angles, net._phase_angles)),
            voltages=bool(np.array_equal(rel._voltages, net._voltages)),
            constraint_matrix=bool(np.array_equal(rel.constraint_matrix, net.constraint_matrix)),
            limits=bool(np.array_equal(rel.magnitudes, net.magnitudes)),
            constraint_index=list(rel.constraint_index) == list(net.constraint_index),
            phase_by_id=dict(rel.phase_angles) == dict(net.phase_angles),
            tolerances=(rel.violation_tolerance, rel.relative_tolerance) == (net.violation_tolerance, net.relative_tolerance))
        _extra[key] = dict(itf=itf, rel=rel, ritf=ritf, same=same, rel_ids=list(rel.station_ids),
                           limits0=net.magnitudes.copy(), matrix0=net.constraint_matrix.copy())
    return _extra[key]


def build_all():
    """construct every site instance (network, Interface, JSON-reloaded twin) BEFORE any query, so that the
    queries that follow are interleaved between live instances with no construction in between"""
    for site, basic, idx, kw in configs():
        get_net(site, basic, idx)
    for site, basic, idx, kw in configs():
        get_extra(site, basic, idx)


def truth(site, ids, kw):
    """ground truth from the site documentation (kept in tools/dump_sites.py)"""
    return dump_sites.truth(site, ids, kw)


def run_impl(net, X, T):
    import numpy as np
    Xa = np.array(X, dtype=float).reshape(len(X), T)
    if X and all(float(v).is_integer() for r in X for v in r):
        Xa = Xa.astype(int)          # integer-valued schedules are handed over as integer arrays
    raised = []
    out = []
    for lin in (False, True):
        try:
            out.append(bool(net.is_feasible(Xa, linear=lin)))
        except Exception as e:  # noqa  -- recorded, reported by the monitor
            out.append(False)
            raised.append("is_feasible(linear=%s): %s: %s" % (lin, type(e).__name__, str(e)[:120]))
    return out[0], out[1], raised


def ask_iface(itf, ids, X, raised, what):
    from acnportal.acnsim.interface import InvalidScheduleError
    try:
        # mixed element types: integral rates go in as python ints, the others as floats
        return bool(itf.is_feasible({ids[i]: [int(v) if float(v).is_integer() else v for v in X[i]]
                                     for i in range(len(ids))}))
    except InvalidScheduleError:
        return None
    except Exception as e:  # noqa
        raised.append("%s: %s: %s" % (what, type(e).__name__, str(e)[:120]))
        return False


def observe(site, basic, idx, X, T):
    import numpy as np
    net = get_net(site, basic, idx)
    ex = get_extra(site, basic, idx)
    kw = kw_of(site, idx)
    ids = list(net.station_ids)
    feas, feas_lin, raised = run_impl(net, X, T)
    iface = ask_iface(ex["itf"], ids, X, raised, "Interface.is_feasible")
    from acnportal.algorithms.utils import infrastructure_constraints_feasible as icf
    Xf = np.array(X, dtype=float).reshape(len(X), T)
    try:
        alg = bool(icf(Xf, ex["itf"].infrastructure_info()))          # the documented N x T call
    except Exception as e:  # noqa
        alg = False
        raised.append("infrastructure_constraints_feasible: %s: %s" % (type(e).__name__, str(e)[:120]))
    # the network's own arrays must not be touched by any of the queries
    if not np.array_equal(net.magnitudes, ex["limits0"]) or not np.array_equal(net.constraint_matrix, ex["matrix0"]):
        raised.append("a feasibility query changed the network's limits / constraint matrix "
                      "(largest limit drift %.3g A)" % float(np.max(np.abs(net.magnitudes - ex["limits0"]))))
    try:
        reload_feas = bool(ex["rel"].is_feasible(np.array(X, dtype=float).reshape(len(X), T)))
    except Exception as e:  # noqa
        reload_feas = False
        raised.append("reloaded.is_feasible: %s: %s" % (type(e).__name__, str(e)[:120]))
    # the reloaded network is addressed by the ORIGINAL station ids (row i belongs to station ids[i])
    reload_iface = ask_iface(ex["ritf"], ids, X, raised, "Interface(reloaded).is_feasible")
    trs, pods, panels = truth(site, ids, kw)
    volts = [float(v) for v in net._voltages]
    power = [sum(volts[i] * (X[i][0] if T > 0 else 0.0) for i in mem) for _, mem in trs]
    names = list(net.constraint_index)
    A = net.constraint_matrix
    sec = [j for j, nm in enumerate(names) if "Secondary" in nm]
    uncovered = [ids[i] for i in range(len(ids)) if not any(A[j][i] != 0 for j in sec)]
    return dict(feasible=feas, feasible_lin=feas_lin, iface=iface, alg=alg, reload=reload_feas, reload_iface=reload_iface,
                reload_same=ex["same"], raised=raised, power=power,
                phases=[float(p) for p in net._phase_angles], uncovered=uncovered, ids=ids,
                max_rates=[float(x) for x in net.max_pilot_signals])


def site_name(site, basic, idx):
    return dump_sites.site_name(site, idx)


def rand_schedule(rng, net, T, ids, site, kw):
    n = len(ids)
    mx = [min(float(m), 80.0) for m in net.max_pilot_signals]
    phases = [float(p) for p in net._phase_angles]
    style = rng.random()
    trs, _, _ = truth(site, ids, kw)
    active = list(range(n))
    kind = "all"
    if style < 0.25:
        g = rng.choice(PHASES)
        active = [i for i in range(n) if phases[i] == g]
        kind = "one-group"
    elif style < 0.4:
        active = list(rng.choice(trs)[1])
        kind = "one-transformer"
    elif style < 0.55:
        active = [i for i in range(n) if rng.random() < 0.3]
        kind = "sparse"
    X = []
    bal = rng.random() < 0.2
    v0 = rng.choice([6, 8, 12, 16, 24, 32])
    for i in range(n):
        if i not in active:
            X.append([0.0] * T)
        elif bal:
            X.append([float(min(v0, mx[i]))] * T)
        else:
            X.append([rng.choice([0.0, float(rng.choice([6, 8, 16, 24, 32])), rng.uniform(0, mx[i])]) for _ in range(T)])
    return X, kind + ("/balanced" if bal else "")


def crash_case(site, basic, idx, e):
    import traceback
    return dict(input=dict(site=site, basic=basic, idx=idx, crash=True),
                impl=dict(crash="%s: %s" % (type(e).__name__, e), trace=traceback.format_exc()[-1500:]),
                coq="", ambiguous=True, nontrivial=False, kind="crash", sig=["crash", site, basic, idx])


def gen_cases(rng, n, tier):
    """All instances are built first; then, round after round, every instance is queried once with a
    schedule of the round's width, instances of one site back to back (in random order, so a smaller
    transformer is queried right after a larger one and vice versa)."""
    cfgs = configs()
    cases = []
    try:
        build_all()
    except Exception as e:  # noqa
        return [crash_case("?", False, 0, e)]
    ctx = {}
    for site, basic, idx, kw in cfgs:
        net = get_net(site, basic, idx)
        A, L, ph = c06.read_back(net)
        ctx[(site, idx)] = dict(net=net, ids=list(net.station_ids), A=A, L=L, ph=ph, cis=c06.cis_of(ph),
                                vt=net.violation_tolerance, rt=net.relative_tolerance)
    # corpus: witnesses of fixed findings, re-run first
    import glob
    import json
    for path in sorted(glob.glob(os.path.join(ROOT, "corpus", "C16", "*.json"))):
        try:
            with open(path) as f:
                w = json.load(f)["input"]
            c = [c for c in cfgs if c[0] == w["site"] and c[2] == w["idx"]][0]
            n_st = len(ctx[(c[0], c[2])]["ids"])
            X = [[float(w["rate"])] * w["T"] for _ in range(n_st)]
            cases.append(one_case(rng, ctx[(c[0], c[2])], c[0], c[1], c[2], c[3], w["T"], None, X=X))
        except Exception as e:  # noqa
            cases.append(crash_case("corpus", False, 0, e))
    # prelude: per site, a larger and a smaller transformer queried back to back (both orders) with a
    # balanced schedule just inside the larger one's limits
    for site in ("caltech", "jpl", "office001"):
        try:
            cs = [c for c in cfgs if c[0] == site]
            big, small = cs[0], cs[1]
            nb = ctx[(site, big[2])]["net"]
            phases = ctx[(site, big[2])]["ph"]
            cnt = {g: sum(1 for p in phases if p == g) for g in PHASES}
            w = [1.0 / cnt[p] if cnt.get(p) else 0.0 for p in phases]
            mx = [min(float(m), 80.0) for m in nb.max_pilot_signals]
            x = feasible_max(nb, w, mx) * 0.97
            X = [[float(v)] for v in x]
            prev = None
            for c in (big, small, big, small):
                cases.append(one_case(rng, ctx[(site, c[2])], c[0], c[1], c[2], c[3], 1, prev, X=X))
                prev = [c[0], c[1], c[2]]
            # long horizons: all-zero schedules with ONE over-limit column, at the indices a block-wise check
            # could skip (127, 255, the last one) and at harmless ones
            if site != "jpl":
                for T, k in rng.sample([(128, 127), (129, 127), (256, 255), (257, 255), (257, 256), (200, 199),
                                        (129, 128), (130, 0)], 3):
                    scale = rng.choice([1.3, 1.3, 0.9])
                    XL = [[0.0] * T for _ in range(len(x))]
                    for i, v in enumerate(x):
                        XL[i][k] = float(v) / 0.97 * scale
                    cases.append(one_case(rng, ctx[(site, big[2])], big[0], big[1], big[2], big[3], T, prev, X=XL))
                    cases[-1]["kind"] += "/long-T%d-col%d" % (T, k)
                    prev = [big[0], big[1], big[2]]
        except Exception as e:  # noqa
            cases.append(crash_case(site, False, 0, e))
    rounds = max(1, (n - len(cases)) // len(cfgs))
    for r in range(rounds):
        T = rng.choice([1, 1, 1, 2, 1, 2, 0])
        groups = {}
        for c in cfgs:
            groups.setdefault(c[0], []).append(c)
        order = []
        for site in rng.sample(sorted(groups), len(groups)):
            order.extend(rng.sample(groups[site], len(groups[site])))
        prev = None
        for site, basic, idx, kw in order:
            try:
                cases.append(one_case(rng, ctx[(site, idx)], site, basic, idx, kw, T, prev))
            except Exception as e:  # noqa
                cases.append(crash_case(site, basic, idx, e))
            prev = [site, basic, idx]
    try:
        cases.extend(other_process_dump())
    except Exception as e:  # noqa
        cases.append(crash_case("second process", False, 0, e))
    # report order only: a case with a misjudged schedule goes before purely structural findings
    ok = lambda c: "crash" not in c["input"] and not c["input"].get("crash") and not c["impl"].get("raised")
    for pick in (lambda c: ok(c) and monitor_ratings(c), lambda c: ok(c) and monitor_(c)):
        hit = next((k for k, c in enumerate(cases) if pick(c)), None)
        if hit is not None:
            cases.insert(0, cases.pop(hit))
            break
    return cases


def other_process_dump():
    """the site dump produced by a SECOND process with another PYTHONHASHSEED must be byte-identical to the one
    this run's proofs were checked against (station order, phase groups, matrix must not depend on hashing)"""
    import subprocess
    from harness.core import REPO
    env = dict(os.environ, PYTHONHASHSEED="4242")
    code = ("import sys, warnings; warnings.filterwarnings('ignore'); sys.path.insert(0, 'tools'); import dump_sites; "
            "sys.stdout.write(dump_sites.generate(%r)[0][1])" % REPO)
    p = subprocess.run([sys.executable, "-c", code], cwd=ROOT, env=env, stdout=subprocess.PIPE, stderr=subprocess.PIPE,
                       text=True, timeout=180)
    with open(os.path.join(ROOT, "coq", "Gen", "Sites.v")) as f:
        here = f.read().split("\n", 1)[1]
    if p.returncode == 0 and p.stdout == here:
        return []
    why = "second process failed: " + p.stderr[-300:] if p.returncode else "dump differs"
    first = next((a for a, b in zip(p.stdout.splitlines(), here.splitlines()) if a != b), "")[:160]
    return [dict(input=dict(site="?", basic=False, idx=0, crash=True),
                 impl=dict(crash="site dump of a second process (PYTHONHASHSEED=4242): %s %s" % (why, first)),
                 coq="", ambiguous=True, nontrivial=False, kind="other-process", sig=["other-process"])]


def one_case(rng, cx, site, basic, idx, kw, T, prev, X=None):
    net, ids, A, L, cis, vt, rt = cx["net"], cx["ids"], cx["A"], cx["L"], cx["cis"], cx["vt"], cx["rt"]
    if X is None:
        X, kind = rand_schedule(rng, net, T, ids, site, kw)
        X, colkinds = c06.place(rng, A, L, cis, vt, rt, X, T, rng.random() < 0.2)
    else:
        kind, colkinds = "pair-prelude", ["near-max-of-other"]
    # keep the schedule on a 2^-30 grid (small rationals for the model run)
    X = [[round(v * 2 ** 30) / 2 ** 30 for v in r] for r in X]
    impl = observe(site, basic, idx, X, T)
    cur = c06.currents_exact(A, cis, X, T, False)
    curl = c06.currents_exact(A, cis, X, T, True)
    amb = c06.robust(cur, L, vt, rt) is None or c06.robust(curl, L, vt, rt) is None
    ob = lambda v: "None" if v is None else "(Some %s)" % coq_bool(v)
    coq = ("{| k_site := %s; k_T := %d%%nat; k_X := %s; j_feasible := %s; j_feasible_lin := %s; j_iface := %s; "
           "j_alg := %s; j_reload := %s; j_reload_iface := %s; j_power := %s |}" % (
               site_name(site, basic, idx), T, coq_list([coq_list([q(v) for v in r]) for r in X]),
               coq_bool(impl["feasible"]), coq_bool(impl["feasible_lin"]), ob(impl["iface"]), coq_bool(impl["alg"]),
               coq_bool(impl["reload"]),
               ob(impl["reload_iface"]), coq_list([q(p) for p in impl["power"]])))
    inp = dict(site=site, basic=basic, idx=idx, X=X, T=T, before=prev)
    sig = [site, idx, X]
    return dict(input=inp, impl=impl, coq=coq, ambiguous=amb, nontrivial=True,
                kind="%s/%s/%s/%s/%s" % (site, "v%g%s" % (kw.get("voltage", 208), "/" + kw["_alias"] if kw.get("_alias") else ""), kind, "+".join(sorted(set(colkinds))),
                                         "feasible" if impl["feasible"] else "infeasible"),
                sig=sig)


# ------------------------------------------------------------------------------------------
# monitor: C16 on the implementation's behaviour
# ------------------------------------------------------------------------------------------
def line_currents(idx, phases, x):
    ab = sum(x[i] for i in idx if phases[i] == 30.0)
    bc = sum(x[i] for i in idx if phases[i] == -90.0)
    ca = sum(x[i] for i in idx if phases[i] == 150.0)
    return (math.sqrt(max(0.0, ab * ab + ca * ca + ab * ca)), math.sqrt(max(0.0, ab * ab + bc * bc + ab * bc)),
            math.sqrt(max(0.0, ca * ca + bc * bc + ca * bc)))


def monitor(case):
    r = monitor_(case)
    if r:
        return r
    # structural difference of the JSON-reloaded network (reported when no misjudged schedule is at hand)
    diff = [k for k, v in case["impl"].get("reload_same", {}).items() if not v]
    if diff:
        return "network reloaded from its own JSON differs from the original in: %s" % ", ".join(diff)
    return None


def monitor_(case):
    inp, impl = case["input"], case["impl"]
    if inp.get("crash"):
        return "site factory / network raised %s" % impl["crash"]
    site, idx, X, T = inp["site"], inp["idx"], inp["X"], inp["T"]
    if impl.get("raised"):
        return "%s%s" % ("; ".join(impl["raised"]),
                         " (queried right after instance %s)" % (inp["before"],) if inp.get("before") else "")
    kw = kw_of(site, idx)
    ids, phases = impl["ids"], impl["phases"]
    bad = [ids[i] for i, p in enumerate(phases) if p not in PHASES]
    if bad:
        return "EVSE %s has phase angle %r, not one of 30/-90/150" % (bad[0], phases[ids.index(bad[0])])
    if impl["uncovered"]:
        # prefer a concrete over-rating schedule; the structural statement is the fallback
        r = monitor_ratings(case)
        return r or "EVSE %s is not covered by any transformer (secondary) constraint" % impl["uncovered"][0]
    return monitor_ratings(case)


def monitor_ratings(case):
    inp, impl = case["input"], case["impl"]
    site, idx, X, T = inp["site"], inp["idx"], inp["X"], inp["T"]
    kw = kw_of(site, idx)
    ids, phases = impl["ids"], impl["phases"]
    if case.get("ambiguous"):
        return None
    if any(v < 0 for r in X for v in r):
        return None
    # "every schedule the network reports feasible": the phase-aware report, the linear relaxation, the
    # report through the Interface, the reports of the JSON-reloaded network
    if impl["feasible"]:
        how = "feasible"
    elif impl["feasible_lin"]:
        how = "feasible (linear=True)"
    elif impl.get("iface"):
        how = "feasible by Interface.is_feasible"
    elif impl.get("alg"):
        how = "feasible by algorithms.utils.infrastructure_constraints_feasible on the site's InfrastructureInfo"
    elif impl.get("reload"):
        how = "feasible by the JSON-reloaded network"
    elif impl.get("reload_iface"):
        how = "feasible by Interface.is_feasible on the JSON-reloaded network"
    else:
        return None
    trs, pods, panels = truth(site, ids, kw)
    slack = 1 + 1e-6
    for t in range(T):
        x = [X[i][t] for i in range(len(ids))]
        for cap, mem in trs:
            p = SQ3 * 120 * sum(x[i] for i in mem)
            if p > 1000 * cap * slack + 0.05:       # + 0.05 W: the absolute tolerance 1e-5 A at 360 V on a 0 kW rating
                return "schedule reported %s draws %.1f W through a %.1f kW transformer (period %d)" % (how, p, cap, t)
        for rating, mem in pods:
            s = sum(x[i] for i in mem)
            if s > rating * slack:
                return "schedule reported %s puts %.3f A on a %d A pod" % (how, s, rating)
        for rating, mem in panels:
            for k, cur in enumerate(line_currents(mem, phases, x)):
                if cur > rating * slack:
                    return "schedule reported %s puts %.3f A on line %s of a %d A sub-panel" % (how, cur, "abc"[k], rating)
    return None


def monitor_nk(case):
    """the monitor without the open known findings (used by the searches)"""
    r = monitor(case)
    return None if (r and r.startswith("[")) else r


def ascent(rng, site, basic, idx, budget_s, lin=None):
    """greedy ascent on sum x_i subject to the implementation's is_feasible (phase-aware or linear)"""
    import numpy as np
    if lin is None:
        lin = rng.random() < 0.4
    net = get_net(site, basic, idx)
    ids = list(net.station_ids)
    n = len(ids)
    kw = kw_of(site, idx)
    mx = [min(float(m), 80.0) for m in net.max_pilot_signals]
    phases = [float(p) for p in net._phase_angles]
    trs, pods, panels = truth(site, ids, kw)
    t0 = time.time()
    while time.time() - t0 < budget_s:
        pick = rng.random()
        if pick < 0.3:
            act = list(rng.choice(trs)[1])
        elif pick < 0.5 and (pods or panels):
            act = list(rng.choice(pods + panels)[1])
        elif pick < 0.7:
            g = rng.sample(PHASES, rng.choice([1, 2]))
            act = [i for i in range(n) if phases[i] in g]
        else:
            act = [i for i in range(n) if rng.random() < 0.6]
        if not act:
            continue
        if rng.random() < 0.5:
            # balanced ray: equal totals on the three phase groups (the analytic optimum of the pure
            # delta constraints), maximised by bisection, then polished coordinate-wise
            cnt = {g: sum(1 for i in act if phases[i] == g) for g in PHASES}
            w = [1.0 / cnt[phases[i]] if i in act and cnt.get(phases[i]) else 0.0 for i in range(n)]
        else:
            w = [rng.choice([1.0, 1.0, rng.random()]) if i in act else 0.0 for i in range(n)]
        wa, mxa = np.array(w), np.array(mx)
        lo, hi = 0.0, 4000.0
        for _ in range(40):
            mid = (lo + hi) / 2
            if net.is_feasible(np.minimum(mid * wa, mxa).reshape(n, 1), linear=lin):
                lo = mid
            else:
                hi = mid
        x = np.minimum(lo * wa, mxa)
        step = 2.0
        while step > 1e-4:
            moved = False
            for i in rng.sample(act, len(act)):
                y = x.copy()
                y[i] = min(mx[i], y[i] + step)
                if y[i] > x[i] and net.is_feasible(y.reshape(n, 1), linear=lin):
                    x, moved = y, True
            if not moved:
                step /= 2
        X = [[float(v)] for v in x]
        impl = observe(site, basic, idx, X, 1)
        c = dict(input=dict(site=site, basic=basic, idx=idx, X=X, T=1), impl=impl)
        r = monitor_nk(c)
        if r:
            return dict(case=c["input"], impl=impl, why=r)
    return None


def feasible_max(net, w, mx):
    """largest multiple of the ray w (clipped to the EVSE limits) that the network accepts"""
    import numpy as np
    n = len(w)
    wa, mxa = np.array(w), np.array(mx)
    lo, hi = 0.0, 4000.0
    for _ in range(40):
        mid = (lo + hi) / 2
        if net.is_feasible(np.minimum(mid * wa, mxa).reshape(n, 1)):
            lo = mid
        else:
            hi = mid
    return np.minimum(lo * wa, mxa)


def interleave_probe(rng):
    """two live instances of one site with different capacities, queried alternately with schedules of
    the same width and no construction in between: each must be judged against its OWN limits"""
    build_all()
    by_site = {}
    for c in configs():
        by_site.setdefault(c[0], []).append(c)
    for site, cs in by_site.items():
        for _ in range(6):
            big, small = rng.sample(cs, 2)
            nb, ns = get_net(*big[:3]), get_net(*small[:3])
            n = len(nb.station_ids)
            phases = [float(p) for p in nb._phase_angles]
            cnt = {g: sum(1 for p in phases if p == g) for g in PHASES}
            w = [1.0 / cnt[p] if cnt.get(p) else 0.0 for p in phases]
            mx = [min(float(m), 80.0) for m in nb.max_pilot_signals]
            x = feasible_max(nb, w, mx) * rng.choice([0.99, 0.9, 0.7])
            X = [[float(v)] for v in x]
            for first, second in ((big, small), (small, big)):
                observe(first[0], first[1], first[2], X, 1)
                impl = observe(second[0], second[1], second[2], X, 1)
                c = dict(input=dict(site=second[0], basic=second[1], idx=second[2], X=X, T=1, before=list(first[:3])),
                         impl=impl)
                r = monitor_nk(c)
                if r:
                    return dict(case=c["input"], impl=impl, why=r)
    return None


def search(rng, budget_s, broken):
    try:
        return search_(rng, budget_s, broken)
    except Exception as e:  # noqa  -- the implementation raised on an input the harness considers valid
        c = crash_case("?", False, 0, e)
        return dict(case=c["input"], impl=c["impl"], why=monitor(c))


def search_(rng, budget_s, broken):
    cfgs = configs()
    t0 = time.time()
    w = interleave_probe(rng)
    if w:
        return w
    # structural parts of the property (phase angles, coverage)
    prev = None
    for site, basic, idx, kw in cfgs:
        try:
            n = len(get_net(site, basic, idx).station_ids)
        except Exception as e:  # noqa
            c = crash_case(site, basic, idx, e)
            return dict(case=c["input"], impl=c["impl"], why=monitor(c))
        X = [[0.0]] * n
        impl = observe(site, basic, idx, X, 1)
        c = dict(input=dict(site=site, basic=basic, idx=idx, X=X, T=1, before=prev), impl=impl)
        prev = [site, basic, idx]
        r = monitor_nk(c)
        if r:
            return dict(case=c["input"], impl=impl, why=r)
    # every EVSE at one common rate (e.g. all eight Office001 EVSEs at 32 A)
    prev = None
    for site, basic, idx, kw in cfgs:
        net = get_net(site, basic, idx)
        n_st = len(net.station_ids)
        singles = [[[32.0 if i == k else 0.0] for i in range(n_st)] for k in (0, n_st // 2, n_st - 1)]
        for X in singles + [[[min(rate, float(m))] for m in net.max_pilot_signals] for rate in (32.0, 24.0, 16.0, 8.0)]:
            impl = observe(site, basic, idx, X, 1)
            c = dict(input=dict(site=site, basic=basic, idx=idx, X=X, T=1, before=prev), impl=impl)
            prev = [site, basic, idx]
            r = monitor_nk(c)
            if r:
                return dict(case=c["input"], impl=impl, why=r)
    # then maximise the load on every configuration in turn (short ascents, several rounds)
    rounds = 0
    while time.time() - t0 < budget_s:
        order = list(cfgs)
        rng.shuffle(order)
        for site, basic, idx, kw in order:
            if time.time() - t0 >= budget_s:
                break
            w = ascent(rng, site, basic, idx, 1.0 + rounds)
            if w:
                return w
        rounds += 1
    return None


def replay(w):
    inp = w["case"]
    if inp.get("crash"):
        try:
            _nets.clear()
            _extra.clear()
            build_all()
        except Exception as e:  # noqa
            return "site factory raised %s" % type(e).__name__
        return None
    _nets.clear()
    _extra.clear()
    if inp.get("before"):
        # re-create the interleaving: both instances alive, the other one queried first with a schedule
        # of the same width, nothing constructed in between
        b = inp["before"]
        nb = get_net(b[0], b[1], b[2])
        get_net(inp["site"], inp["basic"], inp["idx"])
        get_extra(b[0], b[1], b[2])
        get_extra(inp["site"], inp["basic"], inp["idx"])
        run_impl(nb, [[0.0] * inp["T"]] * len(nb.station_ids), inp["T"])
    impl = observe(inp["site"], inp["basic"], inp["idx"], inp["X"], inp["T"])
    return monitor_nk(dict(input=inp, impl=impl))
