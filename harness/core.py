"""Framework shared by all property checks: Gen regeneration, Coq build, Print Assumptions
parsing, correspondence shards (cases.v + vm_compute), violation / known-finding protocol,
evidence files.  See DESIGN.md §3–§4."""
import concurrent.futures
import contextlib
import fcntl
import json
import os
import random
import re
import subprocess
import sys
import time
import fractions

ROOT = os.path.dirname(os.path.dirname(os.path.abspath(__file__)))
REPO = os.environ.get("ACN_REPO", "/repo")
COQ = os.path.join(ROOT, "coq")
CORR = os.path.join(COQ, "Corr")
sys.path.insert(0, os.path.join(ROOT, "tools"))

COQC_TIMEOUT = 600
MAKE_TIMEOUT = 1500


# ---------------------------------------------------------------------------------------------
# numbers -> Coq literals
# ---------------------------------------------------------------------------------------------
def q(x):
    """exact rational literal for a python number (float -> its exact binary value)"""
    if isinstance(x, bool):
        raise TypeError("bool is not a number here")
    if hasattr(x, "item"):
        x = x.item()
    fr = fractions.Fraction(x)
    n, d = fr.numerator, fr.denominator
    return "(%s # %d)" % (n if n >= 0 else "(%d)" % n, d)


def z(n):
    n = int(n)
    return "%d" % n if n >= 0 else "(%d)" % n


def zlit(n):
    return "(%s)%%Z" % z(n)


def coq_list(items):
    return "[" + "; ".join(items) + "]"


def coq_bool(b):
    return "true" if b else "false"


def coq_opt(x, f):
    return "None" if x is None else "(Some %s)" % f(x)


def coq_str(s):
    return '"%s"' % s.replace('"', '""')


# ---------------------------------------------------------------------------------------------
# locking / build
# ---------------------------------------------------------------------------------------------
@contextlib.contextmanager
def locked():
    fd = os.open(os.path.join(ROOT, ".lock"), os.O_CREAT | os.O_RDWR)
    try:
        fcntl.flock(fd, fcntl.LOCK_EX)
        yield
    finally:
        fcntl.flock(fd, fcntl.LOCK_UN)
        os.close(fd)


def regen():
    import importlib
    import gen
    importlib.reload(gen)
    return gen.main()


def all_v_files():
    out = []
    for sub in ("Base", "Gen", "Model", "Proofs", "Props"):
        d = os.path.join(COQ, sub)
        if os.path.isdir(d):
            for f in sorted(os.listdir(d)):
                if f.endswith(".v"):
                    out.append("coq/%s/%s" % (sub, f))
    return out


def write_coqproject():
    text = "-Q coq ACN\n-arg -w -arg -notation-overridden,-deprecated-hint-without-locality,-deprecated-syntactic-definition,-ambiguous-paths\n" + "\n".join(all_v_files()) + "\n"
    p = os.path.join(ROOT, "_CoqProject")
    old = open(p).read() if os.path.exists(p) else None
    if old != text or not os.path.exists(os.path.join(ROOT, "Makefile.coq")):
        with open(p, "w") as f:
            f.write(text)
        subprocess.run(["coq_makefile", "-f", "_CoqProject", "-o", "Makefile.coq"], cwd=ROOT,
                       check=True, stdout=subprocess.DEVNULL, stderr=subprocess.DEVNULL)


def make(targets, jobs=16):
    """build .vo targets (paths relative to ROOT); returns (ok, log)"""
    write_coqproject()
    cmd = ["timeout", str(MAKE_TIMEOUT), "make", "-f", "Makefile.coq", "-j%d" % jobs, "-k"] + list(targets)
    p = subprocess.run(cmd, cwd=ROOT, stdout=subprocess.PIPE, stderr=subprocess.STDOUT, text=True)
    return p.returncode == 0, p.stdout


FORBIDDEN = re.compile(r"\b(Admitted|admit|Axiom|Axioms|Parameter|Parameters|Conjecture|Admit Obligations|bypass_check|Unset Guard Checking|Unset Positivity Checking|Unset Universe Checking|type-in-type|impredicative-set|native_compute)\b")


def strip_comments(text):
    out, depth, i = [], 0, 0
    while i < len(text):
        if text.startswith("(*", i):
            depth += 1
            i += 2
        elif text.startswith("*)", i) and depth:
            depth -= 1
            i += 2
        else:
            if depth == 0:
                out.append(text[i])
            i += 1
    return "".join(out)


def audit():
    """grep the development (comments stripped) for anything that would weaken the proofs"""
    hits = []
    for rel in all_v_files():
        txt = strip_comments(open(os.path.join(ROOT, rel)).read())
        txt = re.sub(r'"[^"]*"', '""', txt)
        for m in FORBIDDEN.finditer(txt):
            hits.append("%s: %s" % (rel, m.group(1)))
    return hits


def failed_obligations(log):
    """map 'File "./coq/Proofs/X.v", line N' error locations to the enclosing lemma names"""
    out = []
    for m in re.finditer(r'File "\./?(coq/[^"]+\.v)", line (\d+), characters[^\n]*\n(Error[^\n]*(?:\n[^\n]+){0,3})', log):
        path, line, msg = m.group(1), int(m.group(2)), m.group(3)
        name = None
        try:
            with open(os.path.join(ROOT, path)) as f:
                lines = f.read().split("\n")
            for i in range(min(line, len(lines)) - 1, -1, -1):
                mm = re.match(r"\s*(?:Theorem|Lemma|Corollary|Example|Definition|Fixpoint|Fact|Remark|Proposition)\s+([A-Za-z0-9_']+)", lines[i])
                if mm:
                    name = mm.group(1)
                    break
        except OSError:
            pass
        out.append(dict(file=path, line=line, obligation=name, error=msg.strip()[:400]))
    return out


def compile_props(pid, extra_files=()):
    """(re)compile coq/Props/<pid>.v to collect Print Assumptions output.
    returns dict(ok, theorems=[{name, axioms}], log)"""
    results = dict(ok=True, theorems=[], log="")
    files = ["coq/Props/%s.v" % pid] + list(extra_files)
    for rel in files:
        path = os.path.join(ROOT, rel)
        if not os.path.exists(path):
            results["ok"] = False
            results["log"] += "missing %s\n" % rel
            continue
        p = subprocess.run(["timeout", str(COQC_TIMEOUT), "coqc", "-Q", "coq", "ACN", "-w",
                            "-notation-overridden,-deprecated-hint-without-locality,-deprecated-syntactic-definition,-ambiguous-paths", rel],
                           cwd=ROOT, stdout=subprocess.PIPE, stderr=subprocess.STDOUT, text=True)
        results["log"] += p.stdout
        if p.returncode != 0:
            results["ok"] = False
        src = open(path).read()
        names = re.findall(r"^\s*(?:Theorem|Example)\s+([A-Za-z0-9_']+)", src, re.M)
        printed = re.findall(r"Print Assumptions\s+([A-Za-z0-9_'.]+)\s*\.", src)
        # split coqc output into one chunk per Print Assumptions, in order
        chunks = re.split(r"(?m)^(?=Closed under the global context|Axioms:)", p.stdout)
        chunks = [c for c in chunks if c.startswith("Closed under") or c.startswith("Axioms:")]
        for i, nm in enumerate(printed):
            ax = None
            if i < len(chunks):
                c = chunks[i]
                if c.startswith("Closed under"):
                    ax = []
                else:
                    ax = [a for a in re.findall(r"(?m)^([A-Za-z_][A-Za-z0-9_'.]*)\s*:", c) if a != "Axioms"]
            results["theorems"].append(dict(name=nm, axioms=ax, file=rel,
                                            compiled=(p.returncode == 0 and ax is not None)))
        for nm in names:
            if nm not in printed and not nm.endswith("_example") and not re.match(r".*_ex\d*$", nm):
                results["theorems"].append(dict(name=nm, axioms=None, file=rel, compiled=p.returncode == 0,
                                                note="no Print Assumptions"))
    return results


def coqchk(pid):
    """independent re-check of the compiled property file and everything it depends on;
    returns (ok, axioms, tail of output)"""
    p = subprocess.run(["timeout", "1500", "coqchk", "-silent", "-o", "-Q", "coq", "ACN", "ACN.Props.%s" % pid],
                       cwd=ROOT, stdout=subprocess.PIPE, stderr=subprocess.STDOUT, text=True)
    axioms = []
    m = re.search(r"\* Axioms:\s*(.*?)(?:\n\s*\n|\* |\Z)", p.stdout, re.S)
    if m:
        axioms = [a.strip() for a in m.group(1).split("\n") if a.strip() and a.strip() != "<none>"]
    return p.returncode == 0, axioms, p.stdout[-1500:]


def shrink_list(items, still_fails, max_rounds=200):
    """delta-debugging style minimisation of a list input"""
    items = list(items)
    n = 2
    rounds = 0
    while len(items) >= 2 and rounds < max_rounds:
        rounds += 1
        chunk = max(1, len(items) // n)
        reduced = False
        for i in range(0, len(items), chunk):
            cand = items[:i] + items[i + chunk:]
            if cand and still_fails(cand):
                items = cand
                n = max(n - 1, 2)
                reduced = True
                break
        if not reduced:
            if chunk == 1:
                break
            n = min(n * 2, len(items))
    return items


# ---------------------------------------------------------------------------------------------
# correspondence shards
# ---------------------------------------------------------------------------------------------
def run_shards(pid, header, case_terms, check_fn, shard_size=300, jobs=16, tag=""):
    """Write cases_<pid>_<k>.v files: `header`, a list `cases` of the given Coq terms and
    `Eval vm_compute in (bad_indices (map <check_fn> cases))`; compile in parallel.
    Returns (bad_global_indices, errors) where errors is a list of coqc failures."""
    os.makedirs(CORR, exist_ok=True)
    for f in os.listdir(CORR):
        if f.startswith("cases_%s%s_" % (pid, tag)):
            os.unlink(os.path.join(CORR, f))
    shards = [case_terms[i:i + shard_size] for i in range(0, len(case_terms), shard_size)]
    files = []
    for k, sh in enumerate(shards):
        name = "cases_%s%s_%d" % (pid, tag, k)
        body = header + "\nDefinition cases := [\n" + ";\n".join(sh) + "\n].\n" + \
            "Definition verdicts := map %s cases.\n" % check_fn + \
            "Eval vm_compute in (bad_indices verdicts).\n"
        with open(os.path.join(CORR, name + ".v"), "w") as f:
            f.write(body)
        files.append(name)

    def one(name):
        p = subprocess.run(["timeout", str(COQC_TIMEOUT), "coqc", "-Q", "coq", "ACN", "-w", "none",
                            "coq/Corr/%s.v" % name],
                           cwd=ROOT, stdout=subprocess.PIPE, stderr=subprocess.STDOUT, text=True)
        return name, p.returncode, p.stdout

    bad, errors = [], []
    with concurrent.futures.ThreadPoolExecutor(max_workers=jobs) as ex:
        for name, rc, out in ex.map(one, files):
            k = int(name.rsplit("_", 1)[1])
            if rc != 0:
                errors.append(dict(shard=name, log=out[-1500:]))
                continue
            m = re.search(r"=\s*\[(.*?)\]\s*:\s*list nat", out, re.S)
            if not m:
                errors.append(dict(shard=name, log="unparsable output: " + out[-500:]))
                continue
            idx = [int(x.replace("%nat", "")) for x in re.findall(r"\d+(?:%nat)?", m.group(1))]
            bad.extend(k * shard_size + i for i in idx)
    return sorted(bad), errors


def eval_terms(pid, header, terms, tag="eval", jobs=16, shard_size=200):
    """Evaluate arbitrary Coq terms (each must print on one logical line via a custom printer
    is NOT attempted); returns raw coqc output per shard.  Used by searches that need model values."""
    os.makedirs(CORR, exist_ok=True)
    outs = []
    shards = [terms[i:i + shard_size] for i in range(0, len(terms), shard_size)]
    for k, sh in enumerate(shards):
        name = "eval_%s_%s_%d" % (pid, tag, k)
        body = header + "\n" + "\n".join("Eval vm_compute in (%s)." % t for t in sh) + "\n"
        with open(os.path.join(CORR, name + ".v"), "w") as f:
            f.write(body)
        p = subprocess.run(["timeout", str(COQC_TIMEOUT), "coqc", "-Q", "coq", "ACN", "-w", "none",
                            "coq/Corr/%s.v" % name], cwd=ROOT, stdout=subprocess.PIPE,
                           stderr=subprocess.STDOUT, text=True)
        outs.append(p.stdout)
    return outs


# ---------------------------------------------------------------------------------------------
# known findings, violations, evidence
# ---------------------------------------------------------------------------------------------
def known_findings(pid):
    p = os.path.join(ROOT, "known_findings.json")
    if not os.path.exists(p):
        return []
    with open(p) as f:
        data = json.load(f)
    return [e for e in data.get("findings", []) if e.get("property") == pid]


def jsonable(o):
    if isinstance(o, fractions.Fraction):
        return float(o) if o.denominator != 1 else int(o)
    if hasattr(o, "tolist"):
        return o.tolist()
    if hasattr(o, "item"):
        return o.item()
    if isinstance(o, (set, frozenset)):
        return sorted(o)
    if isinstance(o, bytes):
        return o.decode("latin1")
    return repr(o)


def write_replay(pid, seed, obj):
    d = os.path.join(ROOT, "replays")
    os.makedirs(d, exist_ok=True)
    path = os.path.join(d, "%s-%s.json" % (pid, seed))
    with open(path, "w") as f:
        json.dump(obj, f, indent=1, default=jsonable)
    return path


def report_violation(pid, seed, obj, found_input):
    path = write_replay(pid, seed, obj)
    line = "VIOLATION property=%s replay=%s" % (pid, path)
    if not found_input:
        line += " no-failing-input-found"
    print(line, flush=True)
    return path


def write_evidence(pid, tier, seed, coverage, wall_s, violations, assumptions):
    d = os.path.join(ROOT, "evidence")
    os.makedirs(d, exist_ok=True)
    ev = dict(property_id=pid, tier=tier, seed=int(seed), level="proof", coverage=coverage,
              assumptions=assumptions, wall_s=round(wall_s, 2), violations=int(violations))
    with open(os.path.join(d, "%s.json" % pid), "w") as f:
        json.dump(ev, f, indent=1, default=jsonable)


def anchors_info(groups):
    p = os.path.join(COQ, "Gen", "anchors.json")
    try:
        with open(p) as f:
            data = json.load(f)
    except OSError:
        return []
    out = []
    for g in groups:
        for k, v in data.items():
            if k == g or k.startswith(g + "_"):
                if isinstance(v, list):
                    out.extend(dict(gen=k, **{kk: i[kk] for kk in ("name", "file", "qual", "line", "end_line", "fingerprint") if kk in i}) for i in v if isinstance(i, dict))
                elif isinstance(v, dict):
                    out.append(dict(gen=k, **v))
    # de-duplicate Q/R twins
    seen, res = set(), []
    for a in out:
        key = (a.get("name"), a.get("file"), a.get("qual"))
        if key in seen:
            continue
        seen.add(key)
        res.append(a)
    return res


TRUSTED_BASE = [
    "Coq 8.16.1 kernel and coqc (full .vo build); vm_compute for model evaluation; no native_compute",
    "tools/py2coq.py (Python-ast -> Coq translator) and the Gen/ regeneration step",
    "the correspondence harness: input generators, float->exact-rational conversion (Fraction), name->number encodings, exception->string map, coqc output parsing",
    "exact rational/real arithmetic in the model vs IEEE-754 doubles in the implementation (values compared to 1e-9 relative; decisions within 1e-9 of a threshold are skipped as ambiguous)",
    "CPython / numpy / pandas library semantics as modelled (see DESIGN.md section 5)",
]


# ---------------------------------------------------------------------------------------------
# generic driver
# ---------------------------------------------------------------------------------------------
class Outcome:
    def __init__(self):
        self.failures = []      # list of dict(kind=..., detail=...)
        self.notes = []


def run_check(mod, tier, seed, replay=None):
    """mod: a property module (harness/cXX.py).  Required attributes:
         PID, GEN_GROUPS, TARGETS (list of .vo), CASES = {tier: n}
         gen_cases(rng, n, tier) -> list of case dicts with keys: input, impl, coq, nontrivial(bool), sig
         CORR_HEADER, CHECK_FN
       Optional: monitor(case) -> None | str ; search(rng, budget_s, broken) -> case | None ;
         replay_known(entry) -> None | str (description of what still fails) ; SHARD ;
         extra_streams(rng, tier) -> list of (tag, header, check_fn, cases)
    """
    t0 = time.time()
    pid = mod.PID
    rng = random.Random(int(seed) * 1000003 + sum(ord(c) for c in pid))
    out = Outcome()
    if replay:
        return do_replay(mod, replay)

    with locked():
        changed, gen_errs = regen()
        for e in gen_errs:
            out.failures.append(dict(kind="translator", detail=e))
        ok, log = make(mod.TARGETS)
        if not ok:
            obl = failed_obligations(log)
            if not obl:
                obl = [dict(file="?", line=0, obligation=None, error=log[-1500:])]
            for o in obl:
                out.failures.append(dict(kind="proof", detail=o))
        for h in audit():
            out.failures.append(dict(kind="audit", detail=h))
        props = compile_props(pid, getattr(mod, "EXTRA_PROP_FILES", ()))
        if not props["ok"] and ok:
            out.failures.append(dict(kind="proof", detail=dict(file="coq/Props/%s.v" % pid,
                                                               error=props["log"][-1500:])))
    chk = None
    if tier == "thorough" and not out.failures:
        okc, chk_axioms, chk_tail = coqchk(pid)
        chk = dict(ok=okc, axioms=chk_axioms)
        if not okc:
            out.failures.append(dict(kind="coqchk", detail=chk_tail))
    theorems = props["theorems"]
    if not ok or gen_errs:
        # dependencies did not rebuild: whatever coqc found were stale .vo files
        for t in theorems:
            t["compiled"] = False
            t["note"] = "dependencies failed to rebuild on this run"
    obligations = len(theorems)
    discharged = sum(1 for t in theorems if t.get("compiled"))
    axioms = sorted({a for t in theorems for a in (t["axioms"] or [])})

    # ---- correspondence
    n = mod.CASES[tier]
    streams = []
    t_gen = time.time()
    import traceback
    try:
        cases = mod.gen_cases(rng, n, tier)
        streams.append(("", mod.CORR_HEADER, mod.CHECK_FN, cases))
        if hasattr(mod, "extra_streams"):
            streams.extend(mod.extra_streams(rng, tier))
    except Exception:  # an exception escaping the implementation on inputs the harness considers valid
        tb = traceback.format_exc()
        print(tb[-1500:], flush=True)
        out.failures.append(dict(kind="implementation-exception", detail=tb[-3000:]))
    bad_cases, corr_errors, total = [], [], 0
    ambiguous = 0
    for tag, header, check_fn, cs in streams:
        live = [c for c in cs if not c.get("ambiguous")]
        ambiguous += len(cs) - len(live)
        total += len(live)
        if not live:
            continue
        bad, errs = run_shards(pid, header, [c["coq"] for c in live], check_fn,
                               shard_size=getattr(mod, "SHARD", 300), tag=tag)
        bad_cases.extend(live[i] for i in bad)
        for e in errs:
            corr_errors.append(e)
    for c in bad_cases[:20]:
        out.failures.append(dict(kind="correspondence", detail=dict(input=c["input"], impl=c.get("impl"))))
    for e in corr_errors:
        out.failures.append(dict(kind="correspondence-build", detail=e))

    all_cases = [c for _, _, _, cs in streams for c in cs]
    # implementation-level monitor on every generated case (cheap, catches violations directly)
    monitor_hits = []
    if hasattr(mod, "monitor"):
        for c in all_cases:
            r = mod.monitor(c)
            if r:
                monitor_hits.append((c, r))

    # ---- known findings
    kf_lines = []
    known_sigs = []
    for e in known_findings(pid):
        if e.get("status") == "open":
            still = mod.replay_known(e) if hasattr(mod, "replay_known") else "not re-checked"
            if still:
                print("KNOWN-FINDING: property=%s %s" % (pid, e.get("what", "")), flush=True)
                kf_lines.append(e.get("what", ""))
                known_sigs.append(e.get("sig"))
            else:
                print("note: known finding no longer reproduces: %s" % e.get("what", ""), flush=True)
    monitor_hits = [(c, r) for c, r in monitor_hits if c.get("sig") not in known_sigs]

    violations = 0
    if out.failures or monitor_hits:
        violations = 1
        witness = None
        if monitor_hits:
            c, r = monitor_hits[0]
            witness = dict(case=c["input"], impl=c.get("impl"), why=r)
        if witness is None and hasattr(mod, "monitor"):
            for c in bad_cases:
                r = mod.monitor(c)
                if r:
                    witness = dict(case=c["input"], impl=c.get("impl"), why=r)
                    break
        if witness is None and hasattr(mod, "search"):
            budget = 60 if tier == "quick" else 300
            w = mod.search(rng, budget, out.failures)
            if w is not None:
                witness = w
        replay_obj = dict(property=pid, seed=seed, tier=tier,
                          broken=[f for f in out.failures][:30],
                          witness=witness,
                          how_to_replay="./check %s --replay <this file>" % pid)
        report_violation(pid, seed, replay_obj, witness is not None)

    # ---- evidence
    sigs = {}
    for c in all_cases:
        if c.get("nontrivial", True) and not c.get("ambiguous"):
            sigs[json.dumps(c.get("sig", c["input"]), sort_keys=True, default=jsonable)] = 1
    dist = {}
    for c in all_cases:
        k = c.get("kind", "case")
        dist[k] = dist.get(k, 0) + 1
    coverage = dict(
        obligations=obligations, discharged=discharged,
        checker_cmd="make -f Makefile.coq %s && coqc coq/Props/%s.v (Print Assumptions)" % (" ".join(mod.TARGETS), pid),
        trusted_base=TRUSTED_BASE + getattr(mod, "TRUSTED_EXTRA", []),
        theorems=theorems, axioms=axioms,
        evaluations=total, distinct_nontrivial=len(sigs),
        rule=getattr(mod, "RULE", ""),
        samples=[dict(input=c["input"], impl=c.get("impl")) for c in all_cases[:3]],
        ambiguous_skipped=ambiguous, input_distribution=dist,
        disagreements_checked=len(bad_cases),
        anchors=anchors_info(mod.GEN_GROUPS),
        regenerated=changed, known_findings=kf_lines, coqchk=chk,
        gen_seconds=round(time.time() - t_gen, 1),
    )
    write_evidence(pid, tier, seed, coverage, time.time() - t0, violations,
                   getattr(mod, "ASSUMPTIONS", []))
    print("%s: %d/%d theorems checked, %d correspondence cases (%d ambiguous skipped), %d disagreements, %.1fs"
          % (pid, discharged, obligations, total, ambiguous, len(bad_cases), time.time() - t0), flush=True)
    return 1 if violations else 0


def do_replay(mod, path):
    with open(path) as f:
        obj = json.load(f)
    w = obj.get("witness")
    if w is None:
        print("replay file names broken obligations only (no failing input was found):")
        for b in obj.get("broken", []):
            print("  ", json.dumps(b)[:300])
        return 1
    if hasattr(mod, "replay"):
        r = mod.replay(w)
        if r:
            print("REPRODUCED: %s" % r)
            return 1
        print("witness no longer fails on the current tree")
        return 0
    print(json.dumps(w, indent=1)[:2000])
    return 1
