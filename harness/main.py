import argparse, importlib, os, sys, warnings
warnings.filterwarnings("ignore")
from harness import core


def main():
    ap = argparse.ArgumentParser()
    ap.add_argument("pid")
    ap.add_argument("--tier", default=os.environ.get("VERIF_TIER", "quick"))
    ap.add_argument("--replay", default=None)
    a = ap.parse_args()
    seed = int(os.environ.get("VERIF_SEED", "0") or 0)
    tier = a.tier if a.tier in ("quick", "thorough") else "quick"
    mod = importlib.import_module("harness.%s" % a.pid.lower())
    rc = core.run_check(mod, tier, seed, replay=a.replay)
    sys.exit(rc)


if __name__ == "__main__":
    main()
